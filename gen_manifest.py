#!/usr/bin/env python3
"""Regenerates MANIFEST.json from the table below (kept in one place so it is always schema-valid)."""
import json, sys, sys
BASE_OFF = "cd /repo && cargo test --workspace --no-fail-fast --offline"
CHECKS = {
}
# filled below
def check(pid, category, text, note, technique, design_ref, engine):
    return {
        "property_id": pid,
        "quick_cmd": f"bin/check {pid} quick",
        "thorough_cmd": f"bin/check {pid} thorough",
        "evidence_file": f"/verif/evidence/{pid}.json",
        "replay_cmd_template": f"bin/check {pid} --replay {{path}}",
        "engine": engine,
        "level_claimed": {"category": category, "text": text, "design_ref": design_ref},
        "level_note": note,
        "technique": technique,
    }
exec(open('/verif/manifest_table.py').read())
props = [json.loads(l)["id"] for l in open('/verif/properties.jsonl')]
for e in ENGINES:
    e["serves_properties"] = sorted(c["property_id"] for c in CLAIMED if c.get("engine") == e["name"])
CLAIMED.sort(key=lambda c: c["property_id"])
claimed = [c["property_id"] for c in CLAIMED]
na = [{"property_id": p, "reason": NOT_YET.get(p, "check not built yet in this round of work; design in DESIGN.md section 5")} for p in props if p not in claimed]
m = {
    "version": 1,
    "setup_cmd": "bin/check --build",
    "hooks": {
        "guard": "trark_rssl_verif",
        "enable": "RUSTFLAGS --cfg trark_rssl_verif, set in /verif/harness/.cargo/config.toml; the harness depends on /repo's crates by path",
        "baseline_off_cmd": BASE_OFF,
        "source_commits": HOOK_COMMITS,
        "add_only": True,
    },
    "engines": ENGINES,
    "checks": CLAIMED,
    "not_applicable": na,
    "notes": NOTES,
}
# never leave an invalid manifest behind: validate the candidate first (with the tooling venv when available)
import subprocess, tempfile, os
tmp = tempfile.NamedTemporaryFile('w', suffix='.json', delete=False, dir='/verif')
json.dump(m, tmp, indent=1)
tmp.close()
check = "import json,jsonschema,sys; jsonschema.validate(json.load(open(sys.argv[1])), json.load(open('/root/.vp/MANIFEST.schema.json')))"
r = subprocess.run(['python3-vt', '-c', check, tmp.name], capture_output=True, text=True)
if r.returncode != 0:
    os.unlink(tmp.name)
    sys.exit("MANIFEST candidate is INVALID, MANIFEST.json left unchanged:\n" + r.stderr[-600:])
os.replace(tmp.name, '/verif/MANIFEST.json')
print("claimed", claimed)

//! Thin wrappers around the real rssl entry points.

use rssl::text::{FileData, IncludeError, IncludeHandler};

#[derive(Copy, Clone, PartialEq, Eq, Debug, Hash, PartialOrd, Ord)]
pub enum Cfg {
    Dx,
    Vk,
    VkBa,
    Msl,
}

pub const ALL_CFGS: [Cfg; 4] = [Cfg::Dx, Cfg::Vk, Cfg::VkBa, Cfg::Msl];

impl Cfg {
    pub fn name(self) -> &'static str {
        match self {
            Cfg::Dx => "HlslForDirectX",
            Cfg::Vk => "HlslForVulkan",
            Cfg::VkBa => "HlslForVulkan+buffer_address",
            Cfg::Msl => "Msl",
        }
    }
    pub fn from_name(s: &str) -> Option<Cfg> {
        ALL_CFGS.iter().copied().find(|c| c.name() == s)
    }
    pub fn target(self) -> rssl::Target {
        match self {
            Cfg::Dx => rssl::Target::HlslForDirectX,
            Cfg::Vk | Cfg::VkBa => rssl::Target::HlslForVulkan,
            Cfg::Msl => rssl::Target::Msl,
        }
    }
    pub fn is_hlsl(self) -> bool {
        !matches!(self, Cfg::Msl)
    }
}

#[derive(Clone, PartialEq, Eq, Debug, Hash)]
pub enum Mode {
    /// `pipeline_name = None`: every pipeline in the file
    All,
    /// a single named pipeline
    Named(String),
    /// no-pipeline mode
    NoPipeline,
}

pub struct MapIncludes<'a>(pub &'a [(&'a str, &'a str)]);

impl<'a> IncludeHandler for MapIncludes<'a> {
    fn load(&mut self, file_name: &str, _: &str) -> Result<FileData, IncludeError> {
        for (name, data) in self.0 {
            if file_name == *name {
                return Ok(FileData { real_name: name.to_string(), contents: data.to_string() });
            }
        }
        Err(IncludeError::FileNotFound)
    }
}

#[derive(Clone)]
pub struct Job<'a> {
    pub files: &'a [(&'a str, &'a str)],
    pub entry: &'a str,
    pub defines: &'a [(&'a str, &'a str)],
    pub cfg: Cfg,
    pub mode: Mode,
    pub validate_layout: bool,
}

impl<'a> Job<'a> {
    pub fn run(&self) -> Result<Vec<rssl::CompiledPipeline>, String> {
        let mut inc = MapIncludes(self.files);
        let mut args = rssl::CompileArgs::new(self.entry, &mut inc, self.cfg.target())
            .defines(self.defines)
            .support_buffer_address(self.cfg == Cfg::VkBa)
            .validate_layout_consistency(self.validate_layout);
        match &self.mode {
            Mode::All => {}
            Mode::Named(n) => args = args.pipeline_name(Some(n.as_str())),
            Mode::NoPipeline => args = args.no_pipeline_mode(),
        }
        match rssl::compile(args) {
            Ok(p) => Ok(p),
            Err(e) => Err(format!("{}", e)),
        }
    }
}

/// compile a single-file source
pub fn compile1(src: &str, cfg: Cfg, mode: Mode) -> Result<Vec<rssl::CompiledPipeline>, String> {
    let files = [("main.rssl", src)];
    Job { files: &files, entry: "main.rssl", defines: &[], cfg, mode, validate_layout: false }.run()
}

/// A comparable rendering of everything compile returns for one pipeline.
pub fn render_pipeline(p: &rssl::CompiledPipeline) -> String {
    let mut s = String::new();
    s.push_str("== data ==\n");
    s.push_str(&String::from_utf8_lossy(&p.data));
    s.push_str("\n== stages ==\n");
    for st in &p.stages {
        s.push_str(&format!("{:?} {} {:?}\n", st.stage, st.entry_point, st.thread_group_size));
    }
    s.push_str("== metadata ==\n");
    s.push_str(&format!("{:#?}\n", p.metadata));
    s.push_str("== state ==\n");
    s.push_str(&format!("{:?}\n", p.graphics_pipeline_state));
    s
}

pub fn render_result(r: &Result<Vec<rssl::CompiledPipeline>, String>) -> String {
    match r {
        Ok(ps) => {
            let mut s = format!("OK {} pipelines\n", ps.len());
            for p in ps {
                s.push_str(&render_pipeline(p));
            }
            s
        }
        Err(e) => format!("ERR {}", e),
    }
}

/// preprocess + parse of a fragment; Err carries the rendered diagnostic
pub fn parse_src(src: &str) -> Result<rssl::ast::Module, String> {
    use rssl::text::CompileErrorExt;
    let mut sm = rssl::text::SourceManager::new();
    let toks = rssl::preprocess::preprocess_fragment(src, rssl::text::FileName("t.rssl".into()), &mut sm)
        .map_err(|e| format!("{}", e.display(&sm)))?;
    let toks = rssl::preprocess::prepare_tokens(&toks);
    rssl::parser::parse(&toks).map_err(|e| format!("{}", e.display(&sm)))
}

/// preprocess + parse + type_check of a fragment
pub fn typecheck_src(src: &str) -> Result<rssl::ir::Module, String> {
    use rssl::text::CompileErrorExt;
    let mut sm = rssl::text::SourceManager::new();
    let toks = rssl::preprocess::preprocess_fragment(src, rssl::text::FileName("t.rssl".into()), &mut sm)
        .map_err(|e| format!("{}", e.display(&sm)))?;
    let toks = rssl::preprocess::prepare_tokens(&toks);
    let ast = rssl::parser::parse(&toks).map_err(|e| format!("{}", e.display(&sm)))?;
    rssl::typer::type_check(&ast).map_err(|e| format!("{}", e.display(&sm)))
}

/// odometer over mixed radices: decode `idx` into digits (least significant first)
pub fn decode(mut idx: u64, radices: &[u64], out: &mut Vec<u64>) {
    out.clear();
    for r in radices {
        out.push(idx % r);
        idx /= r;
    }
}

pub fn product(radices: &[u64]) -> u64 {
    radices.iter().product()
}

/// The repository under test (the harness's path dependencies point at it): /repo unless VERIF_REPO is set
pub fn repo_root() -> String {
    std::env::var("VERIF_REPO").unwrap_or_else(|_| "/repo".to_string())
}

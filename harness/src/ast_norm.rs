//! Normalisation of rssl syntax trees for comparison "up to source locations":
//!  * `strip(debug_string)` removes every location from a `{:?}` rendering;
//!  * `Norm` walks a tree and resolves the parser's deliberate ambiguity nodes (AmbiguousParseBranch,
//!    ExpressionOrType::Either, AmbiguousDeclarationOrExpression) against a type-name environment, using the same
//!    rule as the type checker: first branch whose expected type names are all types, else the last branch.

use rssl::ast::*;

/// Render with Debug and delete all location information
pub fn dbg<T: std::fmt::Debug>(x: &T) -> String {
    strip(&format!("{:?}", x))
}

pub fn strip(s: &str) -> String {
    // remove " @ <digits>" and normalise "SourceLocation(<digits>)"
    let b = s.as_bytes();
    let mut out = String::with_capacity(s.len());
    let mut i = 0;
    while i < b.len() {
        if b[i] == b' ' && i + 3 < b.len() && b[i + 1] == b'@' && b[i + 2] == b' ' && b[i + 3].is_ascii_digit() {
            let mut j = i + 3;
            while j < b.len() && b[j].is_ascii_digit() {
                j += 1;
            }
            i = j;
            continue;
        }
        if b[i..].starts_with(b"SourceLocation(") {
            let mut j = i + "SourceLocation(".len();
            while j < b.len() && b[j].is_ascii_digit() {
                j += 1;
            }
            if j < b.len() && b[j] == b')' {
                out.push_str("SourceLocation(_)");
                i = j + 1;
                continue;
            }
        }
        // push the (possibly multi-byte) char
        let ch_len = utf8_len(b[i]);
        out.push_str(&s[i..i + ch_len]);
        i += ch_len;
    }
    out
}

fn utf8_len(b: u8) -> usize {
    if b < 0x80 {
        1
    } else if b >> 5 == 0b110 {
        2
    } else if b >> 4 == 0b1110 {
        3
    } else {
        4
    }
}

pub struct Norm<'a> {
    pub is_type: &'a dyn Fn(&ScopedIdentifier) -> bool,
    pub resolved: usize,
    /// also overwrite every location inside expressions and types with UNKNOWN (enables `==` on expressions)
    pub strip: bool,
    /// number of floating point literal nodes visited
    pub float_literals: usize,
}

impl<'a> Norm<'a> {
    pub fn new(is_type: &'a dyn Fn(&ScopedIdentifier) -> bool) -> Self {
        Norm { is_type, resolved: 0, strip: false, float_literals: 0 }
    }

    pub fn module(&mut self, m: &mut Module) {
        for d in &mut m.root_definitions {
            self.root(d);
        }
    }

    pub fn root(&mut self, d: &mut RootDefinition) {
        match d {
            RootDefinition::Struct(s) => {
                for t in &mut s.base_types {
                    self.ty(t);
                }
                self.template_params(&mut s.template_params);
                for m in &mut s.members {
                    match m {
                        StructEntry::Variable(v) => {
                            self.ty(&mut v.ty);
                            for d in &mut v.defs {
                                self.init_declarator(d);
                            }
                            self.attrs(&mut v.attributes);
                        }
                        StructEntry::Method(f) => self.function(f),
                    }
                }
            }
            RootDefinition::Enum(e) => {
                for v in &mut e.values {
                    if let Some(x) = &mut v.value {
                        self.lexpr(x);
                    }
                }
            }
            RootDefinition::Typedef(t) => {
                self.ty(&mut t.source);
                self.declarator(&mut t.declarator);
            }
            RootDefinition::ConstantBuffer(cb) => {
                for m in &mut cb.members {
                    self.ty(&mut m.ty);
                    for d in &mut m.defs {
                        self.init_declarator(d);
                    }
                }
                self.attrs(&mut cb.attributes);
            }
            RootDefinition::GlobalVariable(g) => {
                self.ty(&mut g.global_type);
                for d in &mut g.defs {
                    self.init_declarator(d);
                }
                self.attrs(&mut g.attributes);
            }
            RootDefinition::Function(f) => self.function(f),
            RootDefinition::Namespace(_, defs) => {
                for d in defs {
                    self.root(d);
                }
            }
            RootDefinition::Pipeline(_) => {}
        }
    }

    fn template_params(&mut self, t: &mut TemplateParamList) {
        for p in &mut t.0 {
            match p {
                TemplateParam::Type(tp) => {
                    if let Some(d) = &mut tp.default {
                        self.ty(d);
                    }
                }
                TemplateParam::Value(vp) => {
                    self.ty(&mut vp.value_type);
                    if let Some(d) = &mut vp.default {
                        self.lexpr(d);
                    }
                }
            }
        }
    }

    pub fn function(&mut self, f: &mut FunctionDefinition) {
        self.ty(&mut f.returntype.return_type);
        self.template_params(&mut f.template_params);
        for p in &mut f.params {
            self.ty(&mut p.param_type);
            self.declarator(&mut p.declarator);
            if let Some(e) = &mut p.default_expr {
                self.expr(e);
            }
        }
        if let Some(body) = &mut f.body {
            for s in body {
                self.stmt(s);
            }
        }
        self.attrs(&mut f.attributes);
    }

    fn attrs(&mut self, a: &mut [Attribute]) {
        for at in a {
            if self.strip {
                for n in &mut at.name {
                    n.location = rssl::text::SourceLocation::UNKNOWN;
                }
            }
            for e in &mut at.arguments {
                self.lexpr(e);
            }
        }
    }

    pub fn lexpr(&mut self, e: &mut rssl::text::Located<Expression>) {
        if self.strip {
            e.location = rssl::text::SourceLocation::UNKNOWN;
        }
        self.expr(&mut e.node);
    }

    fn sid(&mut self, id: &mut ScopedIdentifier) {
        if self.strip {
            for i in &mut id.identifiers {
                i.location = rssl::text::SourceLocation::UNKNOWN;
            }
        }
    }

    pub fn ty(&mut self, t: &mut Type) {
        if self.strip {
            t.location = rssl::text::SourceLocation::UNKNOWN;
            for m in &mut t.modifiers.modifiers {
                m.location = rssl::text::SourceLocation::UNKNOWN;
            }
        }
        self.sid(&mut t.layout.0);
        let args = std::mem::take(&mut t.layout.1);
        let mut v = args.into_vec();
        for a in &mut v {
            self.eot(a);
        }
        t.layout.1 = v.into_boxed_slice();
    }

    pub fn type_id(&mut self, t: &mut TypeId) {
        self.ty(&mut t.base);
        self.declarator(&mut t.abstract_declarator);
    }

    fn eot(&mut self, a: &mut ExpressionOrType) {
        match a {
            ExpressionOrType::Expression(e) => self.lexpr(e),
            ExpressionOrType::Type(t) => self.type_id(t),
            ExpressionOrType::Either(e, t) => {
                let pick_type = (self.is_type)(&t.base.layout.0);
                self.resolved += 1;
                let new = if pick_type {
                    let mut t = t.clone();
                    self.type_id(&mut t);
                    ExpressionOrType::Type(t)
                } else {
                    let mut e = e.clone();
                    self.lexpr(&mut e);
                    ExpressionOrType::Expression(e)
                };
                *a = new;
            }
        }
    }

    pub fn declarator(&mut self, d: &mut Declarator) {
        match d {
            Declarator::Empty => {}
            Declarator::Identifier(id, attrs) => {
                self.sid(id);
                self.attrs(attrs)
            }
            Declarator::Pointer(p) => {
                if self.strip {
                    for m in &mut p.qualifiers.modifiers {
                        m.location = rssl::text::SourceLocation::UNKNOWN;
                    }
                }
                self.attrs(&mut p.attributes);
                self.declarator(&mut p.inner);
            }
            Declarator::Reference(r) => {
                self.attrs(&mut r.attributes);
                self.declarator(&mut r.inner);
            }
            Declarator::Array(a) => {
                self.attrs(&mut a.attributes);
                if let Some(e) = &mut a.array_size {
                    self.lexpr(e);
                }
                self.declarator(&mut a.inner);
            }
        }
    }

    fn init_declarator(&mut self, d: &mut InitDeclarator) {
        self.declarator(&mut d.declarator);
        if let Some(i) = &mut d.init {
            self.init(i);
        }
    }

    fn init(&mut self, i: &mut Initializer) {
        match i {
            Initializer::Expression(e) => self.lexpr(e),
            Initializer::Aggregate(v) => {
                for x in v {
                    self.init(x);
                }
            }
            Initializer::StaticSampler(_) => {}
        }
    }

    fn vardef(&mut self, v: &mut VarDef) {
        self.ty(&mut v.local_type);
        for d in &mut v.defs {
            self.init_declarator(d);
        }
    }

    pub fn stmt(&mut self, s: &mut Statement) {
        self.attrs(&mut s.attributes);
        let replace = match &mut s.kind {
            StatementKind::Empty | StatementKind::Break | StatementKind::Continue | StatementKind::Discard => None,
            StatementKind::Expression(e) => {
                self.expr(e);
                None
            }
            StatementKind::Var(v) => {
                self.vardef(v);
                None
            }
            StatementKind::AmbiguousDeclarationOrExpression(v, e) => {
                self.resolved += 1;
                if (self.is_type)(&v.local_type.layout.0) {
                    let mut v = v.clone();
                    self.vardef(&mut v);
                    Some(StatementKind::Var(v))
                } else {
                    let mut e = e.clone();
                    self.expr(&mut e);
                    Some(StatementKind::Expression(e))
                }
            }
            StatementKind::Block(b) => {
                for x in b {
                    self.stmt(x);
                }
                None
            }
            StatementKind::If(c, t) => {
                self.lexpr(c);
                self.stmt(t);
                None
            }
            StatementKind::IfElse(c, t, e) => {
                self.lexpr(c);
                self.stmt(t);
                self.stmt(e);
                None
            }
            StatementKind::For(i, c, n, b) => {
                match i {
                    InitStatement::Empty => {}
                    InitStatement::Expression(e) => self.lexpr(e),
                    InitStatement::Declaration(v) => self.vardef(v),
                }
                if let Some(c) = c {
                    self.lexpr(c);
                }
                if let Some(n) = n {
                    self.lexpr(n);
                }
                self.stmt(b);
                None
            }
            StatementKind::While(c, b) => {
                self.lexpr(c);
                self.stmt(b);
                None
            }
            StatementKind::DoWhile(b, c) => {
                self.stmt(b);
                self.lexpr(c);
                None
            }
            StatementKind::Switch(c, b) => {
                self.lexpr(c);
                self.stmt(b);
                None
            }
            StatementKind::Return(e) => {
                if let Some(e) = e {
                    self.lexpr(e);
                }
                None
            }
            StatementKind::CaseLabel(v, n) => {
                self.lexpr(v);
                self.stmt(n);
                None
            }
            StatementKind::DefaultLabel(n) => {
                self.stmt(n);
                None
            }
        };
        if let Some(k) = replace {
            s.kind = k;
        }
    }

    pub fn expr(&mut self, e: &mut Expression) {
        let replace = match e {
            Expression::Literal(l) => {
                if matches!(l, Literal::FloatUntyped(_) | Literal::Float16(_) | Literal::Float32(_) | Literal::Float64(_)) {
                    self.float_literals += 1;
                }
                None
            }
            Expression::Identifier(id) => {
                self.sid(id);
                None
            }
            Expression::UnaryOperation(_, a) => {
                self.lexpr(a);
                None
            }
            Expression::BinaryOperation(_, a, b) => {
                self.lexpr(a);
                self.lexpr(b);
                None
            }
            Expression::TernaryConditional(a, b, c) => {
                self.lexpr(a);
                self.lexpr(b);
                self.lexpr(c);
                None
            }
            Expression::ArraySubscript(a, b) => {
                self.lexpr(a);
                self.lexpr(b);
                None
            }
            Expression::Member(a, name) => {
                self.lexpr(a);
                self.sid(name);
                None
            }
            Expression::Call(f, targs, args) => {
                self.lexpr(f);
                for t in targs {
                    self.eot(t);
                }
                for a in args {
                    self.lexpr(a);
                }
                None
            }
            Expression::Cast(t, a) => {
                self.type_id(t);
                self.lexpr(a);
                None
            }
            Expression::BracedInit(t, inits) => {
                self.type_id(t);
                for i in inits {
                    self.init(i);
                }
                None
            }
            Expression::SizeOf(x) => {
                self.eot(x);
                None
            }
            Expression::AmbiguousParseBranch(branches) => {
                self.resolved += 1;
                let mut chosen = None;
                let n = branches.len();
                for (i, b) in branches.iter().enumerate() {
                    if i + 1 == n || b.expected_type_names.iter().all(|t| (self.is_type)(t)) {
                        chosen = Some(b.expr.node.clone());
                        break;
                    }
                }
                let mut c = chosen.expect("non-empty ambiguous branch");
                self.expr(&mut c);
                Some(c)
            }
        };
        if let Some(r) = replace {
            *e = r;
        }
    }
}

/// Names that are built-in type names in rssl/HLSL (scalars, vectors, matrices, objects).
pub fn is_builtin_type_name(name: &str) -> bool {
    const SCALARS: &[&str] = &[
        "bool", "int", "uint", "dword", "half", "float", "double", "float16_t", "float32_t", "float64_t", "int16_t", "int32_t", "int64_t", "uint16_t", "uint32_t", "uint64_t", "min16float", "min10float", "min16int", "min12int", "min16uint",
    ];
    if name == "void" {
        return true;
    }
    for s in SCALARS {
        if let Some(rest) = name.strip_prefix(s) {
            let rb = rest.as_bytes();
            let ok = match rb.len() {
                0 => true,
                1 => (b'1'..=b'4').contains(&rb[0]),
                3 => (b'1'..=b'4').contains(&rb[0]) && rb[1] == b'x' && (b'1'..=b'4').contains(&rb[2]),
                _ => false,
            };
            if ok {
                return true;
            }
        }
    }
    const OBJECTS: &[&str] = &[
        "vector", "matrix", "Buffer", "RWBuffer", "ByteAddressBuffer", "RWByteAddressBuffer", "BufferAddress", "RWBufferAddress", "StructuredBuffer", "RWStructuredBuffer", "Texture2D", "Texture2DArray", "RWTexture2D", "RWTexture2DArray", "TextureCube",
        "TextureCubeArray", "Texture3D", "RWTexture3D", "ConstantBuffer", "SamplerState", "SamplerComparisonState", "RaytracingAccelerationStructure", "RayQuery", "RayDesc", "TriangleStream", "vertices", "indices", "primitives",
    ];
    OBJECTS.contains(&name)
}

//! An independent type checker for the `ir::Module` produced by `rssl::typer::type_check` (property C03, positive side).
//!
//! Types are recomputed bottom-up with rules written down here from the meaning of each IR node; the code under test
//! (`Expression::get_type` / `IntrinsicOp::get_return_type`) is only called for a cross-check ("does not panic and
//! agrees on the shape of the type"), never to derive what an operation requires.
//!
//! What is demanded (exactly the obligations the property lists):
//!  * every id is in range and defined (type, struct, enum value, function, global, local variable, cbuffer member,
//!    template instantiation parent);
//!  * `IntrinsicOp` operands: both sides the identical numeric (or enum) type for arithmetic / compare / bitwise, integer
//!    types for bitwise and shifts, bool for `&& || !`, first operand a non-const l-value for assignments and `++`/`--`,
//!    right side of an assignment of the left type (qualifiers ignored), compound assignments act on numeric types;
//!  * `Call` arguments have the callee's parameter types, out/inout arguments are non-const l-values, argument count is
//!    between the non-defaulted and the declared number of parameters;
//!  * `Constructor` slot arities sum to the element count of the target, each slot has the target scalar type and the
//!    arity it states;
//!  * `Return` expressions have the function's return type; initialisers (incl. aggregates, default arguments) have the
//!    variable's type; `Cast` source -> target is a conversion the language defines;
//!  * the condition of `?:` is a bool scalar and both arms have one type.
//! Statement conditions (`if`, `for`, `while`, `do`, `switch`) are only required to have a type.
//! "Same type" is always decided on the unqualified type (const/volatile/matrix-order/norm qualifiers stripped) and
//! regardless of value category, because qualifiers of an r-value operand carry no meaning; identity of qualified ids is
//! what `get_type` asserts and is covered by the cross-check (a panic there is reported).

use crate::engine::guard;
use rssl::ir::*;
use std::collections::HashSet;

#[derive(Clone, Copy, PartialEq, Eq, Debug, Hash)]
pub enum Dim {
    S,
    V(u32),
    M(u32, u32),
}

impl Dim {
    pub fn count(self) -> u32 {
        match self {
            Dim::S => 1,
            Dim::V(x) => x,
            Dim::M(x, y) => x * y,
        }
    }
}

/// Shape of an unqualified type
#[derive(Clone, PartialEq, Eq, Debug, Hash)]
pub enum Base {
    Void,
    Num(ScalarType, Dim),
    Struct(u32),
    Enum(u32),
    Object(ObjectType),
    Array(Box<Base>, Option<u64>),
    TParam(u32),
    STemplate(u32),
}

#[derive(Clone, PartialEq, Eq, Debug)]
pub struct Ty {
    pub base: Base,
    pub konst: bool,
    pub lv: bool,
}

impl Ty {
    fn rv(base: Base) -> Ty {
        Ty { base, konst: false, lv: false }
    }
}

pub fn scalar_name(s: ScalarType) -> &'static str {
    match s {
        ScalarType::Bool => "bool",
        ScalarType::IntLiteral => "litint",
        ScalarType::Int32 => "int",
        ScalarType::UInt32 => "uint",
        ScalarType::FloatLiteral => "litfloat",
        ScalarType::Float16 => "half",
        ScalarType::Float32 => "float",
        ScalarType::Float64 => "double",
    }
}

pub fn base_name(b: &Base) -> String {
    match b {
        Base::Void => "void".into(),
        Base::Num(s, Dim::S) => scalar_name(*s).into(),
        Base::Num(s, Dim::V(x)) => format!("{}{}", scalar_name(*s), x),
        Base::Num(s, Dim::M(x, y)) => format!("{}{}x{}", scalar_name(*s), x, y),
        Base::Struct(i) => format!("struct#{}", i),
        Base::Enum(i) => format!("enum#{}", i),
        Base::Object(o) => format!("{:?}", o).split('<').next().unwrap_or("object").to_string(),
        Base::Array(e, Some(n)) => format!("{}[{}]", base_name(e), n),
        Base::Array(e, None) => format!("{}[]", base_name(e)),
        Base::TParam(i) => format!("typename#{}", i),
        Base::STemplate(i) => format!("structtemplate#{}", i),
    }
}

/// coarse kind of a type for signatures (never contains ids or sizes)
pub fn base_kind(b: &Base) -> &'static str {
    match b {
        Base::Void => "void",
        Base::Num(_, Dim::S) => "scalar",
        Base::Num(_, Dim::V(_)) => "vector",
        Base::Num(_, Dim::M(..)) => "matrix",
        Base::Struct(_) => "struct",
        Base::Enum(_) => "enum",
        Base::Object(_) => "object",
        Base::Array(..) => "array",
        Base::TParam(_) => "template-param",
        Base::STemplate(_) => "struct-template",
    }
}

/// class of an r-value out argument from its rendered shape `Cast(<inner>:<base>:<L|R>):<base>:<L|R>`
fn out_arg_cast_class(shape: &str) -> &'static str {
    let Some(rest) = shape.strip_prefix("Cast(") else { return "not-a-cast" };
    let Some(pos) = rest.rfind("):") else { return "not-a-cast" };
    let inner = &rest[..pos];
    let outer = &rest[pos + 2..];
    let base_of = |s: &str| -> String {
        let mut parts: Vec<&str> = s.rsplitn(3, ':').collect();
        // parts = [L|R, base, rest...]
        let b = if parts.len() >= 2 { parts.remove(1) } else { s };
        b.trim_start_matches("const ").trim_end_matches('1').to_string()
    };
    if base_of(inner) == base_of(&format!("x:{}", outer)) { "cast-same-element" } else { "cast-converts-element" }
}

fn ty_name(t: &Ty) -> String {
    format!("{}{}:{}", if t.konst { "const " } else { "" }, base_name(&t.base), if t.lv { "L" } else { "R" })
}

#[derive(Clone, Debug)]
pub struct Finding {
    pub sig: String,
    pub detail: String,
}

/// Result for one owner (a function, a global, or the registries)
#[derive(Clone, Debug, Default)]
pub struct Item {
    pub owner: String,
    pub findings: Vec<Finding>,
    /// rendering of every root expression with the computed type of every node (used to count distinct elaborations)
    pub shape: String,
    pub nodes: u64,
    /// names of the IR node kinds / intrinsic ops / id kinds seen (coverage)
    pub seen: Vec<&'static str>,
}

/// Validate a type id and return its unqualified shape and qualifiers
pub fn resolve(m: &Module, id: TypeId) -> Result<(Base, TypeModifier), String> {
    resolve_depth(m, id, 0)
}

fn resolve_depth(m: &Module, id: TypeId, depth: u32) -> Result<(Base, TypeModifier), String> {
    if depth > 16 {
        return Err("type nesting deeper than 16".into());
    }
    let count = m.type_registry.get_type_count();
    if id.0 >= count {
        return Err(format!("type id {} out of range ({} types)", id.0, count));
    }
    let layer = m.type_registry.get_type_layer(id);
    let (inner_id, md) = match layer {
        TypeLayer::Modifier(md, inner) => {
            if inner.0 >= count {
                return Err(format!("type id {} (under a modifier) out of range", inner.0));
            }
            if matches!(m.type_registry.get_type_layer(inner), TypeLayer::Modifier(..)) {
                return Err("modifier layer directly under a modifier layer".into());
            }
            (inner, md)
        }
        _ => (id, TypeModifier::default()),
    };
    let scalar_of = |t: TypeId| -> Result<Option<ScalarType>, String> {
        if t.0 >= count {
            return Err(format!("element type id {} out of range", t.0));
        }
        match m.type_registry.get_type_layer(t) {
            TypeLayer::Scalar(s) => Ok(Some(s)),
            TypeLayer::TemplateParam(_) => Ok(None),
            other => Err(format!("vector/matrix element type is {:?}", other)),
        }
    };
    let base = match m.type_registry.get_type_layer(inner_id) {
        TypeLayer::Void => Base::Void,
        TypeLayer::Scalar(s) => Base::Num(s, Dim::S),
        TypeLayer::Vector(t, x) => {
            if !(1..=4).contains(&x) {
                return Err(format!("vector width {}", x));
            }
            match scalar_of(t)? {
                Some(s) => Base::Num(s, Dim::V(x)),
                None => Base::TParam(u32::MAX),
            }
        }
        TypeLayer::Matrix(t, x, y) => {
            if !(1..=4).contains(&x) || !(1..=4).contains(&y) {
                return Err(format!("matrix dimensions {}x{}", x, y));
            }
            match scalar_of(t)? {
                Some(s) => Base::Num(s, Dim::M(x, y)),
                None => Base::TParam(u32::MAX),
            }
        }
        TypeLayer::Struct(sid) => {
            if sid.0 as usize >= m.struct_registry.len() {
                return Err(format!("struct id {} out of range", sid.0));
            }
            Base::Struct(sid.0)
        }
        TypeLayer::StructTemplate(sid) => {
            if sid.0 as usize >= m.struct_template_registry.len() {
                return Err(format!("struct template id {} out of range", sid.0));
            }
            Base::STemplate(sid.0)
        }
        TypeLayer::Enum(eid) => {
            if eid.0 >= m.enum_registry.get_enum_count() {
                return Err(format!("enum id {} out of range", eid.0));
            }
            Base::Enum(eid.0)
        }
        TypeLayer::Object(o) => Base::Object(o),
        TypeLayer::Array(inner, len) => {
            let (b, _) = resolve_depth(m, inner, depth + 1)?;
            Base::Array(Box::new(b), len)
        }
        TypeLayer::TemplateParam(t) => Base::TParam(t.0),
        TypeLayer::Modifier(..) => return Err("modifier under modifier".into()),
    };
    Ok((base, md))
}

/// const-ness of a declared type: arrays carry the qualifier on their element type
fn declared_const(m: &Module, id: TypeId) -> bool {
    let mut cur = id;
    for _ in 0..16 {
        if cur.0 >= m.type_registry.get_type_count() {
            return false;
        }
        match m.type_registry.get_type_layer(cur) {
            TypeLayer::Array(inner, _) => cur = inner,
            TypeLayer::Modifier(md, _) => return md.is_const,
            _ => return false,
        }
    }
    false
}

fn is_int_scalar(s: ScalarType) -> bool {
    matches!(s, ScalarType::IntLiteral | ScalarType::Int32 | ScalarType::UInt32)
}

fn op_name(op: &IntrinsicOp) -> &'static str {
    use IntrinsicOp::*;
    match op {
        PrefixIncrement => "PrefixIncrement",
        PrefixDecrement => "PrefixDecrement",
        PostfixIncrement => "PostfixIncrement",
        PostfixDecrement => "PostfixDecrement",
        Plus => "Plus",
        Minus => "Minus",
        LogicalNot => "LogicalNot",
        BitwiseNot => "BitwiseNot",
        Add => "Add",
        Subtract => "Subtract",
        Multiply => "Multiply",
        Divide => "Divide",
        Modulus => "Modulus",
        LeftShift => "LeftShift",
        RightShift => "RightShift",
        BitwiseAnd => "BitwiseAnd",
        BitwiseOr => "BitwiseOr",
        BitwiseXor => "BitwiseXor",
        BooleanAnd => "BooleanAnd",
        BooleanOr => "BooleanOr",
        LessThan => "LessThan",
        LessEqual => "LessEqual",
        GreaterThan => "GreaterThan",
        GreaterEqual => "GreaterEqual",
        Equality => "Equality",
        Inequality => "Inequality",
        Assignment => "Assignment",
        SumAssignment => "SumAssignment",
        DifferenceAssignment => "DifferenceAssignment",
        ProductAssignment => "ProductAssignment",
        QuotientAssignment => "QuotientAssignment",
        RemainderAssignment => "RemainderAssignment",
        LeftShiftAssignment => "LeftShiftAssignment",
        RightShiftAssignment => "RightShiftAssignment",
        BitwiseAndAssignment => "BitwiseAndAssignment",
        BitwiseOrAssignment => "BitwiseOrAssignment",
        BitwiseXorAssignment => "BitwiseXorAssignment",
        MakeSigned => "MakeSigned",
        MakeSignedPushZero => "MakeSignedPushZero",
        MeshOutputSetVertex => "MeshOutputSetVertex",
        MeshOutputSetPrimitive => "MeshOutputSetPrimitive",
        MeshOutputSetIndices => "MeshOutputSetIndices",
    }
}

fn expr_kind(e: &Expression) -> &'static str {
    match e {
        Expression::Literal(_) => "Literal",
        Expression::Variable(_) => "Variable",
        Expression::MemberVariable(..) => "MemberVariable",
        Expression::Global(_) => "Global",
        Expression::ConstantVariable(_) => "ConstantVariable",
        Expression::EnumValue(_) => "EnumValue",
        Expression::TernaryConditional(..) => "TernaryConditional",
        Expression::Sequence(_) => "Sequence",
        Expression::Swizzle(..) => "Swizzle",
        Expression::MatrixSwizzle(..) => "MatrixSwizzle",
        Expression::ArraySubscript(..) => "ArraySubscript",
        Expression::StructMember(..) => "StructMember",
        Expression::ObjectMember(..) => "ObjectMember",
        Expression::Call(..) => "Call",
        Expression::Constructor(..) => "Constructor",
        Expression::Cast(..) => "Cast",
        Expression::SizeOf(_) => "SizeOf",
        Expression::IntrinsicOp(..) => "IntrinsicOp",
    }
}

/// strip everything up to and including the repository root from a source path
pub fn norm_path(p: &str) -> String {
    match p.rfind("/repo/") {
        Some(i) => p[i + 6..].to_string(),
        None => p.to_string(),
    }
}

/// `panic|<repo-relative file>|<message>` with digits collapsed, same form as `PanicInfo::signature`
pub fn panic_signature(p: &crate::engine::PanicInfo) -> String {
    let q = crate::engine::PanicInfo { file: format!("/repo/{}", norm_path(&p.file)), message: p.message.clone() };
    q.signature()
}

fn short(e: &Expression) -> String {
    let s = format!("{:?}", e);
    if s.len() > 300 { format!("{}…", &s[..s.char_indices().take_while(|(i, _)| *i < 300).last().map(|(i, c)| i + c.len_utf8()).unwrap_or(0)]) } else { s }
}

struct Cx<'a> {
    m: &'a Module,
    findings: Vec<Finding>,
    sigs: HashSet<String>,
    /// variables declared by the function being walked (parameters and every VarDef), None outside functions
    declared: Option<HashSet<u32>>,
    /// struct that owns the function being walked
    owner_struct: Option<u32>,
    nodes: u64,
    seen: Vec<&'static str>,
    total_enum_values: u32,
}

impl<'a> Cx<'a> {
    fn new(m: &'a Module) -> Cx<'a> {
        let mut total = 0u32;
        for i in 0..m.enum_registry.get_enum_count() {
            total += m.enum_registry.get_values(EnumId(i)).len() as u32;
        }
        Cx { m, findings: Vec::new(), sigs: HashSet::new(), declared: None, owner_struct: None, nodes: 0, seen: Vec::new(), total_enum_values: total }
    }

    fn report(&mut self, sig: String, detail: String) {
        if self.sigs.insert(sig.clone()) {
            self.findings.push(Finding { sig, detail });
        }
    }

    fn see(&mut self, what: &'static str) {
        if !self.seen.contains(&what) {
            self.seen.push(what);
        }
    }

    fn ty_of_id(&mut self, id: TypeId, what: &str) -> Option<(Base, TypeModifier)> {
        match resolve(self.m, id) {
            Ok(r) => Some(r),
            Err(why) => {
                self.report("ir|undefined-id|type".into(), format!("{}: {}", what, why));
                None
            }
        }
    }

    fn declared_ty(&mut self, id: TypeId, what: &str, lv: bool) -> Option<Ty> {
        let (base, _) = self.ty_of_id(id, what)?;
        Some(Ty { base, konst: declared_const(self.m, id), lv })
    }

    /// type an expression; None when no type could be computed (a finding has been recorded)
    fn expr(&mut self, e: &Expression) -> Option<(Ty, String)> {
        self.nodes += 1;
        self.see(expr_kind(e));
        let r = self.expr_inner(e);
        // cross-check against the code under test: must not panic, must agree on the unqualified shape
        let m = self.m;
        match guard(|| e.get_type(m)) {
            Err(p) => {
                let sig = format!("ir|get-type-panic|{}", panic_signature(&p));
                self.report(sig, format!("Expression::get_type panicked ({}) on {}", p.message, short(e)));
            }
            Ok(Err(_)) => {
                self.report(format!("ir|get-type-error|{}", expr_kind(e)), format!("Expression::get_type returned InvalidModule on {}", short(e)));
            }
            Ok(Ok(ExpressionType(tid, _))) => {
                if let Some((mine, _)) = &r {
                    match resolve(m, tid) {
                        Ok((theirs, _)) => {
                            if theirs != mine.base && !matches!(e, Expression::ObjectMember(..)) {
                                self.report(
                                    format!("ir|type-disagree|{}", expr_kind(e)),
                                    format!("independent typing gives {} but get_type gives {} for {}", base_name(&mine.base), base_name(&theirs), short(e)),
                                );
                            }
                        }
                        Err(why) => self.report("ir|undefined-id|type".into(), format!("get_type returned an invalid type id: {}", why)),
                    }
                }
            }
        }
        r
    }

    fn expr_inner(&mut self, e: &Expression) -> Option<(Ty, String)> {
        let m = self.m;
        match e {
            Expression::Literal(c) => {
                let s = match c {
                    Constant::Bool(_) => ScalarType::Bool,
                    Constant::IntLiteral(_) => ScalarType::IntLiteral,
                    Constant::Int32(_) => ScalarType::Int32,
                    Constant::UInt32(_) => ScalarType::UInt32,
                    Constant::FloatLiteral(_) => ScalarType::FloatLiteral,
                    Constant::Float16(_) => ScalarType::Float16,
                    Constant::Float32(_) => ScalarType::Float32,
                    Constant::Float64(_) => ScalarType::Float64,
                    Constant::Int64(_) | Constant::UInt64(_) | Constant::String(_) | Constant::Enum(..) => {
                        let kind = match c {
                            Constant::Int64(_) => "Int64",
                            Constant::UInt64(_) => "UInt64",
                            Constant::String(_) => "String",
                            _ => "Enum",
                        };
                        self.report(format!("ir|untyped-literal|{}", kind), format!("literal {:?} has no type in the IR type system", c));
                        return None;
                    }
                };
                let t = Ty::rv(Base::Num(s, Dim::S));
                let sh = format!("Lit:{}", ty_name(&t));
                Some((t, sh))
            }
            Expression::Variable(id) => {
                self.see("id:variable");
                if id.0 >= m.variable_registry.get_variable_count() {
                    self.report("ir|undefined-id|variable".into(), format!("local variable id {} out of range", id.0));
                    return None;
                }
                if let Some(d) = &self.declared {
                    if !d.contains(&id.0) {
                        self.report("ir|undefined-id|variable".into(), format!("local variable id {} is not declared by the function that uses it", id.0));
                    }
                }
                let tid = m.variable_registry.get_local_variable(*id).type_id;
                let t = self.declared_ty(tid, "local variable type", true)?;
                let sh = format!("Var:{}", ty_name(&t));
                Some((t, sh))
            }
            Expression::MemberVariable(sid, idx) => {
                self.see("id:member-variable");
                if sid.0 as usize >= m.struct_registry.len() {
                    self.report("ir|undefined-id|struct".into(), format!("struct id {} out of range", sid.0));
                    return None;
                }
                let def = &m.struct_registry[sid.0 as usize];
                if *idx as usize >= def.members.len() {
                    self.report("ir|undefined-id|struct-member".into(), format!("member index {} out of range for struct {}", idx, def.name.node));
                    return None;
                }
                if self.owner_struct.is_some() && self.owner_struct != Some(sid.0) {
                    self.report("ir|undefined-id|struct-member".into(), format!("implicit member access to struct {} from a method of another struct", def.name.node));
                }
                let t = self.declared_ty(def.members[*idx as usize].type_id, "struct member type", true)?;
                let sh = format!("MemberVar:{}", ty_name(&t));
                Some((t, sh))
            }
            Expression::Global(id) => {
                self.see("id:global");
                if id.0 as usize >= m.global_registry.len() {
                    self.report("ir|undefined-id|global".into(), format!("global id {} out of range", id.0));
                    return None;
                }
                let t = self.declared_ty(m.global_registry[id.0 as usize].type_id, "global type", true)?;
                let sh = format!("Global:{}", ty_name(&t));
                Some((t, sh))
            }
            Expression::ConstantVariable(id) => {
                self.see("id:cbuffer-member");
                if id.0.0 as usize >= m.cbuffer_registry.len() {
                    self.report("ir|undefined-id|cbuffer".into(), format!("cbuffer id {} out of range", id.0.0));
                    return None;
                }
                let cb = &m.cbuffer_registry[id.0.0 as usize];
                if id.1 as usize >= cb.members.len() {
                    self.report("ir|undefined-id|cbuffer-member".into(), format!("cbuffer member {} out of range for {}", id.1, cb.name.node));
                    return None;
                }
                let t = self.declared_ty(cb.members[id.1 as usize].type_id, "cbuffer member type", true)?;
                let sh = format!("CBuf:{}", ty_name(&t));
                Some((t, sh))
            }
            Expression::EnumValue(id) => {
                self.see("id:enum-value");
                if id.0 >= self.total_enum_values {
                    self.report("ir|undefined-id|enum-value".into(), format!("enum value id {} out of range", id.0));
                    return None;
                }
                let v = m.enum_registry.get_enum_value(*id);
                if v.enum_id.0 >= m.enum_registry.get_enum_count() {
                    self.report("ir|undefined-id|enum".into(), format!("enum id {} out of range", v.enum_id.0));
                    return None;
                }
                let t = Ty::rv(Base::Enum(v.enum_id.0));
                let sh = format!("EnumValue:{}", ty_name(&t));
                Some((t, sh))
            }
            Expression::TernaryConditional(c, a, b) => {
                let tc = self.expr(c);
                let ta = self.expr(a);
                let tb = self.expr(b);
                let (tc, sc) = tc?;
                let (ta, sa) = ta?;
                let (tb, sb) = tb?;
                if tc.base != Base::Num(ScalarType::Bool, Dim::S) {
                    self.report("ir|operand-type|TernaryConditional|condition".into(), format!("condition of ?: has type {} (bool required): {}", ty_name(&tc), short(e)));
                }
                if ta.base != tb.base {
                    self.report("ir|operand-type|TernaryConditional|arms".into(), format!("arms of ?: have types {} and {}: {}", ty_name(&ta), ty_name(&tb), short(e)));
                }
                let t = Ty::rv(ta.base.clone());
                let sh = format!("Ternary({}, {}, {}):{}", sc, sa, sb, ty_name(&t));
                Some((t, sh))
            }
            Expression::Sequence(list) => {
                if list.is_empty() {
                    self.report("ir|operand-type|Sequence|empty".into(), "empty Sequence".into());
                    return None;
                }
                let mut last = None;
                let mut shs = Vec::new();
                for x in list {
                    last = self.expr(x);
                    shs.push(last.as_ref().map(|l| l.1.clone()).unwrap_or_else(|| "?".into()));
                }
                let (t, _) = last?;
                let sh = format!("Seq({}):{}", shs.join(", "), ty_name(&t));
                Some((t, sh))
            }
            Expression::Swizzle(v, slots) => {
                let (tv, sv) = self.expr(v)?;
                let (s, n) = match tv.base {
                    Base::Num(s, Dim::S) => (s, 1),
                    Base::Num(s, Dim::V(n)) => (s, n),
                    _ => {
                        self.report("ir|operand-type|Swizzle|object".into(), format!("swizzle of a value of type {}: {}", ty_name(&tv), short(e)));
                        return None;
                    }
                };
                if slots.is_empty() || slots.len() > 4 {
                    self.report("ir|operand-type|Swizzle|slots".into(), format!("swizzle with {} slots", slots.len()));
                    return None;
                }
                let mut repeated = false;
                for (i, sl) in slots.iter().enumerate() {
                    let k = match sl {
                        SwizzleSlot::X => 0,
                        SwizzleSlot::Y => 1,
                        SwizzleSlot::Z => 2,
                        SwizzleSlot::W => 3,
                    };
                    if k >= n {
                        self.report("ir|operand-type|Swizzle|slots".into(), format!("swizzle component {} of a {}-component value: {}", k, n, short(e)));
                    }
                    if slots[..i].contains(sl) {
                        repeated = true;
                    }
                }
                let d = if slots.len() == 1 { Dim::S } else { Dim::V(slots.len() as u32) };
                let t = Ty { base: Base::Num(s, d), konst: tv.konst, lv: tv.lv && !repeated };
                let sh = format!("Swizzle{}({}):{}", slots.len(), sv, ty_name(&t));
                Some((t, sh))
            }
            Expression::MatrixSwizzle(v, slots) => {
                let (tv, sv) = self.expr(v)?;
                let (s, x, y) = match tv.base {
                    Base::Num(s, Dim::M(x, y)) => (s, x, y),
                    _ => {
                        self.report("ir|operand-type|MatrixSwizzle|object".into(), format!("matrix swizzle of a value of type {}", ty_name(&tv)));
                        return None;
                    }
                };
                if slots.is_empty() || slots.len() > 4 {
                    self.report("ir|operand-type|MatrixSwizzle|slots".into(), format!("matrix swizzle with {} slots", slots.len()));
                    return None;
                }
                let idx = |c: ComponentIndex| match c {
                    ComponentIndex::First => 0,
                    ComponentIndex::Second => 1,
                    ComponentIndex::Third => 2,
                    ComponentIndex::Forth => 3,
                };
                let mut repeated = false;
                for (i, sl) in slots.iter().enumerate() {
                    if idx(sl.0) >= x || idx(sl.1) >= y {
                        self.report("ir|operand-type|MatrixSwizzle|slots".into(), format!("matrix swizzle component out of range: {}", short(e)));
                    }
                    if slots[..i].contains(sl) {
                        repeated = true;
                    }
                }
                let d = if slots.len() == 1 { Dim::S } else { Dim::V(slots.len() as u32) };
                let t = Ty { base: Base::Num(s, d), konst: tv.konst, lv: tv.lv && !repeated };
                let sh = format!("MatrixSwizzle{}({}):{}", slots.len(), sv, ty_name(&t));
                Some((t, sh))
            }
            Expression::ArraySubscript(a, i) => {
                let ta = self.expr(a);
                let ti = self.expr(i);
                let (ta, sa) = ta?;
                let (ti, si) = ti?;
                let int_index = matches!(ti.base, Base::Num(s, Dim::S) if is_int_scalar(s));
                let t = match &ta.base {
                    Base::Array(elem, _) => {
                        if !int_index {
                            self.report("ir|operand-type|ArraySubscript|index".into(), format!("array index has type {}: {}", ty_name(&ti), short(e)));
                        }
                        // the element type keeps its own qualifier; recover it from the declared type
                        let mut konst = ta.konst;
                        if let Ok(ExpressionType(tid, _)) = guard(|| a.get_type(m)).unwrap_or(Err(EvaluateTypeError::InvalidModule)) {
                            konst = konst || declared_const(m, tid);
                        }
                        Ty { base: (**elem).clone(), konst, lv: ta.lv }
                    }
                    Base::Num(s, Dim::V(_)) => {
                        if !int_index {
                            self.report("ir|operand-type|ArraySubscript|index".into(), format!("vector index has type {}: {}", ty_name(&ti), short(e)));
                        }
                        Ty { base: Base::Num(*s, Dim::S), konst: ta.konst, lv: ta.lv }
                    }
                    Base::Num(s, Dim::M(_, y)) => {
                        if !int_index {
                            self.report("ir|operand-type|ArraySubscript|index".into(), format!("matrix index has type {}: {}", ty_name(&ti), short(e)));
                        }
                        Ty { base: Base::Num(*s, Dim::V(*y)), konst: ta.konst, lv: ta.lv }
                    }
                    Base::Object(o) => {
                        use ObjectType::*;
                        let (inner, writable) = match *o {
                            Buffer(t) | StructuredBuffer(t) | Texture2D(t) | Texture2DMipsSlice(t) | Texture2DArray(t) | Texture2DArrayMipsSlice(t) | Texture3D(t) | Texture3DMipsSlice(t) => (Some(t), false),
                            RWBuffer(t) | RWStructuredBuffer(t) | RWTexture2D(t) | RWTexture2DArray(t) | RWTexture3D(t) => (Some(t), true),
                            Texture2DMips(t) => return Some((Ty { base: Base::Object(Texture2DMipsSlice(t)), konst: false, lv: true }, format!("Subscript({}, {}):mips-slice", sa, si))),
                            Texture2DArrayMips(t) => return Some((Ty { base: Base::Object(Texture2DArrayMipsSlice(t)), konst: false, lv: true }, format!("Subscript({}, {}):mips-slice", sa, si))),
                            Texture3DMips(t) => return Some((Ty { base: Base::Object(Texture3DMipsSlice(t)), konst: false, lv: true }, format!("Subscript({}, {}):mips-slice", sa, si))),
                            _ => (None, false),
                        };
                        match inner {
                            Some(t) => {
                                let (b, _) = self.ty_of_id(t, "object element type")?;
                                Ty { base: b, konst: !writable || declared_const(m, t), lv: true }
                            }
                            None => {
                                self.report("ir|operand-type|ArraySubscript|object".into(), format!("subscript of a value of type {}: {}", ty_name(&ta), short(e)));
                                return None;
                            }
                        }
                    }
                    _ => {
                        self.report("ir|operand-type|ArraySubscript|object".into(), format!("subscript of a value of type {}: {}", ty_name(&ta), short(e)));
                        return None;
                    }
                };
                let sh = format!("Subscript({}, {}):{}", sa, si, ty_name(&t));
                Some((t, sh))
            }
            Expression::StructMember(o, sid, idx) => {
                self.see("id:struct-member");
                let to = self.expr(o);
                if sid.0 as usize >= m.struct_registry.len() {
                    self.report("ir|undefined-id|struct".into(), format!("struct id {} out of range", sid.0));
                    return None;
                }
                let def = &m.struct_registry[sid.0 as usize];
                if *idx as usize >= def.members.len() {
                    self.report("ir|undefined-id|struct-member".into(), format!("member index {} out of range for struct {}", idx, def.name.node));
                    return None;
                }
                let (to, so) = to?;
                let ok = match &to.base {
                    Base::Struct(s) => *s == sid.0,
                    Base::Object(ObjectType::ConstantBuffer(inner)) => matches!(resolve(m, *inner), Ok((Base::Struct(s), _)) if s == sid.0),
                    _ => false,
                };
                if !ok {
                    self.report("ir|operand-type|StructMember|object".into(), format!("member of struct {} taken from a value of type {}: {}", def.name.node, ty_name(&to), short(e)));
                }
                let mt = self.declared_ty(def.members[*idx as usize].type_id, "struct member type", to.lv)?;
                let t = Ty { base: mt.base, konst: mt.konst || to.konst, lv: to.lv };
                let sh = format!("Member({}):{}", so, ty_name(&t));
                Some((t, sh))
            }
            Expression::ObjectMember(o, name) => {
                let (_, so) = self.expr(o)?;
                // members of built-in objects (mips, RayDesc fields): the IR definition is the only source of their type
                let r = guard(|| e.get_type(m));
                match r {
                    Ok(Ok(ExpressionType(tid, vt))) => {
                        let (b, _) = self.ty_of_id(tid, "object member type")?;
                        let t = Ty { base: b, konst: false, lv: vt == ValueType::Lvalue };
                        let sh = format!("ObjectMember({}, {}):{}", so, name, ty_name(&t));
                        Some((t, sh))
                    }
                    _ => None,
                }
            }
            Expression::Call(fid, ct, args) => {
                self.see("id:function");
                let targs: Vec<Option<(Ty, String)>> = args.iter().map(|a| self.expr(a)).collect();
                if fid.0 >= m.function_registry.get_function_count() {
                    self.report("ir|undefined-id|function".into(), format!("function id {} out of range", fid.0));
                    return None;
                }
                let sig = m.function_registry.get_function_signature(*fid);
                let fname = m.function_registry.get_function_name(*fid).to_string();
                if !sig.template_params.is_empty() && m.function_registry.get_template_instantiation_data(*fid).is_none() && m.function_registry.get_intrinsic_data(*fid).is_none() {
                    self.report("ir|undefined-id|function-template".into(), format!("call of the uninstantiated function template {}", fname));
                }
                if let Some(inst) = m.function_registry.get_template_instantiation_data(*fid) {
                    self.see("id:template-instantiation");
                    if inst.parent_id.0 >= m.function_registry.get_function_count() {
                        self.report("ir|undefined-id|template-instantiation".into(), format!("instantiation {} has parent id {} out of range", fname, inst.parent_id.0));
                    } else {
                        let psig = m.function_registry.get_function_signature(inst.parent_id);
                        if psig.template_params.len() != inst.template_args.len() {
                            self.report("ir|undefined-id|template-instantiation".into(), format!("instantiation {} has {} template arguments for {} parameters", fname, inst.template_args.len(), psig.template_params.len()));
                        }
                        for a in &inst.template_args {
                            if let TypeOrConstant::Type(t) = a {
                                self.ty_of_id(*t, "template argument");
                            }
                        }
                    }
                }
                let is_intrinsic = m.function_registry.get_intrinsic_data(*fid).is_some();
                if is_intrinsic {
                    self.see("call:intrinsic");
                }
                let rest: &[Option<(Ty, String)>] = match ct {
                    CallType::MethodExternal => {
                        self.see("call:method-external");
                        if targs.is_empty() {
                            self.report("ir|call-arg-count".into(), format!("external method call of {} without an object argument", fname));
                            return None;
                        }
                        if let Some((to, _)) = &targs[0] {
                            let ok = match &to.base {
                                Base::Struct(s) => m.struct_registry[*s as usize].methods.contains(fid) || is_instance_of_method(m, *fid, *s),
                                Base::Object(_) => is_intrinsic,
                                _ => false,
                            };
                            if !ok {
                                self.report("ir|call-arg-type|object".into(), format!("method {} called on a value of type {}", fname, ty_name(to)));
                            }
                        }
                        &targs[1..]
                    }
                    CallType::MethodInternal => {
                        self.see("call:method-internal");
                        &targs[..]
                    }
                    CallType::FreeFunction => &targs[..],
                };
                if rest.len() > sig.param_types.len() || rest.len() < sig.non_default_params {
                    self.report("ir|call-arg-count".into(), format!("{} called with {} arguments, takes {}..{}", fname, rest.len(), sig.non_default_params, sig.param_types.len()));
                }
                for (k, (a, p)) in rest.iter().zip(sig.param_types.iter()).enumerate() {
                    let Some((ta, _)) = a else { continue };
                    let Some((pb, _)) = self.ty_of_id(p.type_id, "parameter type") else { continue };
                    if ta.base != pb {
                        self.report(
                            "ir|call-arg-type".into(),
                            format!("argument {} of {} has type {} but the parameter type is {}: {}", k, fname, ty_name(ta), base_name(&pb), short(e)),
                        );
                    }
                    if p.input_modifier != InputModifier::In {
                        self.see("call:out-param");
                        if !ta.lv {
                            // a cast between a scalar and a one-component vector of the same element type is the recorded
                            // finding; a cast that also converts the element type is a different defect
                            let class = out_arg_cast_class(&a.as_ref().map(|x| x.1.clone()).unwrap_or_default());
                            let sig = if class == "cast-same-element" { "ir|out-arg-rvalue".to_string() } else { format!("ir|out-arg-rvalue|{}", class) };
                            self.report(sig, format!("r-value of type {} passed to {:?} parameter {} of {}", ty_name(ta), p.input_modifier, k, fname));
                        } else if ta.konst {
                            self.report("ir|out-arg-const".into(), format!("const value of type {} passed to {:?} parameter {} of {}", ty_name(ta), p.input_modifier, k, fname));
                        }
                    }
                }
                let (rb, _) = self.ty_of_id(sig.return_type.return_type, "return type")?;
                let t = Ty::rv(rb);
                let shs: Vec<String> = targs.iter().map(|a| a.as_ref().map(|x| x.1.clone()).unwrap_or_else(|| "?".into())).collect();
                let sh = format!("Call[{}{}]({}):{}", if is_intrinsic { "intrinsic " } else { "" }, strip_suffix_digits(&fname), shs.join(", "), ty_name(&t));
                Some((t, sh))
            }
            Expression::Constructor(tid, slots) => {
                let tslots: Vec<Option<(Ty, String)>> = slots.iter().map(|s| self.expr(&s.expr)).collect();
                let (b, _) = self.ty_of_id(*tid, "constructor type")?;
                let (s, d) = match b {
                    Base::Num(s, d) => (s, d),
                    _ => {
                        self.report("ir|constructor-slots|target".into(), format!("numeric constructor of type {}", base_name(&b)));
                        return None;
                    }
                };
                let total: u32 = slots.iter().map(|s| s.arity).sum();
                if total != d.count() {
                    self.report("ir|constructor-slots|arity".into(), format!("constructor of {} receives {} elements: {}", base_name(&b), total, short(e)));
                }
                for (k, (slot, ts)) in slots.iter().zip(tslots.iter()).enumerate() {
                    let Some((ts, _)) = ts else { continue };
                    match &ts.base {
                        Base::Num(ss, sd) => {
                            if *ss != s {
                                self.report("ir|constructor-slots|type".into(), format!("slot {} of a {} constructor has type {}: {}", k, base_name(&b), ty_name(ts), short(e)));
                            }
                            if sd.count() != slot.arity {
                                self.report("ir|constructor-slots|arity".into(), format!("slot {} states arity {} but its expression has type {}", k, slot.arity, ty_name(ts)));
                            }
                        }
                        _ => self.report("ir|constructor-slots|type".into(), format!("slot {} of a {} constructor has type {}", k, base_name(&b), ty_name(ts))),
                    }
                }
                let t = Ty::rv(b);
                let shs: Vec<String> = tslots.iter().map(|a| a.as_ref().map(|x| x.1.clone()).unwrap_or_else(|| "?".into())).collect();
                let sh = format!("Ctor({}):{}", shs.join(", "), ty_name(&t));
                Some((t, sh))
            }
            Expression::Cast(tid, inner) => {
                let ti = self.expr(inner);
                let (b, _) = self.ty_of_id(*tid, "cast target type")?;
                let (ti, si) = ti?;
                if !cast_defined(&ti.base, &b) {
                    self.report(
                        "ir|cast-undefined".into(),
                        format!("cast from {} to {} ({} -> {}) is not a conversion HLSL defines: {}", base_name(&ti.base), base_name(&b), base_kind(&ti.base), base_kind(&b), short(e)),
                    );
                }
                let t = Ty::rv(b);
                let sh = format!("Cast({}):{}", si, ty_name(&t));
                Some((t, sh))
            }
            Expression::SizeOf(tid) => {
                self.ty_of_id(*tid, "sizeof operand")?;
                let t = Ty::rv(Base::Num(ScalarType::UInt32, Dim::S));
                Some((t.clone(), format!("SizeOf:{}", ty_name(&t))))
            }
            Expression::IntrinsicOp(op, args) => {
                self.see(op_name(op));
                let targs: Vec<Option<(Ty, String)>> = args.iter().map(|a| self.expr(a)).collect();
                let t = self.intrinsic_op(op, &targs, e)?;
                let shs: Vec<String> = targs.iter().map(|a| a.as_ref().map(|x| x.1.clone()).unwrap_or_else(|| "?".into())).collect();
                let sh = format!("{}({}):{}", op_name(op), shs.join(", "), ty_name(&t));
                Some((t, sh))
            }
        }
    }

    fn intrinsic_op(&mut self, op: &IntrinsicOp, targs: &[Option<(Ty, String)>], e: &Expression) -> Option<Ty> {
        use IntrinsicOp::*;
        let name = op_name(op);
        let want = match op {
            PrefixIncrement | PrefixDecrement | PostfixIncrement | PostfixDecrement | Plus | Minus | LogicalNot | BitwiseNot | MakeSigned | MakeSignedPushZero => Some(1),
            MeshOutputSetVertex | MeshOutputSetPrimitive | MeshOutputSetIndices => None,
            _ => Some(2),
        };
        if let Some(n) = want {
            if targs.len() != n {
                self.report(format!("ir|operand-type|{}|count", name), format!("{} with {} operands", name, targs.len()));
                return None;
            }
        }
        let a = targs.first().and_then(|x| x.as_ref()).map(|x| x.0.clone());
        let b = targs.get(1).and_then(|x| x.as_ref()).map(|x| x.0.clone());
        let numeric_or_enum = |t: &Ty| matches!(t.base, Base::Num(..) | Base::Enum(_));
        match op {
            PrefixIncrement | PrefixDecrement | PostfixIncrement | PostfixDecrement => {
                let a = a?;
                if !matches!(a.base, Base::Num(s, _) if s != ScalarType::Bool) && !matches!(a.base, Base::Enum(_)) {
                    self.report(format!("ir|operand-type|{}|operand", name), format!("{} of a value of type {}: {}", name, ty_name(&a), short(e)));
                }
                if !a.lv {
                    self.report("ir|assign-to-rvalue".into(), format!("{} applied to an r-value of type {}: {}", name, ty_name(&a), short(e)));
                } else if a.konst {
                    self.report("ir|assign-to-const".into(), format!("{} applied to a const value of type {}: {}", name, ty_name(&a), short(e)));
                }
                let prefix = matches!(op, PrefixIncrement | PrefixDecrement);
                Some(Ty { base: a.base, konst: a.konst && prefix, lv: prefix && a.lv })
            }
            Plus | Minus => {
                let a = a?;
                if !numeric_or_enum(&a) {
                    self.report(format!("ir|operand-type|{}|operand", name), format!("{} of a value of type {}: {}", name, ty_name(&a), short(e)));
                }
                Some(Ty::rv(a.base))
            }
            LogicalNot => {
                let a = a?;
                match a.base {
                    Base::Num(ScalarType::Bool, d) => Some(Ty::rv(Base::Num(ScalarType::Bool, d))),
                    _ => {
                        self.report("ir|operand-type|LogicalNot|operand".into(), format!("! applied to a value of type {} (bool required): {}", ty_name(&a), short(e)));
                        match a.base {
                            Base::Num(_, d) => Some(Ty::rv(Base::Num(ScalarType::Bool, d))),
                            _ => None,
                        }
                    }
                }
            }
            BitwiseNot => {
                let a = a?;
                let ok = matches!(a.base, Base::Num(s, _) if is_int_scalar(s)) || matches!(a.base, Base::Enum(_));
                if !ok {
                    self.report("ir|operand-type|BitwiseNot|operand".into(), format!("~ applied to a value of type {} (integer required): {}", ty_name(&a), short(e)));
                }
                Some(Ty::rv(a.base))
            }
            Add | Subtract | Multiply | Divide | Modulus | LeftShift | RightShift | BitwiseAnd | BitwiseOr | BitwiseXor | BooleanAnd | BooleanOr | LessThan | LessEqual | GreaterThan | GreaterEqual | Equality | Inequality => {
                let (a, b) = (a?, b?);
                let integer_only = matches!(op, LeftShift | RightShift | BitwiseAnd | BitwiseOr | BitwiseXor);
                let boolean = matches!(op, BooleanAnd | BooleanOr);
                for (side, t) in [("left", &a), ("right", &b)] {
                    let ok = if boolean {
                        matches!(t.base, Base::Num(ScalarType::Bool, _))
                    } else if integer_only {
                        matches!(t.base, Base::Num(s, _) if is_int_scalar(s)) || matches!(t.base, Base::Enum(_))
                    } else {
                        numeric_or_enum(t)
                    };
                    if !ok {
                        self.report(
                            format!("ir|operand-type|{}|{}", name, side),
                            format!("{} operand of {} has type {} ({} required): {}", side, name, ty_name(t), if boolean { "bool" } else if integer_only { "integer" } else { "numeric" }, short(e)),
                        );
                    }
                }
                if a.base != b.base {
                    self.report(format!("ir|operand-type|{}|right", name), format!("operands of {} have different types {} and {}: {}", name, ty_name(&a), ty_name(&b), short(e)));
                }
                let compare = matches!(op, LessThan | LessEqual | GreaterThan | GreaterEqual | Equality | Inequality);
                if compare {
                    let d = match a.base {
                        Base::Num(_, d) => d,
                        _ => Dim::S,
                    };
                    Some(Ty::rv(Base::Num(ScalarType::Bool, d)))
                } else {
                    Some(Ty::rv(a.base))
                }
            }
            Assignment | SumAssignment | DifferenceAssignment | ProductAssignment | QuotientAssignment | RemainderAssignment | LeftShiftAssignment | RightShiftAssignment | BitwiseAndAssignment | BitwiseOrAssignment | BitwiseXorAssignment => {
                let a = a?;
                if !a.lv {
                    self.report("ir|assign-to-rvalue".into(), format!("{} to an r-value of type {}: {}", name, ty_name(&a), short(e)));
                } else if a.konst {
                    self.report("ir|assign-to-const".into(), format!("{} to a const value of type {}: {}", name, ty_name(&a), short(e)));
                }
                let integer_only = matches!(op, LeftShiftAssignment | RightShiftAssignment | BitwiseAndAssignment | BitwiseOrAssignment | BitwiseXorAssignment);
                if *op != Assignment {
                    let ok = if integer_only { matches!(a.base, Base::Num(s, _) if is_int_scalar(s) || s == ScalarType::Bool) || matches!(a.base, Base::Enum(_)) } else { numeric_or_enum(&a) };
                    if !ok {
                        self.report(
                            format!("ir|operand-type|{}|left", name),
                            format!("{} acts on a value of type {} ({} required): {}", name, ty_name(&a), if integer_only { "integer" } else { "numeric" }, short(e)),
                        );
                    }
                }
                if let Some(b) = b {
                    if a.base != b.base {
                        self.report(format!("ir|operand-type|{}|right", name), format!("right side of {} has type {} but the left side has type {}: {}", name, ty_name(&b), ty_name(&a), short(e)));
                    }
                }
                Some(Ty { base: a.base, konst: a.konst, lv: a.lv })
            }
            MakeSigned | MakeSignedPushZero | MeshOutputSetVertex | MeshOutputSetPrimitive | MeshOutputSetIndices => {
                // exporter-internal operations: not produced by the type checker; their type is whatever the IR defines
                let m = self.m;
                match guard(|| e.get_type(m)) {
                    Ok(Ok(ExpressionType(tid, _))) => {
                        let (b, _) = self.ty_of_id(tid, "internal op type")?;
                        Some(Ty::rv(b))
                    }
                    _ => None,
                }
            }
        }
    }

    fn initializer(&mut self, init: &Initializer, target: &Base, what: &str, sig: &str) -> String {
        match init {
            Initializer::Expression(e) => {
                let Some((t, sh)) = self.expr(e) else { return "?".into() };
                if t.base != *target {
                    self.report(sig.to_string(), format!("{} of type {} initialised with a value of type {}: {}", what, base_name(target), ty_name(&t), short(e)));
                }
                sh
            }
            Initializer::Aggregate(list) => {
                self.see("init:aggregate");
                let mut parts = Vec::new();
                match target {
                    Base::Array(elem, len) => {
                        if let Some(n) = len {
                            if *n != list.len() as u64 {
                                self.report(format!("{}|aggregate-shape", sig), format!("{}: array of {} initialised with {} elements", what, n, list.len()));
                            }
                        }
                        for i in list {
                            parts.push(self.initializer(i, elem, what, sig));
                        }
                    }
                    Base::Num(s, Dim::V(n)) => {
                        if *n as usize != list.len() {
                            self.report(format!("{}|aggregate-shape", sig), format!("{}: vector of {} initialised with {} elements", what, n, list.len()));
                        }
                        for i in list {
                            parts.push(self.initializer(i, &Base::Num(*s, Dim::S), what, sig));
                        }
                    }
                    Base::Struct(sid) => {
                        let members: Vec<TypeId> = self.m.struct_registry[*sid as usize].members.iter().map(|mm| mm.type_id).collect();
                        if members.len() != list.len() {
                            self.report(format!("{}|aggregate-shape", sig), format!("{}: struct with {} members initialised with {} elements", what, members.len(), list.len()));
                        }
                        for (i, mt) in list.iter().zip(members.iter()) {
                            if let Some((b, _)) = self.ty_of_id(*mt, "struct member type") {
                                parts.push(self.initializer(i, &b, what, sig));
                            }
                        }
                    }
                    other => {
                        self.report(format!("{}|aggregate-shape", sig), format!("{}: aggregate initialiser for a value of type {}", what, base_name(other)));
                        for i in list {
                            if let Initializer::Expression(e) = i {
                                self.expr(e);
                            }
                        }
                    }
                }
                format!("{{{}}}", parts.join(", "))
            }
        }
    }

    fn collect_declared(block: &ScopeBlock, out: &mut HashSet<u32>) {
        for v in &block.1.variables {
            out.insert(v.0);
        }
        for st in &block.0 {
            match &st.kind {
                StatementKind::Var(vd) => {
                    out.insert(vd.id.0);
                }
                StatementKind::Block(b) | StatementKind::If(_, b) | StatementKind::While(_, b) | StatementKind::DoWhile(b, _) | StatementKind::Switch(_, b) => Self::collect_declared(b, out),
                StatementKind::IfElse(_, a, b) => {
                    Self::collect_declared(a, out);
                    Self::collect_declared(b, out);
                }
                StatementKind::For(init, _, _, b) => {
                    if let ForInit::Definitions(defs) = init {
                        for d in defs {
                            out.insert(d.id.0);
                        }
                    }
                    Self::collect_declared(b, out);
                }
                _ => {}
            }
        }
    }

    fn vardef(&mut self, vd: &VarDef, shape: &mut String) {
        let m = self.m;
        if vd.id.0 >= m.variable_registry.get_variable_count() {
            self.report("ir|undefined-id|variable".into(), format!("defined variable id {} out of range", vd.id.0));
            return;
        }
        let var = m.variable_registry.get_local_variable(vd.id);
        let Some((b, _)) = self.ty_of_id(var.type_id, "local variable type") else { return };
        shape.push_str(&format!("var {}", base_name(&b)));
        if let Some(init) = &vd.init {
            self.see("init:local");
            let sh = self.initializer(init, &b, "local variable", "ir|init-type");
            shape.push_str(&format!(" = {}", sh));
        }
        shape.push_str("; ");
    }

    fn cond(&mut self, e: &Expression, shape: &mut String) {
        // statement conditions are only required to have a type
        self.see("stmt:condition");
        match self.expr(e) {
            Some((_, sh)) => shape.push_str(&format!("cond({}) ", sh)),
            None => shape.push_str("cond(?) "),
        }
    }

    fn block(&mut self, block: &ScopeBlock, ret: &Option<Base>, shape: &mut String) {
        let m = self.m;
        for v in &block.1.variables {
            if v.0 >= m.variable_registry.get_variable_count() {
                self.report("ir|undefined-id|variable".into(), format!("scope declares variable id {} out of range", v.0));
            }
        }
        for st in &block.0 {
            match &st.kind {
                StatementKind::Expression(e) => {
                    let sh = self.expr(e).map(|x| x.1).unwrap_or_else(|| "?".into());
                    shape.push_str(&sh);
                    shape.push_str("; ");
                }
                StatementKind::Var(vd) => self.vardef(vd, shape),
                StatementKind::Block(b) => {
                    shape.push_str("{ ");
                    self.block(b, ret, shape);
                    shape.push_str("} ");
                }
                StatementKind::If(c, b) => {
                    shape.push_str("if ");
                    self.cond(c, shape);
                    self.block(b, ret, shape);
                }
                StatementKind::IfElse(c, a, b) => {
                    shape.push_str("if ");
                    self.cond(c, shape);
                    self.block(a, ret, shape);
                    shape.push_str("else ");
                    self.block(b, ret, shape);
                }
                StatementKind::For(init, c, it, b) => {
                    shape.push_str("for ");
                    match init {
                        ForInit::Empty => {}
                        ForInit::Expression(e) => {
                            let sh = self.expr(e).map(|x| x.1).unwrap_or_else(|| "?".into());
                            shape.push_str(&sh);
                        }
                        ForInit::Definitions(defs) => {
                            for d in defs {
                                self.vardef(d, shape);
                            }
                        }
                    }
                    if let Some(c) = c {
                        self.cond(c, shape);
                    }
                    if let Some(it) = it {
                        let sh = self.expr(it).map(|x| x.1).unwrap_or_else(|| "?".into());
                        shape.push_str(&sh);
                    }
                    self.block(b, ret, shape);
                }
                StatementKind::While(c, b) => {
                    shape.push_str("while ");
                    self.cond(c, shape);
                    self.block(b, ret, shape);
                }
                StatementKind::DoWhile(b, c) => {
                    shape.push_str("do ");
                    self.block(b, ret, shape);
                    self.cond(c, shape);
                }
                StatementKind::Switch(c, b) => {
                    shape.push_str("switch ");
                    self.cond(c, shape);
                    self.block(b, ret, shape);
                }
                StatementKind::Return(Some(e)) => {
                    self.see("stmt:return-value");
                    let r = self.expr(e);
                    if let (Some((t, _)), Some(rb)) = (&r, ret) {
                        if t.base != *rb {
                            self.report("ir|return-type".into(), format!("return of a value of type {} from a function returning {}: {}", ty_name(t), base_name(rb), short(e)));
                        }
                    }
                    shape.push_str(&format!("return {}; ", r.map(|x| x.1).unwrap_or_else(|| "?".into())));
                }
                StatementKind::Return(None) => {
                    self.see("stmt:return-void");
                    if let Some(rb) = ret {
                        if *rb != Base::Void {
                            self.report("ir|return-type".into(), format!("return without a value from a function returning {}", base_name(rb)));
                        }
                    }
                    shape.push_str("return; ");
                }
                StatementKind::Break | StatementKind::Continue | StatementKind::Discard | StatementKind::DefaultLabel => {}
                StatementKind::CaseLabel(c) => {
                    shape.push_str(&format!("case {:?}: ", std::mem::discriminant(c)));
                }
            }
        }
    }
}

/// `fid` is an instantiation of a method template of struct `sid` (its parent is listed in the struct's methods)
fn is_instance_of_method(m: &Module, fid: FunctionId, sid: u32) -> bool {
    match m.function_registry.get_template_instantiation_data(fid) {
        Some(inst) => inst.parent_id.0 < m.function_registry.get_function_count() && m.struct_registry[sid as usize].methods.contains(&inst.parent_id),
        None => false,
    }
}

fn strip_suffix_digits(name: &str) -> String {
    // case-local names end in _<index>; drop the index so that shapes of different cases can coincide
    match name.rfind('_') {
        Some(i) if name[i + 1..].chars().all(|c| c.is_ascii_digit()) && i + 1 < name.len() => name[..i].to_string(),
        _ => name.to_string(),
    }
}

/// Is `(to)from` a conversion HLSL defines? Deliberately permissive: only combinations that are certainly undefined
/// answer false (objects and void on either side, widening a multi-component vector/matrix, numeric <-> array of
/// a different element count is left alone).
pub fn cast_defined(from: &Base, to: &Base) -> bool {
    if from == to {
        return true;
    }
    match (from, to) {
        (Base::TParam(_), _) | (_, Base::TParam(_)) => true,
        (Base::Void, _) | (_, Base::Void) => false,
        (Base::Object(_), _) | (_, Base::Object(_)) => false,
        (Base::STemplate(_), _) | (_, Base::STemplate(_)) => false,
        (Base::Num(_, fd), Base::Num(_, td)) => {
            let (f, t) = (fd.count(), td.count());
            // scalar and one-component sources replicate; otherwise components may only be dropped
            f == 1 || t <= f
        }
        (Base::Enum(_), Base::Num(..)) | (Base::Num(..), Base::Enum(_)) | (Base::Enum(_), Base::Enum(_)) => true,
        // flat conversions between aggregates and from scalars to aggregates ((S)0) exist in HLSL; left alone
        _ => true,
    }
}

/// Check one function (signature, parameters, default arguments, attributes, body)
pub fn check_function(m: &Module, fid: FunctionId) -> Item {
    let mut cx = Cx::new(m);
    let name = m.function_registry.get_function_name(fid).to_string();
    let sig = m.function_registry.get_function_signature(fid);
    let mut shape = String::new();
    let ret = cx.ty_of_id(sig.return_type.return_type, "return type").map(|x| x.0);
    for p in &sig.param_types {
        cx.ty_of_id(p.type_id, "parameter type");
    }
    if let Some(imp) = m.function_registry.get_function_implementation(fid) {
        if sig.template_params.is_empty() || m.function_registry.get_template_instantiation_data(fid).is_some() {
            let mut declared = HashSet::new();
            for p in &imp.params {
                declared.insert(p.id.0);
            }
            Cx::collect_declared(&imp.scope_block, &mut declared);
            cx.declared = Some(declared);
            for (i, sd) in m.struct_registry.iter().enumerate() {
                if sd.methods.contains(&fid) || is_instance_of_method(m, fid, i as u32) {
                    cx.owner_struct = Some(i as u32);
                }
            }
            if imp.params.len() != sig.param_types.len() {
                cx.report("ir|call-arg-count|definition".into(), format!("{} defines {} parameters, its signature has {}", name, imp.params.len(), sig.param_types.len()));
            }
            for (k, p) in imp.params.iter().enumerate() {
                if p.id.0 >= m.variable_registry.get_variable_count() {
                    cx.report("ir|undefined-id|variable".into(), format!("parameter variable id {} out of range", p.id.0));
                    continue;
                }
                let Some((pb, _)) = cx.ty_of_id(p.param_type.type_id, "parameter type") else { continue };
                if let Some(sp) = sig.param_types.get(k) {
                    if let Some((sb, _)) = cx.ty_of_id(sp.type_id, "signature parameter type") {
                        if sb != pb {
                            cx.report("ir|call-arg-type|definition".into(), format!("parameter {} of {} has type {} but the signature says {}", k, name, base_name(&pb), base_name(&sb)));
                        }
                    }
                }
                shape.push_str(&format!("param {:?} {}; ", p.param_type.input_modifier, base_name(&pb)));
                if let Some(d) = &p.default_expr {
                    cx.see("init:default-argument");
                    if let Some((t, sh)) = cx.expr(d) {
                        if t.base != pb {
                            cx.report("ir|default-arg-type".into(), format!("default argument of parameter {} ({}) of {} has type {}: {}", k, base_name(&pb), name, ty_name(&t), short(d)));
                        }
                        shape.push_str(&format!("default {}; ", sh));
                    }
                }
            }
            for a in &imp.attributes {
                cx.see("attribute-expression");
                let exprs: Vec<&Expression> = match a {
                    FunctionAttribute::NumThreads(x, y, z) => vec![x, y, z],
                    FunctionAttribute::MaxVertexCount(x) | FunctionAttribute::WaveSize(x) => vec![x],
                    FunctionAttribute::OutputTopology(_) => vec![],
                };
                for e in exprs {
                    let sh = cx.expr(e).map(|x| x.1).unwrap_or_else(|| "?".into());
                    shape.push_str(&format!("attr {}; ", sh));
                }
            }
            cx.block(&imp.scope_block, &ret, &mut shape);
        }
    }
    Item { owner: name, findings: cx.findings, shape, nodes: cx.nodes, seen: cx.seen }
}

/// Check one global variable (type, initialiser)
pub fn check_global(m: &Module, gid: GlobalId) -> Item {
    let mut cx = Cx::new(m);
    let g = &m.global_registry[gid.0 as usize];
    let mut shape = String::new();
    if let Some((b, _)) = cx.ty_of_id(g.type_id, "global type") {
        shape.push_str(&format!("global {}", base_name(&b)));
        if let Some(init) = &g.init {
            cx.see("init:global");
            let sh = cx.initializer(init, &b, "global variable", "ir|init-type");
            shape.push_str(&format!(" = {}", sh));
        }
    }
    Item { owner: g.name.node.clone(), findings: cx.findings, shape, nodes: cx.nodes, seen: cx.seen }
}

/// Check the registries themselves: struct members and methods, enum values, cbuffer members, root definitions
pub fn check_registries(m: &Module) -> Item {
    let mut cx = Cx::new(m);
    let nf = m.function_registry.get_function_count();
    for sd in &m.struct_registry {
        for mem in &sd.members {
            cx.ty_of_id(mem.type_id, "struct member type");
        }
        for f in &sd.methods {
            if f.0 >= nf {
                cx.report("ir|undefined-id|function".into(), format!("struct {} lists method id {} out of range", sd.name.node, f.0));
            }
        }
        cx.ty_of_id(sd.type_id, "struct type id");
    }
    for cb in &m.cbuffer_registry {
        for mem in &cb.members {
            cx.ty_of_id(mem.type_id, "cbuffer member type");
        }
    }
    for i in 0..m.enum_registry.get_enum_count() {
        for v in m.enum_registry.get_values(EnumId(i)) {
            if v.0 >= cx.total_enum_values {
                cx.report("ir|undefined-id|enum-value".into(), format!("enum lists value id {} out of range", v.0));
            }
        }
    }
    for rd in &m.root_definitions {
        let (ok, kind) = match rd {
            RootDefinition::Struct(id) => ((id.0 as usize) < m.struct_registry.len(), "struct"),
            RootDefinition::StructTemplate(id) => ((id.0 as usize) < m.struct_template_registry.len(), "struct-template"),
            RootDefinition::Enum(id) => (id.0 < m.enum_registry.get_enum_count(), "enum"),
            RootDefinition::ConstantBuffer(id) => ((id.0 as usize) < m.cbuffer_registry.len(), "cbuffer"),
            RootDefinition::GlobalVariable(id) => ((id.0 as usize) < m.global_registry.len(), "global"),
            RootDefinition::FunctionDeclaration(id) | RootDefinition::Function(id) => (id.0 < nf, "function"),
        };
        if !ok {
            cx.report(format!("ir|undefined-id|{}", kind), format!("root definition {:?} out of range", rd));
        }
    }
    Item { owner: "<registries>".into(), findings: cx.findings, shape: String::new(), nodes: 0, seen: cx.seen }
}

/// Everything in the module that user source produced: functions with an implementation that are not intrinsics,
/// globals that are not built in, and the registries.
pub fn check_module(m: &Module) -> Vec<Item> {
    let mut out = Vec::new();
    out.push(check_registries(m));
    for g in 0..m.global_registry.len() {
        if m.global_registry[g].is_intrinsic {
            continue;
        }
        out.push(check_global(m, GlobalId(g as u32)));
    }
    for f in 0..m.function_registry.get_function_count() {
        let fid = FunctionId(f);
        if m.function_registry.get_intrinsic_data(fid).is_some() {
            continue;
        }
        if m.function_registry.get_function_implementation(fid).is_none() {
            continue;
        }
        out.push(check_function(m, fid));
    }
    out
}

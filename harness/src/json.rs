//! Minimal JSON value, writer and parser (no third-party crates are used by the harness).

use std::collections::BTreeMap;
use std::fmt::Write;

#[derive(Clone, Debug, PartialEq)]
pub enum Json {
    Null,
    Bool(bool),
    Int(i64),
    Num(f64),
    Str(String),
    Arr(Vec<Json>),
    Obj(Vec<(String, Json)>),
}

impl From<&str> for Json {
    fn from(s: &str) -> Json {
        Json::Str(s.to_string())
    }
}
impl From<String> for Json {
    fn from(s: String) -> Json {
        Json::Str(s)
    }
}
impl From<u64> for Json {
    fn from(v: u64) -> Json {
        Json::Int(v as i64)
    }
}
impl From<usize> for Json {
    fn from(v: usize) -> Json {
        Json::Int(v as i64)
    }
}
impl From<i64> for Json {
    fn from(v: i64) -> Json {
        Json::Int(v)
    }
}
impl From<bool> for Json {
    fn from(v: bool) -> Json {
        Json::Bool(v)
    }
}
impl From<f64> for Json {
    fn from(v: f64) -> Json {
        Json::Num(v)
    }
}
impl<T: Into<Json>> From<Vec<T>> for Json {
    fn from(v: Vec<T>) -> Json {
        Json::Arr(v.into_iter().map(|x| x.into()).collect())
    }
}
impl From<&BTreeMap<String, u64>> for Json {
    fn from(m: &BTreeMap<String, u64>) -> Json {
        Json::Obj(m.iter().map(|(k, v)| (k.clone(), Json::Int(*v as i64))).collect())
    }
}

pub fn obj(items: Vec<(&str, Json)>) -> Json {
    Json::Obj(items.into_iter().map(|(k, v)| (k.to_string(), v)).collect())
}

impl Json {
    pub fn get(&self, key: &str) -> Option<&Json> {
        match self {
            Json::Obj(items) => items.iter().find(|(k, _)| k == key).map(|(_, v)| v),
            _ => None,
        }
    }
    pub fn as_str(&self) -> Option<&str> {
        match self {
            Json::Str(s) => Some(s),
            _ => None,
        }
    }
    pub fn as_arr(&self) -> Option<&[Json]> {
        match self {
            Json::Arr(a) => Some(a),
            _ => None,
        }
    }
    pub fn set(&mut self, key: &str, value: Json) {
        if let Json::Obj(items) = self {
            if let Some(slot) = items.iter_mut().find(|(k, _)| k == key) {
                slot.1 = value;
            } else {
                items.push((key.to_string(), value));
            }
        }
    }

    pub fn to_string_pretty(&self) -> String {
        let mut s = String::new();
        self.write(&mut s, 0);
        s.push('\n');
        s
    }

    fn write(&self, out: &mut String, indent: usize) {
        match self {
            Json::Null => out.push_str("null"),
            Json::Bool(b) => out.push_str(if *b { "true" } else { "false" }),
            Json::Int(i) => {
                let _ = write!(out, "{}", i);
            }
            Json::Num(n) => {
                if n.is_finite() {
                    let _ = write!(out, "{:.3}", n);
                } else {
                    out.push_str("null");
                }
            }
            Json::Str(s) => write_str(out, s),
            Json::Arr(a) => {
                if a.is_empty() {
                    out.push_str("[]");
                    return;
                }
                out.push_str("[\n");
                for (i, v) in a.iter().enumerate() {
                    pad(out, indent + 1);
                    v.write(out, indent + 1);
                    if i + 1 != a.len() {
                        out.push(',');
                    }
                    out.push('\n');
                }
                pad(out, indent);
                out.push(']');
            }
            Json::Obj(o) => {
                if o.is_empty() {
                    out.push_str("{}");
                    return;
                }
                out.push_str("{\n");
                for (i, (k, v)) in o.iter().enumerate() {
                    pad(out, indent + 1);
                    write_str(out, k);
                    out.push_str(": ");
                    v.write(out, indent + 1);
                    if i + 1 != o.len() {
                        out.push(',');
                    }
                    out.push('\n');
                }
                pad(out, indent);
                out.push('}');
            }
        }
    }
}

fn pad(out: &mut String, n: usize) {
    for _ in 0..n {
        out.push(' ');
    }
}

fn write_str(out: &mut String, s: &str) {
    out.push('"');
    for c in s.chars() {
        match c {
            '"' => out.push_str("\\\""),
            '\\' => out.push_str("\\\\"),
            '\n' => out.push_str("\\n"),
            '\r' => out.push_str("\\r"),
            '\t' => out.push_str("\\t"),
            c if (c as u32) < 0x20 => {
                let _ = write!(out, "\\u{:04x}", c as u32);
            }
            c => out.push(c),
        }
    }
    out.push('"');
}

pub fn parse(text: &str) -> Result<Json, String> {
    let b = text.as_bytes();
    let mut p = 0usize;
    let v = parse_value(b, &mut p)?;
    skip_ws(b, &mut p);
    if p != b.len() {
        return Err(format!("trailing data at {}", p));
    }
    Ok(v)
}

fn skip_ws(b: &[u8], p: &mut usize) {
    while *p < b.len() && (b[*p] as char).is_ascii_whitespace() {
        *p += 1;
    }
}

fn parse_value(b: &[u8], p: &mut usize) -> Result<Json, String> {
    skip_ws(b, p);
    if *p >= b.len() {
        return Err("eof".into());
    }
    match b[*p] {
        b'{' => {
            *p += 1;
            let mut items = Vec::new();
            loop {
                skip_ws(b, p);
                if *p < b.len() && b[*p] == b'}' {
                    *p += 1;
                    break;
                }
                let k = match parse_value(b, p)? {
                    Json::Str(s) => s,
                    _ => return Err("key".into()),
                };
                skip_ws(b, p);
                if *p >= b.len() || b[*p] != b':' {
                    return Err(format!("expected : at {}", p));
                }
                *p += 1;
                let v = parse_value(b, p)?;
                items.push((k, v));
                skip_ws(b, p);
                if *p < b.len() && b[*p] == b',' {
                    *p += 1;
                }
            }
            Ok(Json::Obj(items))
        }
        b'[' => {
            *p += 1;
            let mut items = Vec::new();
            loop {
                skip_ws(b, p);
                if *p < b.len() && b[*p] == b']' {
                    *p += 1;
                    break;
                }
                items.push(parse_value(b, p)?);
                skip_ws(b, p);
                if *p < b.len() && b[*p] == b',' {
                    *p += 1;
                }
            }
            Ok(Json::Arr(items))
        }
        b'"' => {
            *p += 1;
            let mut s = Vec::new();
            while *p < b.len() && b[*p] != b'"' {
                if b[*p] == b'\\' {
                    *p += 1;
                    match b.get(*p) {
                        Some(b'n') => s.push(b'\n'),
                        Some(b't') => s.push(b'\t'),
                        Some(b'r') => s.push(b'\r'),
                        Some(b'u') => {
                            let hex = std::str::from_utf8(&b[*p + 1..*p + 5]).map_err(|e| e.to_string())?;
                            let cp = u32::from_str_radix(hex, 16).map_err(|e| e.to_string())?;
                            let mut buf = [0u8; 4];
                            s.extend_from_slice(char::from_u32(cp).unwrap_or('?').encode_utf8(&mut buf).as_bytes());
                            *p += 4;
                        }
                        Some(c) => s.push(*c),
                        None => return Err("eof in string".into()),
                    }
                } else {
                    s.push(b[*p]);
                }
                *p += 1;
            }
            *p += 1;
            Ok(Json::Str(String::from_utf8_lossy(&s).into_owned()))
        }
        b't' => {
            *p += 4;
            Ok(Json::Bool(true))
        }
        b'f' => {
            *p += 5;
            Ok(Json::Bool(false))
        }
        b'n' => {
            *p += 4;
            Ok(Json::Null)
        }
        _ => {
            let start = *p;
            while *p < b.len() && (b[*p] == b'-' || b[*p] == b'+' || b[*p] == b'.' || b[*p] == b'e' || b[*p] == b'E' || b[*p].is_ascii_digit()) {
                *p += 1;
            }
            let t = std::str::from_utf8(&b[start..*p]).unwrap();
            if let Ok(i) = t.parse::<i64>() {
                Ok(Json::Int(i))
            } else {
                t.parse::<f64>().map(Json::Num).map_err(|e| format!("{} at {}", e, start))
            }
        }
    }
}

use rssl_verif::engine::{self, Ctx, Tier};
use std::time::{Duration, Instant};

fn usage() -> ! {
    eprintln!("usage: vcheck <C01..C19> <quick|thorough> [--replay <file>] [--jobs N]");
    std::process::exit(2);
}

fn main() {
    let args: Vec<String> = std::env::args().collect();
    if args.len() >= 2 && args[1] == "--worker" {
        // isolated worker mode (used by checks that must survive aborts of the subject)
        engine::install_panic_hook();
        std::process::exit(rssl_verif::props::worker(&args[2..]));
    }
    if args.len() >= 3 && args[1] == "probe" {
        // ad-hoc triage helper: vcheck probe parse|format|tc|compile[:<cfg>[:nopipe|all|<name>]] <file>
        engine::install_panic_hook();
        let src = std::fs::read_to_string(&args[3]).expect("read file");
        let what = args[2].clone();
        let r = engine::guard(|| {
            use rssl_verif::util::*;
            if what == "parse" {
                match parse_src(&src) {
                    Ok(m) => println!("{:#?}", m),
                    Err(e) => println!("PARSE ERROR:\n{}", e),
                }
            } else if what == "format" {
                match parse_src(&src) {
                    Ok(m) => println!("{:?}", rssl_formatter::format(&m, rssl_formatter::Target::Hlsl)),
                    Err(e) => println!("PARSE ERROR:\n{}", e),
                }
            } else if what == "tc" {
                match typecheck_src(&src) {
                    Ok(m) => println!("OK {} root definitions", m.root_definitions.len()),
                    Err(e) => println!("TYPE ERROR:\n{}", e),
                }
            } else {
                let mut it = what.split(':');
                let _ = it.next();
                let cfg = match it.next().unwrap_or("dx") {
                    "dx" => Cfg::Dx,
                    "vk" => Cfg::Vk,
                    "vkba" => Cfg::VkBa,
                    "msl" => Cfg::Msl,
                    other => match Cfg::from_name(other) {
                        Some(c) => c,
                        None => {
                            println!("unknown target {:?} (dx, vk, vkba, msl)", other);
                            return;
                        }
                    },
                };
                let mode = match it.next() {
                    None | Some("nopipe") => Mode::NoPipeline,
                    Some("all") => Mode::All,
                    Some(n) => Mode::Named(n.to_string()),
                };
                println!("{}", render_result(&compile1(&src, cfg, mode)));
            }
        });
        if let Err(p) = r {
            println!("PANIC {} : {}", p.file, p.message);
        }
        return;
    }
    if args.len() < 3 {
        usage();
    }
    let prop = args[1].clone();
    let mut tier = match args[2].as_str() {
        "quick" => Tier::Quick,
        "thorough" => Tier::Thorough,
        "--replay" => Tier::Quick,
        _ => usage(),
    };
    if let Ok(t) = std::env::var("VERIF_TIER") {
        if args[2] != "quick" && args[2] != "thorough" {
            tier = if t == "thorough" { Tier::Thorough } else { Tier::Quick };
        }
    }
    let mut replay = None;
    let mut jobs = std::thread::available_parallelism().map(|n| n.get()).unwrap_or(8);
    let mut i = 2;
    while i < args.len() {
        match args[i].as_str() {
            "--replay" => {
                replay = args.get(i + 1).cloned();
                i += 1;
            }
            "--jobs" => {
                jobs = args.get(i + 1).and_then(|s| s.parse().ok()).unwrap_or(jobs);
                i += 1;
            }
            _ => {}
        }
        i += 1;
    }
    let seed = std::env::var("VERIF_SEED").ok().and_then(|s| s.parse::<u64>().ok()).unwrap_or(0);
    let budget_s = std::env::var("VERIF_BUDGET_S").ok().and_then(|s| s.parse::<u64>().ok()).unwrap_or(
        if tier == Tier::Quick { 50 } else { 1500 },
    );
    let ctx = Ctx { prop: prop.clone(), tier, seed, jobs, start: Instant::now(), budget: Duration::from_secs(budget_s) };
    engine::install_panic_hook();
    // generous stack for the driver thread: the subject recurses on nested input
    let child = std::thread::Builder::new()
        .stack_size(64 << 20)
        .spawn(move || {
            if let Some(path) = replay {
                rssl_verif::props::replay(&ctx, &path)
            } else {
                rssl_verif::props::run(&ctx)
            }
        })
        .unwrap();
    let code = child.join().unwrap_or(2);
    std::process::exit(code);
}

//! Value domain and scalar operations shared by both interpreters (DESIGN 4.5 S1-S10).
//! Everything HLSL leaves unspecified is reported as `Stop::Unspec` so that the case is skipped on both sides.

use std::fmt::Write;

/// Scalar types. `LitInt` / `LitFloat` are the types of unsuffixed literals (they adapt to the other operand).
#[derive(Clone, Copy, PartialEq, Eq, Debug, Hash, PartialOrd, Ord)]
pub enum ST {
    Bool,
    Int,
    UInt,
    Half,
    Float,
    Double,
    LitInt,
    LitFloat,
}

impl ST {
    pub fn name(self) -> &'static str {
        match self {
            ST::Bool => "bool",
            ST::Int => "int",
            ST::UInt => "uint",
            ST::Half => "half",
            ST::Float => "float",
            ST::Double => "double",
            ST::LitInt => "literal-int",
            ST::LitFloat => "literal-float",
        }
    }
    pub fn is_float(self) -> bool {
        matches!(self, ST::Half | ST::Float | ST::Double | ST::LitFloat)
    }
    pub fn is_int(self) -> bool {
        matches!(self, ST::Int | ST::UInt | ST::LitInt)
    }
}

/// A scalar value. `H` stores a binary16 value exactly in an f32.
#[derive(Clone, Copy, Debug)]
pub enum Sc {
    B(bool),
    I(i32),
    U(u32),
    H(f32),
    F(f32),
    D(f64),
    LI(i64),
    LF(f64),
    /// never written (uninitialised local, `out` parameter before the first write)
    Undef,
}

#[derive(Clone, Debug)]
pub enum Value {
    Void,
    S(Sc),
    V(Vec<Sc>),
    Struct(Vec<Value>),
    Array(Vec<Value>),
}

/// Declared types as far as evaluation needs them. Enums are represented by their underlying scalar type.
#[derive(Clone, PartialEq, Eq, Debug, Hash)]
pub enum Ty {
    Void,
    S(ST),
    V(ST, usize),
    Struct(usize),
    Array(Box<Ty>, usize),
}

impl Ty {
    pub fn show(&self) -> String {
        match self {
            Ty::Void => "void".into(),
            Ty::S(s) => s.name().into(),
            Ty::V(s, n) => format!("{}{}", s.name(), n),
            Ty::Struct(i) => format!("struct#{}", i),
            Ty::Array(t, n) => format!("{}[{}]", t.show(), n),
        }
    }
    pub fn scalar(&self) -> Option<ST> {
        match self {
            Ty::S(s) | Ty::V(s, _) => Some(*s),
            _ => None,
        }
    }
}

/// Why an evaluation did not produce a result
#[derive(Clone, Debug, PartialEq)]
pub enum Stop {
    /// the program did something HLSL leaves unspecified for these inputs (S3): case skipped on both sides
    Unspec(&'static str),
    /// loop fuel exhausted: case skipped on both sides
    Fuel,
    /// C-side overload selection found no unique best candidate
    Ambiguous(String),
    /// construct outside the executable subset of the interpreter
    Unsupported(String),
    /// the program is not evaluable (unknown name, wrong arity, wrong shape): on the target side this is a finding
    Stuck(String),
}

pub type R<T> = Result<T, Stop>;

impl Sc {
    pub fn st(self) -> Option<ST> {
        Some(match self {
            Sc::B(_) => ST::Bool,
            Sc::I(_) => ST::Int,
            Sc::U(_) => ST::UInt,
            Sc::H(_) => ST::Half,
            Sc::F(_) => ST::Float,
            Sc::D(_) => ST::Double,
            Sc::LI(_) => ST::LitInt,
            Sc::LF(_) => ST::LitFloat,
            Sc::Undef => return None,
        })
    }
}

// ---------------------------------------------------------------------------------------------
// binary16

/// Round an f64 to the nearest binary16 value (ties to even), returned as f64 (exactly representable)
pub fn round_to_f16(x: f64) -> f64 {
    if x.is_nan() {
        return f64::NAN;
    }
    let a = x.abs();
    if a == 0.0 || a.is_infinite() {
        return x;
    }
    if a >= 65520.0 {
        return if x < 0.0 { f64::NEG_INFINITY } else { f64::INFINITY };
    }
    // exponent of a, clamped to the subnormal boundary
    let bits = a.to_bits();
    let mut e = ((bits >> 52) & 0x7ff) as i32 - 1023;
    if (bits >> 52) & 0x7ff == 0 {
        e = -1100; // f64 subnormal: far below half range
    }
    let e = e.max(-14);
    let q = (2.0f64).powi(e - 10);
    let n = (a / q).round_ties_even();
    let r = n * q;
    if x < 0.0 { -r } else { r }
}

pub fn f16_round32(x: f32) -> f32 {
    round_to_f16(x as f64) as f32
}

/// binary16 bit pattern of a value already on the binary16 grid (or any value: it is rounded first)
pub fn f16_bits(x: f64) -> u16 {
    let r = round_to_f16(x);
    let sign: u16 = if r.is_sign_negative() { 0x8000 } else { 0 };
    if r.is_nan() {
        return 0x7e00;
    }
    let a = r.abs();
    if a.is_infinite() {
        return sign | 0x7c00;
    }
    if a == 0.0 {
        return sign;
    }
    if a < (2.0f64).powi(-14) {
        let m = (a / (2.0f64).powi(-24)) as u16;
        return sign | m;
    }
    let e = ((a.to_bits() >> 52) & 0x7ff) as i32 - 1023;
    let m = (a / (2.0f64).powi(e - 10)) as u32 - 1024;
    sign | (((e + 15) as u16) << 10) | m as u16
}

pub fn f16_from_bits(h: u16) -> f32 {
    let sign = if h & 0x8000 != 0 { -1.0f64 } else { 1.0 };
    let e = ((h >> 10) & 0x1f) as i32;
    let m = (h & 0x3ff) as f64;
    let v = if e == 0 {
        m * (2.0f64).powi(-24)
    } else if e == 31 {
        if m == 0.0 { f64::INFINITY } else { f64::NAN }
    } else {
        (1024.0 + m) * (2.0f64).powi(e - 25)
    };
    (sign * v) as f32
}

// ---------------------------------------------------------------------------------------------
// conversions (S5, S6)

fn as_f64(s: Sc) -> Option<f64> {
    Some(match s {
        Sc::H(v) | Sc::F(v) => v as f64,
        Sc::D(v) | Sc::LF(v) => v,
        _ => return None,
    })
}

fn float_to_i32(v: f64) -> R<i32> {
    if v.is_nan() {
        return Err(Stop::Unspec("NaN converted to int"));
    }
    let t = v.trunc();
    if t < -2147483648.0 || t > 2147483647.0 {
        return Err(Stop::Unspec("float out of int range converted to int"));
    }
    Ok(t as i32)
}

fn float_to_u32(v: f64) -> R<u32> {
    if v.is_nan() {
        return Err(Stop::Unspec("NaN converted to uint"));
    }
    let t = v.trunc();
    if t < 0.0 || t > 4294967295.0 {
        return Err(Stop::Unspec("float out of uint range converted to uint"));
    }
    Ok(t as u32)
}

/// Convert a scalar to another scalar type. Conversions *to* a literal type of a non-literal value follow S6
/// (the literal type denotes int / float there).
pub fn conv(s: Sc, to: ST) -> R<Sc> {
    if s.st() == Some(to) {
        return Ok(s);
    }
    if let Sc::Undef = s {
        return Err(Stop::Unspec("read of an uninitialised value"));
    }
    Ok(match to {
        ST::Bool => Sc::B(match s {
            Sc::B(b) => b,
            Sc::I(v) => v != 0,
            Sc::U(v) => v != 0,
            Sc::LI(v) => v != 0,
            Sc::H(v) | Sc::F(v) => v != 0.0,
            Sc::D(v) | Sc::LF(v) => v != 0.0,
            Sc::Undef => unreachable!(),
        }),
        ST::Int => Sc::I(match s {
            Sc::B(b) => b as i32,
            Sc::I(v) => v,
            Sc::U(v) => v as i32,
            Sc::LI(v) => {
                if v < i32::MIN as i64 || v > u32::MAX as i64 {
                    return Err(Stop::Unspec("integer literal outside 32 bits"));
                }
                v as i32
            }
            _ => float_to_i32(as_f64(s).unwrap())?,
        }),
        ST::UInt => Sc::U(match s {
            Sc::B(b) => b as u32,
            Sc::I(v) => v as u32,
            Sc::U(v) => v,
            Sc::LI(v) => {
                if v < i32::MIN as i64 || v > u32::MAX as i64 {
                    return Err(Stop::Unspec("integer literal outside 32 bits"));
                }
                v as u32
            }
            _ => float_to_u32(as_f64(s).unwrap())?,
        }),
        ST::Half => Sc::H(match s {
            Sc::B(b) => b as i32 as f32,
            Sc::I(v) => round_to_f16(v as f64) as f32,
            Sc::U(v) => round_to_f16(v as f64) as f32,
            Sc::LI(v) => round_to_f16(v as f64) as f32,
            _ => round_to_f16(as_f64(s).unwrap()) as f32,
        }),
        ST::Float => Sc::F(match s {
            Sc::B(b) => b as i32 as f32,
            Sc::I(v) => v as f32,
            Sc::U(v) => v as f32,
            Sc::LI(v) => v as f32,
            _ => as_f64(s).unwrap() as f32,
        }),
        ST::Double => Sc::D(match s {
            Sc::B(b) => b as i32 as f64,
            Sc::I(v) => v as f64,
            Sc::U(v) => v as f64,
            Sc::LI(v) => v as f64,
            _ => as_f64(s).unwrap(),
        }),
        // S6: a run-time value given a literal type denotes int / float
        ST::LitInt => match s {
            Sc::LF(v) => {
                // literal float -> literal int (never generated by the typer for run-time values)
                Sc::LI(float_to_i32(v)? as i64)
            }
            _ => conv(s, ST::Int)?,
        },
        ST::LitFloat => match s {
            Sc::LI(v) => Sc::LF(v as f64),
            _ => conv(s, ST::Float)?,
        },
    })
}

/// the zero of a scalar type (value-initialisation)
pub fn zero_of(st: ST) -> Sc {
    match st {
        ST::Bool => Sc::B(false),
        ST::Int => Sc::I(0),
        ST::UInt => Sc::U(0),
        ST::Half => Sc::H(0.0),
        ST::Float => Sc::F(0.0),
        ST::Double => Sc::D(0.0),
        ST::LitInt => Sc::LI(0),
        ST::LitFloat => Sc::LF(0.0),
    }
}

/// Literal operands adapt to the other operand (both interpreters): returns operands of one common type when at
/// least one of them is a literal; otherwise returns them unchanged.
pub fn adapt_literals(a: Sc, b: Sc) -> R<(Sc, Sc)> {
    let (ta, tb) = match (a.st(), b.st()) {
        (Some(x), Some(y)) => (x, y),
        _ => return Err(Stop::Unspec("read of an uninitialised value")),
    };
    if ta == tb {
        return Ok((a, b));
    }
    let lit = |t: ST| matches!(t, ST::LitInt | ST::LitFloat);
    if !lit(ta) && !lit(tb) {
        return Ok((a, b));
    }
    let target = match (ta, tb) {
        (ST::LitInt, ST::LitFloat) | (ST::LitFloat, ST::LitInt) => ST::LitFloat,
        (ST::LitInt, ST::Bool) | (ST::Bool, ST::LitInt) => ST::Int,
        (ST::LitInt, o) | (o, ST::LitInt) => o,
        (ST::LitFloat, o) | (o, ST::LitFloat) => {
            if matches!(o, ST::Half | ST::Float | ST::Double) {
                o
            } else {
                ST::Float
            }
        }
        _ => unreachable!(),
    };
    Ok((conv(a, target)?, conv(b, target)?))
}

// ---------------------------------------------------------------------------------------------
// operators

#[derive(Clone, Copy, PartialEq, Eq, Debug, Hash)]
pub enum Bin {
    Add,
    Sub,
    Mul,
    Div,
    Mod,
    Shl,
    Shr,
    And,
    Or,
    Xor,
    Lt,
    Le,
    Gt,
    Ge,
    Eq,
    Ne,
    LAnd,
    LOr,
}

impl Bin {
    pub fn is_compare(self) -> bool {
        matches!(self, Bin::Lt | Bin::Le | Bin::Gt | Bin::Ge | Bin::Eq | Bin::Ne)
    }
    pub fn is_bitwise(self) -> bool {
        matches!(self, Bin::Shl | Bin::Shr | Bin::And | Bin::Or | Bin::Xor)
    }
}

#[derive(Clone, Copy, PartialEq, Eq, Debug, Hash)]
pub enum Un {
    Plus,
    Minus,
    LNot,
    BNot,
}

fn cmp<T: PartialOrd>(op: Bin, a: T, b: T) -> bool {
    match op {
        Bin::Lt => a < b,
        Bin::Le => a <= b,
        Bin::Gt => a > b,
        Bin::Ge => a >= b,
        Bin::Eq => a == b,
        Bin::Ne => a != b,
        _ => unreachable!(),
    }
}

fn float_arith(op: Bin, a: f64, b: f64) -> R<f64> {
    Ok(match op {
        Bin::Add => a + b,
        Bin::Sub => a - b,
        Bin::Mul => a * b,
        Bin::Div => a / b,
        Bin::Mod => a % b,
        _ => return Err(Stop::Stuck(format!("operator {:?} applied to floating point operands", op))),
    })
}

fn float32_arith(op: Bin, a: f32, b: f32) -> R<f32> {
    Ok(match op {
        Bin::Add => a + b,
        Bin::Sub => a - b,
        Bin::Mul => a * b,
        Bin::Div => a / b,
        Bin::Mod => a % b,
        _ => return Err(Stop::Stuck(format!("operator {:?} applied to floating point operands", op))),
    })
}

/// One binary operation on two scalars of the same type (after `adapt_literals` and the caller's conversions).
pub fn binop(op: Bin, a: Sc, b: Sc) -> R<Sc> {
    let (a, b) = adapt_literals(a, b)?;
    if op == Bin::LAnd || op == Bin::LOr {
        let (x, y) = match (conv(a, ST::Bool)?, conv(b, ST::Bool)?) {
            (Sc::B(x), Sc::B(y)) => (x, y),
            _ => unreachable!(),
        };
        return Ok(Sc::B(if op == Bin::LAnd { x && y } else { x || y }));
    }
    match (a, b) {
        (Sc::B(x), Sc::B(y)) => {
            if op.is_compare() {
                Ok(Sc::B(cmp(op, x, y)))
            } else {
                Err(Stop::Stuck(format!("operator {:?} applied to bool operands without promotion", op)))
            }
        }
        (Sc::I(x), Sc::I(y)) => {
            if op.is_compare() {
                return Ok(Sc::B(cmp(op, x, y)));
            }
            Ok(Sc::I(match op {
                Bin::Add => x.wrapping_add(y),
                Bin::Sub => x.wrapping_sub(y),
                Bin::Mul => x.wrapping_mul(y),
                Bin::Div | Bin::Mod => {
                    if y == 0 {
                        return Err(Stop::Unspec("integer division by zero"));
                    }
                    if x == i32::MIN && y == -1 {
                        return Err(Stop::Unspec("INT_MIN / -1"));
                    }
                    if op == Bin::Div { x / y } else { x % y }
                }
                Bin::Shl => ((x as u32) << (y as u32 & 31)) as i32,
                Bin::Shr => x >> (y as u32 & 31),
                Bin::And => x & y,
                Bin::Or => x | y,
                Bin::Xor => x ^ y,
                _ => unreachable!(),
            }))
        }
        (Sc::U(x), Sc::U(y)) => {
            if op.is_compare() {
                return Ok(Sc::B(cmp(op, x, y)));
            }
            Ok(Sc::U(match op {
                Bin::Add => x.wrapping_add(y),
                Bin::Sub => x.wrapping_sub(y),
                Bin::Mul => x.wrapping_mul(y),
                Bin::Div | Bin::Mod => {
                    if y == 0 {
                        return Err(Stop::Unspec("integer division by zero"));
                    }
                    if op == Bin::Div { x / y } else { x % y }
                }
                Bin::Shl => x << (y & 31),
                Bin::Shr => x >> (y & 31),
                Bin::And => x & y,
                Bin::Or => x | y,
                Bin::Xor => x ^ y,
                _ => unreachable!(),
            }))
        }
        (Sc::LI(x), Sc::LI(y)) => {
            if op.is_compare() {
                return Ok(Sc::B(cmp(op, x, y)));
            }
            let r: Option<i64> = match op {
                Bin::Add => x.checked_add(y),
                Bin::Sub => x.checked_sub(y),
                Bin::Mul => x.checked_mul(y),
                Bin::Div | Bin::Mod => {
                    if y == 0 {
                        return Err(Stop::Unspec("integer division by zero"));
                    }
                    if op == Bin::Div { x.checked_div(y) } else { x.checked_rem(y) }
                }
                Bin::Shl => {
                    if !(0..32).contains(&y) {
                        return Err(Stop::Unspec("literal shift count out of range"));
                    }
                    x.checked_mul(1i64 << y)
                }
                Bin::Shr => {
                    if !(0..32).contains(&y) || x < 0 {
                        return Err(Stop::Unspec("literal shift out of range"));
                    }
                    Some(x >> y)
                }
                Bin::And => Some(x & y),
                Bin::Or => Some(x | y),
                Bin::Xor => Some(x ^ y),
                _ => unreachable!(),
            };
            match r {
                Some(v) if v >= i32::MIN as i64 && v <= i32::MAX as i64 => Ok(Sc::LI(v)),
                _ => Err(Stop::Unspec("literal integer arithmetic leaves the 32-bit range")),
            }
        }
        (Sc::H(x), Sc::H(y)) => {
            if op.is_compare() {
                return Ok(Sc::B(cmp(op, x, y)));
            }
            Ok(Sc::H(f16_round32(float32_arith(op, x, y)?)))
        }
        (Sc::F(x), Sc::F(y)) => {
            if op.is_compare() {
                return Ok(Sc::B(cmp(op, x, y)));
            }
            Ok(Sc::F(float32_arith(op, x, y)?))
        }
        (Sc::D(x), Sc::D(y)) => {
            if op.is_compare() {
                return Ok(Sc::B(cmp(op, x, y)));
            }
            Ok(Sc::D(float_arith(op, x, y)?))
        }
        (Sc::LF(x), Sc::LF(y)) => {
            if op.is_compare() {
                return Ok(Sc::B(cmp(op, x, y)));
            }
            Ok(Sc::LF(float_arith(op, x, y)?))
        }
        (Sc::Undef, _) | (_, Sc::Undef) => Err(Stop::Unspec("read of an uninitialised value")),
        _ => Err(Stop::Stuck(format!("operator {:?} applied to operands of different types {:?} and {:?}", op, a.st(), b.st()))),
    }
}

pub fn unop(op: Un, a: Sc) -> R<Sc> {
    if let Sc::Undef = a {
        return Err(Stop::Unspec("read of an uninitialised value"));
    }
    match op {
        Un::Plus => Ok(a),
        Un::Minus => Ok(match a {
            Sc::I(v) => Sc::I(v.wrapping_neg()),
            Sc::U(v) => Sc::U(v.wrapping_neg()),
            Sc::LI(v) => {
                let r = -v;
                if r < i32::MIN as i64 || r > u32::MAX as i64 {
                    return Err(Stop::Unspec("literal integer arithmetic leaves the 32-bit range"));
                }
                Sc::LI(r)
            }
            Sc::H(v) => Sc::H(-v),
            Sc::F(v) => Sc::F(-v),
            Sc::D(v) => Sc::D(-v),
            Sc::LF(v) => Sc::LF(-v),
            Sc::B(_) => return Err(Stop::Unsupported("unary minus on bool".into())),
            Sc::Undef => unreachable!(),
        }),
        Un::LNot => match conv(a, ST::Bool)? {
            Sc::B(b) => Ok(Sc::B(!b)),
            _ => unreachable!(),
        },
        Un::BNot => Ok(match a {
            Sc::I(v) => Sc::I(!v),
            Sc::U(v) => Sc::U(!v),
            Sc::LI(v) => Sc::LI(!v),
            _ => return Err(Stop::Stuck(format!("~ applied to {:?}", a.st()))),
        }),
    }
}

/// x + 1 / x - 1 in the type of x (increment / decrement)
pub fn step(a: Sc, up: bool) -> R<Sc> {
    let one = match a {
        Sc::I(_) => Sc::I(1),
        Sc::U(_) => Sc::U(1),
        Sc::H(_) => Sc::H(1.0),
        Sc::F(_) => Sc::F(1.0),
        Sc::D(_) => Sc::D(1.0),
        Sc::Undef => return Err(Stop::Unspec("read of an uninitialised value")),
        _ => return Err(Stop::Stuck(format!("increment of {:?}", a.st()))),
    };
    binop(if up { Bin::Add } else { Bin::Sub }, a, one)
}

// ---------------------------------------------------------------------------------------------
// values

impl Value {
    pub fn scalars(&self) -> Option<&[Sc]> {
        match self {
            Value::S(s) => Some(std::slice::from_ref(s)),
            Value::V(v) => Some(v),
            _ => None,
        }
    }
    pub fn from_scalars(v: Vec<Sc>, vector: bool) -> Value {
        if !vector && v.len() == 1 { Value::S(v[0]) } else { Value::V(v) }
    }
    pub fn is_vector(&self) -> bool {
        matches!(self, Value::V(_))
    }
    /// scalar type of a numeric value (of the first defined component)
    pub fn st(&self) -> Option<ST> {
        self.scalars().and_then(|s| s.iter().find_map(|c| c.st()))
    }
}

/// Convert a value to a declared type: scalar conversion component-wise; scalar -> vector replicates; vector -> shorter
/// vector / scalar keeps the leading components.
pub fn convert_value(v: &Value, to: &Ty) -> R<Value> {
    match (v, to) {
        (Value::S(s), Ty::S(t)) => Ok(Value::S(conv(*s, *t)?)),
        (Value::S(s), Ty::V(t, n)) => {
            let c = conv(*s, *t)?;
            Ok(Value::V(vec![c; *n]))
        }
        (Value::V(xs), Ty::S(t)) => Ok(Value::S(conv(xs[0], *t)?)),
        (Value::V(xs), Ty::V(t, n)) => {
            if xs.len() == 1 {
                let c = conv(xs[0], *t)?;
                return Ok(Value::V(vec![c; *n]));
            }
            if xs.len() < *n {
                return Err(Stop::Stuck(format!("vector of {} components converted to {}", xs.len(), to.show())));
            }
            let mut out = Vec::with_capacity(*n);
            for x in &xs[..*n] {
                out.push(conv(*x, *t)?);
            }
            Ok(Value::V(out))
        }
        (Value::Struct(_), Ty::Struct(_)) => Ok(v.clone()),
        (Value::Array(xs), Ty::Array(t, n)) => {
            if xs.len() != *n {
                return Err(Stop::Stuck(format!("array of {} elements converted to {}", xs.len(), to.show())));
            }
            let mut out = Vec::with_capacity(*n);
            for x in xs {
                out.push(convert_value(x, t)?);
            }
            Ok(Value::Array(out))
        }
        (Value::Void, Ty::Void) => Ok(Value::Void),
        _ => Err(Stop::Stuck(format!("cannot convert {} to {}", show(v), to.show()))),
    }
}

/// Component-wise binary operation with scalar replication; vectors of different lengths keep the shorter length.
pub fn binop_value(op: Bin, a: &Value, b: &Value) -> R<Value> {
    let (xa, xb) = match (a.scalars(), b.scalars()) {
        (Some(x), Some(y)) => (x, y),
        _ => return Err(Stop::Stuck(format!("operator {:?} applied to non-numeric operands", op))),
    };
    let vector = a.is_vector() || b.is_vector();
    let n = if !a.is_vector() || (xa.len() == 1 && b.is_vector()) {
        xb.len()
    } else if !b.is_vector() || xb.len() == 1 {
        xa.len()
    } else {
        xa.len().min(xb.len())
    };
    let mut out = Vec::with_capacity(n);
    for i in 0..n {
        let x = if xa.len() == 1 { xa[0] } else { xa[i] };
        let y = if xb.len() == 1 { xb[0] } else { xb[i] };
        out.push(binop(op, x, y)?);
    }
    Ok(Value::from_scalars(out, vector))
}

pub fn unop_value(op: Un, a: &Value) -> R<Value> {
    let xa = a.scalars().ok_or_else(|| Stop::Stuck(format!("operator {:?} applied to a non-numeric operand", op)))?;
    let mut out = Vec::with_capacity(xa.len());
    for x in xa {
        out.push(unop(op, *x)?);
    }
    Ok(Value::from_scalars(out, a.is_vector()))
}

pub fn step_value(a: &Value, up: bool) -> R<Value> {
    let xa = a.scalars().ok_or_else(|| Stop::Stuck("increment of a non-numeric operand".into()))?;
    let mut out = Vec::with_capacity(xa.len());
    for x in xa {
        out.push(step(*x, up)?);
    }
    Ok(Value::from_scalars(out, a.is_vector()))
}

/// scalar truth value of a condition (vectors are not conditions)
pub fn truth(v: &Value) -> R<bool> {
    match v {
        Value::S(s) => match conv(*s, ST::Bool)? {
            Sc::B(b) => Ok(b),
            _ => unreachable!(),
        },
        Value::V(xs) if xs.len() == 1 => match conv(xs[0], ST::Bool)? {
            Sc::B(b) => Ok(b),
            _ => unreachable!(),
        },
        _ => Err(Stop::Stuck(format!("{} used as a condition", show(v)))),
    }
}

// ---------------------------------------------------------------------------------------------
// comparison and rendering

/// Bit-identical up to: NaN equals NaN (S10). +0 and -0 are different. Scalar kinds must agree.
pub fn same_sc(a: Sc, b: Sc) -> bool {
    fn feq32(x: f32, y: f32) -> bool {
        (x.is_nan() && y.is_nan()) || x.to_bits() == y.to_bits()
    }
    fn feq64(x: f64, y: f64) -> bool {
        (x.is_nan() && y.is_nan()) || x.to_bits() == y.to_bits()
    }
    match (a, b) {
        (Sc::B(x), Sc::B(y)) => x == y,
        (Sc::I(x), Sc::I(y)) => x == y,
        (Sc::U(x), Sc::U(y)) => x == y,
        (Sc::LI(x), Sc::LI(y)) => x == y,
        (Sc::H(x), Sc::H(y)) | (Sc::F(x), Sc::F(y)) => feq32(x, y),
        (Sc::D(x), Sc::D(y)) | (Sc::LF(x), Sc::LF(y)) => feq64(x, y),
        (Sc::Undef, Sc::Undef) => true,
        _ => false,
    }
}

pub fn same(a: &Value, b: &Value) -> bool {
    match (a, b) {
        (Value::Void, Value::Void) => true,
        (Value::S(x), Value::S(y)) => same_sc(*x, *y),
        (Value::V(x), Value::V(y)) => x.len() == y.len() && x.iter().zip(y.iter()).all(|(p, q)| same_sc(*p, *q)),
        (Value::Struct(x), Value::Struct(y)) | (Value::Array(x), Value::Array(y)) => x.len() == y.len() && x.iter().zip(y.iter()).all(|(p, q)| same(p, q)),
        _ => false,
    }
}

pub fn show_sc(s: Sc) -> String {
    match s {
        Sc::B(b) => format!("{}", b),
        Sc::I(v) => format!("{}", v),
        Sc::U(v) => format!("{}u", v),
        Sc::LI(v) => format!("{}(lit)", v),
        Sc::H(v) => format!("{:?}h", v),
        Sc::F(v) => format!("{:?}f", v),
        Sc::D(v) => format!("{:?}L", v),
        Sc::LF(v) => format!("{:?}(lit)", v),
        Sc::Undef => "undef".into(),
    }
}

pub fn show(v: &Value) -> String {
    let mut s = String::new();
    match v {
        Value::Void => s.push_str("void"),
        Value::S(x) => s.push_str(&show_sc(*x)),
        Value::V(xs) => {
            s.push('<');
            for (i, x) in xs.iter().enumerate() {
                if i > 0 {
                    s.push_str(", ");
                }
                s.push_str(&show_sc(*x));
            }
            s.push('>');
        }
        Value::Struct(xs) | Value::Array(xs) => {
            let (o, c) = if matches!(v, Value::Struct(_)) { ('{', '}') } else { ('[', ']') };
            s.push(o);
            for (i, x) in xs.iter().enumerate() {
                if i > 0 {
                    s.push_str(", ");
                }
                let _ = write!(s, "{}", show(x));
            }
            s.push(c);
        }
    }
    s
}

/// Parse the rendering produced by `show` for scalars and vectors (replay files)
pub fn parse_value(text: &str) -> Option<Value> {
    fn sc(t: &str) -> Option<Sc> {
        let t = t.trim();
        if t == "true" {
            return Some(Sc::B(true));
        }
        if t == "false" {
            return Some(Sc::B(false));
        }
        if t == "undef" {
            return Some(Sc::Undef);
        }
        let pf = |x: &str| -> Option<f64> {
            match x {
                "inf" => Some(f64::INFINITY),
                "-inf" => Some(f64::NEG_INFINITY),
                "NaN" => Some(f64::NAN),
                _ => x.parse::<f64>().ok(),
            }
        };
        if let Some(x) = t.strip_suffix("(lit)") {
            if let Ok(v) = x.parse::<i64>() {
                return Some(Sc::LI(v));
            }
            return pf(x).map(Sc::LF);
        }
        if let Some(x) = t.strip_suffix('u') {
            return x.parse::<u32>().ok().map(Sc::U);
        }
        if let Some(x) = t.strip_suffix('h') {
            return pf(x).map(|v| Sc::H(v as f32));
        }
        if let Some(x) = t.strip_suffix('L') {
            return pf(x).map(Sc::D);
        }
        if let Some(x) = t.strip_suffix('f') {
            if x != "in" {
                return match x {
                    "inf" | "-inf" | "NaN" => pf(x).map(|v| Sc::F(v as f32)),
                    _ => x.parse::<f32>().ok().map(Sc::F),
                };
            }
        }
        t.parse::<i32>().ok().map(Sc::I)
    }
    let t = text.trim();
    if let Some(inner) = t.strip_prefix('<').and_then(|x| x.strip_suffix('>')) {
        let mut v = Vec::new();
        for p in inner.split(',') {
            v.push(sc(p)?);
        }
        return Some(Value::V(v));
    }
    sc(t).map(Value::S)
}

// ---------------------------------------------------------------------------------------------
// storage paths (shared storage model of both interpreters)

/// One step from an object to a sub-object
#[derive(Clone, Debug, PartialEq)]
pub enum Step {
    Field(usize),
    /// array element or vector component
    Index(usize),
    /// vector components (also valid on a scalar with all slots 0)
    Swz(Vec<u8>),
}

/// append a step, composing it with a trailing swizzle
pub fn push_step(path: &mut Vec<Step>, s: Step) -> R<()> {
    if let Some(Step::Swz(prev)) = path.last() {
        match &s {
            Step::Swz(next) => {
                let mut c = Vec::new();
                for k in next {
                    c.push(*prev.get(*k as usize).ok_or_else(|| Stop::Stuck("swizzle component out of range".into()))?);
                }
                *path.last_mut().unwrap() = Step::Swz(c);
                return Ok(());
            }
            Step::Index(i) => {
                let k = *prev.get(*i).ok_or(Stop::Unspec("index out of bounds"))?;
                *path.last_mut().unwrap() = Step::Swz(vec![k]);
                return Ok(());
            }
            Step::Field(_) => return Err(Stop::Stuck("member of a swizzle".into())),
        }
    }
    path.push(s);
    Ok(())
}

pub fn read_path(root: &Value, path: &[Step]) -> R<Value> {
    let mut cur = root;
    let mut i = 0;
    while i < path.len() {
        match (&path[i], cur) {
            (Step::Field(k), Value::Struct(f)) => cur = f.get(*k).ok_or_else(|| Stop::Stuck("no such member".into()))?,
            (Step::Index(k), Value::Array(xs)) => cur = xs.get(*k).ok_or(Stop::Unspec("index out of bounds"))?,
            (Step::Index(k), Value::V(xs)) => return Ok(Value::S(*xs.get(*k).ok_or(Stop::Unspec("index out of bounds"))?)),
            (Step::Index(0), Value::S(s)) => return Ok(Value::S(*s)),
            (Step::Swz(sl), v) => {
                let sc = v.scalars().ok_or_else(|| Stop::Stuck("swizzle of a non-numeric value".into()))?;
                let mut out = Vec::new();
                for k in sl {
                    out.push(*sc.get(*k as usize).ok_or_else(|| Stop::Stuck("swizzle component out of range".into()))?);
                }
                if i + 1 != path.len() {
                    return Err(Stop::Stuck("path continues after a swizzle".into()));
                }
                return Ok(Value::from_scalars(out, sl.len() > 1));
            }
            (s, v) => return Err(Stop::Stuck(format!("step {:?} does not apply to {}", s, show(v)))),
        }
        i += 1;
    }
    Ok(cur.clone())
}

pub fn write_path(root: &mut Value, path: &[Step], v: Value) -> R<()> {
    let mut cur = root;
    let mut i = 0;
    while i < path.len() {
        let last = i + 1 == path.len();
        match &path[i] {
            Step::Field(k) => match cur {
                Value::Struct(f) => cur = f.get_mut(*k).ok_or_else(|| Stop::Stuck("no such member".into()))?,
                _ => return Err(Stop::Stuck("member of a non-struct".into())),
            },
            Step::Index(k) => match cur {
                Value::Array(xs) => cur = xs.get_mut(*k).ok_or(Stop::Unspec("index out of bounds"))?,
                Value::V(xs) => {
                    if !last {
                        return Err(Stop::Stuck("path continues after a vector component".into()));
                    }
                    let slot = xs.get_mut(*k).ok_or(Stop::Unspec("index out of bounds"))?;
                    *slot = match v {
                        Value::S(s) => s,
                        Value::V(ref s) if s.len() == 1 => s[0],
                        _ => return Err(Stop::Stuck("non-scalar stored into a vector component".into())),
                    };
                    return Ok(());
                }
                _ => return Err(Stop::Stuck("subscript of a non-array".into())),
            },
            Step::Swz(sl) => {
                if !last {
                    return Err(Stop::Stuck("path continues after a swizzle".into()));
                }
                let src: Vec<Sc> = v.scalars().ok_or_else(|| Stop::Stuck("non-numeric stored through a swizzle".into()))?.to_vec();
                if src.len() != sl.len() {
                    return Err(Stop::Stuck(format!("{} components stored through a swizzle of {}", src.len(), sl.len())));
                }
                match cur {
                    Value::S(s) => {
                        if sl.len() == 1 && sl[0] == 0 {
                            *s = src[0];
                        } else {
                            return Err(Stop::Stuck("wide swizzle store into a scalar".into()));
                        }
                    }
                    Value::V(xs) => {
                        for (k, c) in sl.iter().zip(src.iter()) {
                            *xs.get_mut(*k as usize).ok_or_else(|| Stop::Stuck("swizzle component out of range".into()))? = *c;
                        }
                    }
                    _ => return Err(Stop::Stuck("swizzle of a non-numeric value".into())),
                }
                return Ok(());
            }
        }
        i += 1;
    }
    *cur = v;
    Ok(())
}

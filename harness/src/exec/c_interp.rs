//! Interpreter for an `ast::Module` under C-like (HLSL 2021 / C++) rules with *dynamic typing*: the rssl type checker is
//! not used. Own name resolution (scopes, namespaces, struct members and methods, enums), literal typing by suffix, usual
//! arithmetic conversions, implicit conversions at initialisers / assignments / arguments / returns, overload selection
//! by exact match then by standard conversion (otherwise `Stop::Ambiguous`), copy-in/copy-out for out/inout parameters,
//! references (Metal dialect), braced initialisers with HLSL flattening.
//!
//! Every expression evaluates to a value together with its C type; the type of the arm of `?:` that is not evaluated is
//! obtained by evaluating it on a throw-away copy of the machine state.

use super::Outcome;
use super::builtins;
use super::values::*;
use rssl::ast;
use std::collections::HashMap;

#[derive(Clone, Copy, PartialEq, Eq, Debug)]
pub enum Dialect {
    Hlsl,
    Metal,
}

#[derive(Clone, Debug)]
enum Sym {
    Func(usize),
    Global(usize),
    Struct(usize),
    Enum(usize),
    EnumValue(usize, usize),
    Namespace(usize),
}

#[derive(Default)]
struct Scope {
    parent: Option<usize>,
    syms: HashMap<String, Vec<Sym>>,
}

struct StructInfo {
    name: String,
    scope: usize,
    fields: Vec<(String, Ty)>,
    methods: Vec<usize>,
}

struct EnumInfo {
    underlying: ST,
    values: Vec<(String, i64)>,
}

pub struct ParamInfo<'a> {
    pub name: String,
    pub ty: Ty,
    pub is_in: bool,
    pub is_out: bool,
    /// `T&` parameter (Metal dialect): binds the argument object itself
    pub by_ref: bool,
    default: Option<&'a ast::Expression>,
}

pub struct FuncInfo<'a> {
    pub name: String,
    scope: usize,
    owner: Option<usize>,
    pub params: Vec<ParamInfo<'a>>,
    pub ret: Ty,
    body: Option<&'a [ast::Statement]>,
    template_params: usize,
}

struct GlobalInfo<'a> {
    name: String,
    ty: Ty,
    is_static: bool,
    init: Option<&'a ast::Initializer>,
    scope: usize,
}

pub struct CProgram<'a> {
    pub dialect: Dialect,
    scopes: Vec<Scope>,
    structs: Vec<StructInfo>,
    enums: Vec<EnumInfo>,
    pub funcs: Vec<FuncInfo<'a>>,
    globals: Vec<GlobalInfo<'a>>,
    /// free functions with a body, in declaration order (namespaces flattened)
    pub functions: Vec<usize>,
    /// static globals in declaration order
    pub static_globals: Vec<usize>,
}

#[derive(Clone, Debug)]
enum Root {
    Local(usize, usize),
    Global(usize),
}

#[derive(Clone, Debug)]
struct Place {
    root: Root,
    path: Vec<Step>,
}

#[derive(Clone)]
enum Slot {
    Own(Ty, Value),
    Ref(Ty, Place),
}

#[derive(Clone, Default)]
struct Frame {
    scopes: Vec<HashMap<String, usize>>,
    slots: Vec<Slot>,
    this: Option<(Place, usize)>,
    /// namespace scope in which names of the running function are looked up
    ns: usize,
    /// declared return type of the running function
    ret: Option<Ty>,
}

enum Flow {
    Normal,
    Break,
    Continue,
    Return(Value),
}

struct Machine<'p, 'a> {
    p: &'p CProgram<'a>,
    globals: Vec<Option<Value>>,
    frames: Vec<Frame>,
    fuel: u64,
    trace: Vec<&'static str>,
    dry: u32,
    /// function-local statics initialised so far: declarator node -> slot of the object in the outermost frame
    statics: HashMap<usize, usize>,
}

fn stuck<T>(s: impl Into<String>) -> R<T> {
    Err(Stop::Stuck(s.into()))
}

pub fn builtin_type(name: &str) -> Option<Ty> {
    const SC: &[(&str, ST)] = &[
        ("bool", ST::Bool),
        ("int", ST::Int),
        ("uint", ST::UInt),
        ("dword", ST::UInt),
        ("half", ST::Half),
        ("float", ST::Float),
        ("double", ST::Double),
        ("int32_t", ST::Int),
        ("uint32_t", ST::UInt),
        ("float16_t", ST::Half),
        ("float32_t", ST::Float),
        ("float64_t", ST::Double),
    ];
    if name == "void" {
        return Some(Ty::Void);
    }
    for (n, st) in SC {
        if let Some(rest) = name.strip_prefix(n) {
            if rest.is_empty() {
                return Some(Ty::S(*st));
            }
            if rest.len() == 1 {
                let d = rest.as_bytes()[0];
                if (b'1'..=b'4').contains(&d) {
                    return Some(Ty::V(*st, (d - b'0') as usize));
                }
            }
        }
    }
    None
}

/// usual arithmetic conversions (C++ [expr.arith.conv] restricted to HLSL's scalar types; bool promotes to int; an
/// unsuffixed literal takes the type of the other operand, a floating literal against an integer gives float)
fn arith_type(a: ST, b: ST) -> ST {
    use ST::*;
    if a == Double || b == Double {
        return Double;
    }
    if a == Float || b == Float {
        return Float;
    }
    if a == Half || b == Half {
        return Half;
    }
    if a == LitFloat || b == LitFloat {
        let lit = |t: ST| t == LitFloat || t == LitInt;
        return if lit(a) && lit(b) { LitFloat } else { Float };
    }
    if a == UInt || b == UInt {
        return UInt;
    }
    if a == LitInt && b == LitInt {
        return LitInt;
    }
    Int
}

/// integral promotion of a single operand
fn promote(a: ST) -> ST {
    if a == ST::Bool { ST::Int } else { a }
}

fn numeric_shape(t: &Ty) -> Option<(ST, usize, bool)> {
    match t {
        Ty::S(s) => Some((*s, 1, false)),
        Ty::V(s, n) => Some((*s, *n, true)),
        _ => None,
    }
}

fn shaped(st: ST, n: usize, vector: bool) -> Ty {
    if vector { Ty::V(st, n) } else { Ty::S(st) }
}

/// result dimension of a component-wise binary operation
fn join_dims(a: (usize, bool), b: (usize, bool)) -> (usize, bool) {
    match (a.1, b.1) {
        (false, false) => (1, false),
        (true, false) => a,
        (false, true) => b,
        (true, true) => {
            if a.0 == 1 {
                b
            } else if b.0 == 1 {
                a
            } else {
                (a.0.min(b.0), true)
            }
        }
    }
}

fn swizzle_slots(name: &str) -> Option<Vec<u8>> {
    if name.is_empty() || name.len() > 4 {
        return None;
    }
    let set = |c: char, s: &str| s.find(c).map(|i| i as u8);
    let mut out = Vec::new();
    let xyzw = name.chars().all(|c| "xyzw".contains(c));
    let rgba = name.chars().all(|c| "rgba".contains(c));
    if !xyzw && !rgba {
        return None;
    }
    for c in name.chars() {
        out.push(set(c, if xyzw { "xyzw" } else { "rgba" })?);
    }
    Some(out)
}

struct Decl<'a> {
    name: Option<&'a ast::ScopedIdentifier>,
    /// array sizes, outermost first
    dims: Vec<Option<&'a ast::Expression>>,
    reference: bool,
}

fn flatten_declarator<'a>(d: &'a ast::Declarator, out: &mut Decl<'a>) -> R<()> {
    match d {
        ast::Declarator::Empty => Ok(()),
        ast::Declarator::Identifier(id, _) => {
            out.name = Some(id);
            Ok(())
        }
        ast::Declarator::Array(a) => {
            flatten_declarator(&a.inner, out)?;
            out.dims.push(a.array_size.as_ref().map(|e| &e.node));
            Ok(())
        }
        ast::Declarator::Reference(r) => {
            out.reference = true;
            flatten_declarator(&r.inner, out)
        }
        ast::Declarator::Pointer(_) => Err(Stop::Unsupported("pointer declarator".into())),
    }
}

impl<'a> CProgram<'a> {
    pub fn new(m: &'a ast::Module, dialect: Dialect) -> R<CProgram<'a>> {
        let mut p = CProgram { dialect, scopes: vec![Scope::default()], structs: Vec::new(), enums: Vec::new(), funcs: Vec::new(), globals: Vec::new(), functions: Vec::new(), static_globals: Vec::new() };
        if dialect == Dialect::Metal {
            // metal::true_type (tag type of the out-parameter trampolines)
            let ns = p.scopes.len();
            p.scopes.push(Scope { parent: Some(0), syms: HashMap::new() });
            p.add_sym(0, "metal", Sym::Namespace(ns));
            let idx = p.structs.len();
            p.structs.push(StructInfo { name: "true_type".into(), scope: ns, fields: Vec::new(), methods: Vec::new() });
            p.add_sym(ns, "true_type", Sym::Struct(idx));
        }
        p.declare_all(&m.root_definitions, 0)?;
        Ok(p)
    }

    fn add_sym(&mut self, scope: usize, name: &str, s: Sym) {
        self.scopes[scope].syms.entry(name.to_string()).or_default().push(s);
    }

    fn declare_all(&mut self, defs: &'a [ast::RootDefinition], scope: usize) -> R<()> {
        for d in defs {
            match d {
                ast::RootDefinition::Struct(sd) => {
                    if !sd.template_params.0.is_empty() || !sd.base_types.is_empty() {
                        return Err(Stop::Unsupported("struct template / base types".into()));
                    }
                    let idx = self.structs.len();
                    self.structs.push(StructInfo { name: sd.name.node.clone(), scope, fields: Vec::new(), methods: Vec::new() });
                    self.add_sym(scope, &sd.name.node, Sym::Struct(idx));
                    for mem in &sd.members {
                        match mem {
                            ast::StructEntry::Variable(v) => {
                                for def in &v.defs {
                                    let (name, ty, _) = self.declared(&v.ty, &def.declarator, scope)?;
                                    self.structs[idx].fields.push((name, ty));
                                }
                            }
                            ast::StructEntry::Method(f) => {
                                let fi = self.function(f, scope, Some(idx))?;
                                self.structs[idx].methods.push(fi);
                            }
                        }
                    }
                }
                ast::RootDefinition::Enum(ed) => {
                    let idx = self.enums.len();
                    let mut values: Vec<(String, i64)> = Vec::new();
                    let mut next = 0i64;
                    for v in &ed.values {
                        let val = match &v.value {
                            Some(e) => self.const_int(&e.node, scope, Some(&values))?,
                            None => next,
                        };
                        next = val + 1;
                        values.push((v.name.node.clone(), val));
                    }
                    // unscoped enumeration without a fixed type: int if every value fits, otherwise unsigned
                    let fits_int = values.iter().all(|(_, v)| *v >= i32::MIN as i64 && *v <= i32::MAX as i64);
                    let underlying = if fits_int { ST::Int } else { ST::UInt };
                    self.enums.push(EnumInfo { underlying, values: values.clone() });
                    self.add_sym(scope, &ed.name.node, Sym::Enum(idx));
                    for (k, (name, _)) in values.iter().enumerate() {
                        self.add_sym(scope, name, Sym::EnumValue(idx, k));
                    }
                }
                ast::RootDefinition::GlobalVariable(g) => {
                    let mods: Vec<ast::TypeModifier> = g.global_type.modifiers.modifiers.iter().map(|m| m.node).collect();
                    // Metal: program-scope `constant` objects play the role of HLSL's static const globals
                    let is_static = mods.contains(&ast::TypeModifier::Static) || mods.contains(&ast::TypeModifier::AddressSpace(ast::AddressSpace::Constant));
                    for def in &g.defs {
                        let (name, ty, _) = self.declared(&g.global_type, &def.declarator, scope)?;
                        let idx = self.globals.len();
                        self.globals.push(GlobalInfo { name: name.clone(), ty, is_static, init: def.init.as_ref(), scope });
                        self.add_sym(scope, &name, Sym::Global(idx));
                        if is_static {
                            self.static_globals.push(idx);
                        }
                    }
                }
                ast::RootDefinition::Function(f) => {
                    let fi = self.function(f, scope, None)?;
                    self.add_sym(scope, &f.name.node, Sym::Func(fi));
                    if f.body.is_some() {
                        self.functions.push(fi);
                    }
                }
                ast::RootDefinition::Namespace(name, inner) => {
                    let existing = self.scopes[scope].syms.get(&name.node).and_then(|v| {
                        v.iter().find_map(|s| match s {
                            Sym::Namespace(i) => Some(*i),
                            _ => None,
                        })
                    });
                    let ns = match existing {
                        Some(i) => i,
                        None => {
                            let i = self.scopes.len();
                            self.scopes.push(Scope { parent: Some(scope), syms: HashMap::new() });
                            self.add_sym(scope, &name.node, Sym::Namespace(i));
                            i
                        }
                    };
                    self.declare_all(inner, ns)?;
                }
                ast::RootDefinition::Typedef(_) => return Err(Stop::Unsupported("typedef".into())),
                ast::RootDefinition::ConstantBuffer(_) => return Err(Stop::Unsupported("cbuffer".into())),
                ast::RootDefinition::Pipeline(_) => {}
            }
        }
        Ok(())
    }

    fn function(&mut self, f: &'a ast::FunctionDefinition, scope: usize, owner: Option<usize>) -> R<usize> {
        let mut params = Vec::new();
        for prm in &f.params {
            let (name, ty, by_ref) = self.declared(&prm.param_type, &prm.declarator, scope)?;
            let mods: Vec<ast::TypeModifier> = prm.param_type.modifiers.modifiers.iter().map(|m| m.node).collect();
            let (is_in, is_out) = if mods.contains(&ast::TypeModifier::InOut) {
                (true, true)
            } else if mods.contains(&ast::TypeModifier::Out) {
                (false, true)
            } else {
                (true, false)
            };
            params.push(ParamInfo { name, ty, is_in, is_out, by_ref, default: prm.default_expr.as_ref() });
        }
        let ret = self.resolve_type(&f.returntype.return_type, scope)?;
        self.funcs.push(FuncInfo { name: f.name.node.clone(), scope, owner, params, ret, body: f.body.as_deref(), template_params: f.template_params.0.len() });
        Ok(self.funcs.len() - 1)
    }

    /// (name, type, is_reference) of a declaration `T declarator`
    fn declared(&self, t: &ast::Type, d: &ast::Declarator, scope: usize) -> R<(String, Ty, bool)> {
        let mut decl = Decl { name: None, dims: Vec::new(), reference: false };
        flatten_declarator(d, &mut decl)?;
        let mut ty = self.resolve_type(t, scope)?;
        // `T a[3][2]`: dims collected innermost-declarator first = leftmost subscript first
        for dim in decl.dims.iter().rev() {
            let n = match dim {
                Some(e) => self.const_int(e, scope, None)?,
                None => return Err(Stop::Unsupported("array without size".into())),
            };
            if n <= 0 || n > 64 {
                return Err(Stop::Unsupported("array size".into()));
            }
            ty = Ty::Array(Box::new(ty), n as usize);
        }
        let name = match decl.name {
            Some(id) => id.identifiers.last().map(|l| l.node.clone()).unwrap_or_default(),
            None => String::new(),
        };
        Ok((name, ty, decl.reference))
    }

    fn resolve_type(&self, t: &ast::Type, scope: usize) -> R<Ty> {
        let id = &t.layout.0;
        if id.identifiers.len() == 1 && id.base == ast::ScopedIdentifierBase::Relative {
            let name = id.identifiers[0].node.as_str();
            if t.layout.1.is_empty() {
                if let Some(b) = builtin_type(name) {
                    return Ok(b);
                }
            } else if name == "vector" && t.layout.1.len() == 2 {
                if let (ast::ExpressionOrType::Type(inner), ast::ExpressionOrType::Expression(n)) = (&t.layout.1[0], &t.layout.1[1]) {
                    if let Ty::S(st) = self.resolve_type(&inner.base, scope)? {
                        let n = self.const_int(&n.node, scope, None)?;
                        if (1..=4).contains(&n) {
                            return Ok(Ty::V(st, n as usize));
                        }
                    }
                }
                return Err(Stop::Unsupported("vector<> form".into()));
            }
        }
        if !t.layout.1.is_empty() {
            return Err(Stop::Unsupported(format!("templated type {}", id)));
        }
        match self.lookup(id, scope) {
            Some(syms) => {
                for s in syms {
                    match s {
                        Sym::Struct(i) => return Ok(Ty::Struct(*i)),
                        Sym::Enum(i) => return Ok(Ty::S(self.enums[*i].underlying)),
                        _ => {}
                    }
                }
                stuck(format!("{} does not name a type", id))
            }
            None => stuck(format!("unknown type name {}", id)),
        }
    }

    fn resolve_type_id(&self, t: &ast::TypeId, scope: usize) -> R<Ty> {
        let (_, ty, _) = self.declared(&t.base, &t.abstract_declarator, scope)?;
        Ok(ty)
    }

    /// symbols named by a (possibly qualified) identifier, searched outward from `scope`
    fn lookup(&self, id: &ast::ScopedIdentifier, scope: usize) -> Option<&Vec<Sym>> {
        let (first, rest) = id.identifiers.split_first()?;
        let mut s = if id.base == ast::ScopedIdentifierBase::Absolute { 0 } else { scope };
        let found = loop {
            if let Some(v) = self.scopes[s].syms.get(&first.node) {
                break v;
            }
            match self.scopes[s].parent {
                Some(p) if id.base != ast::ScopedIdentifierBase::Absolute => s = p,
                _ => return None,
            }
        };
        let mut cur = found;
        for part in rest {
            // descend through a namespace or an enum
            let mut next = None;
            for sym in cur {
                match sym {
                    Sym::Namespace(ns) => {
                        if let Some(v) = self.scopes[*ns].syms.get(&part.node) {
                            next = Some(v);
                        }
                    }
                    Sym::Enum(_) => {
                        // E::V : the enumerators live in the scope that declares the enum
                        // (found by searching the same scope the enum was found in)
                        for sc in &self.scopes {
                            if let Some(v) = sc.syms.get(&part.node) {
                                if v.iter().any(|x| matches!((x, sym), (Sym::EnumValue(e, _), Sym::Enum(e2)) if e == e2)) {
                                    next = Some(v);
                                }
                            }
                        }
                    }
                    _ => {}
                }
            }
            cur = next?;
        }
        Some(cur)
    }

    /// integer constant expression (array sizes, enumerator values, case labels)
    fn const_int(&self, e: &ast::Expression, scope: usize, enumerators: Option<&Vec<(String, i64)>>) -> R<i64> {
        Ok(match e {
            ast::Expression::Literal(ast::Literal::IntUntyped(v)) | ast::Expression::Literal(ast::Literal::IntUnsigned32(v)) => {
                if *v > i64::MAX as u64 {
                    return Err(Stop::Unsupported("integer literal beyond 63 bits".into()));
                }
                *v as i64
            }
            ast::Expression::Literal(ast::Literal::Bool(b)) => *b as i64,
            ast::Expression::UnaryOperation(ast::UnaryOp::Minus, a) => -self.const_int(&a.node, scope, enumerators)?,
            ast::Expression::UnaryOperation(ast::UnaryOp::Plus, a) => self.const_int(&a.node, scope, enumerators)?,
            ast::Expression::Cast(_, a) => self.const_int(&a.node, scope, enumerators)?,
            ast::Expression::Identifier(id) => {
                if let (Some(list), Some(n)) = (enumerators, id.try_trivial()) {
                    if let Some((_, v)) = list.iter().find(|(k, _)| *k == n.node) {
                        return Ok(*v);
                    }
                }
                match self.lookup(id, scope) {
                    Some(syms) => {
                        for s in syms {
                            match s {
                                Sym::EnumValue(e, k) => return Ok(self.enums[*e].values[*k].1),
                                Sym::Global(g) => {
                                    if let Some(ast::Initializer::Expression(init)) = self.globals[*g].init {
                                        return self.const_int(&init.node, self.globals[*g].scope, None);
                                    }
                                }
                                _ => {}
                            }
                        }
                        return Err(Stop::Unsupported(format!("constant expression names {}", id)));
                    }
                    None => return stuck(format!("unknown name {} in a constant expression", id)),
                }
            }
            ast::Expression::BinaryOperation(op, a, b) => {
                let x = self.const_int(&a.node, scope, enumerators)?;
                let y = self.const_int(&b.node, scope, enumerators)?;
                match op {
                    ast::BinOp::Add => x.wrapping_add(y),
                    ast::BinOp::Subtract => x.wrapping_sub(y),
                    ast::BinOp::Multiply => x.wrapping_mul(y),
                    ast::BinOp::LeftShift if (0..32).contains(&y) => x << y,
                    ast::BinOp::BitwiseOr => x | y,
                    ast::BinOp::BitwiseAnd => x & y,
                    _ => return Err(Stop::Unsupported("operator in a constant expression".into())),
                }
            }
            _ => return Err(Stop::Unsupported("form of constant expression".into())),
        })
    }

    pub fn default_value(&self, t: &Ty) -> Value {
        match t {
            Ty::Void => Value::Void,
            Ty::S(_) => Value::S(Sc::Undef),
            Ty::V(_, n) => Value::V(vec![Sc::Undef; *n]),
            Ty::Struct(i) => Value::Struct(self.structs[*i].fields.iter().map(|(_, t)| self.default_value(t)).collect()),
            Ty::Array(e, n) => Value::Array(vec![self.default_value(e); *n]),
        }
    }

    pub fn function_name(&self, idx: usize) -> &str {
        &self.funcs[self.functions[idx]].name
    }

    pub fn params(&self, idx: usize) -> Vec<(Ty, bool, bool)> {
        self.funcs[self.functions[idx]].params.iter().map(|p| (p.ty.clone(), p.is_in, p.is_out)).collect()
    }

    pub fn return_type(&self, idx: usize) -> Ty {
        self.funcs[self.functions[idx]].ret.clone()
    }

    /// Evaluate free function number `idx` (declaration order) on `args`.
    pub fn run(&self, idx: usize, args: &[Value], fuel: u64) -> R<Outcome> {
        let (o, _) = self.run_function(self.functions[idx], args, fuel)?;
        Ok(o)
    }

    /// index (into `funcs`) of the free function with a body called `name` that has the fewest parameters
    pub fn find_function(&self, name: &str) -> Option<usize> {
        self.functions.iter().copied().filter(|f| self.funcs[*f].name == name).min_by_key(|f| self.funcs[*f].params.len())
    }

    pub fn static_global_names(&self) -> Vec<&str> {
        self.static_globals.iter().map(|g| self.globals[*g].name.as_str()).collect()
    }

    /// Evaluate function `fi` (index into `funcs`). Reference parameters (`T&`) are bound to fresh objects holding the
    /// given argument; the second result holds the final value of every out / reference parameter (None for plain inputs).
    pub fn run_function(&self, fi: usize, args: &[Value], fuel: u64) -> R<(Outcome, Vec<Option<Value>>)> {
        let mut m = Machine { p: self, globals: vec![None; self.globals.len()], frames: vec![Frame::default()], fuel, trace: Vec::new(), dry: 0, statics: HashMap::new() };
        for g in &self.static_globals {
            m.init_global(*g)?;
        }
        let f = &self.funcs[fi];
        if f.params.len() != args.len() {
            return stuck(format!("{} arguments for {} parameters", args.len(), f.params.len()));
        }
        let mut frame = Frame { ns: f.scope, ret: Some(f.ret.clone()), ..Frame::default() };
        frame.scopes.push(HashMap::new());
        let mut ref_slots: Vec<Option<usize>> = Vec::new();
        for (prm, a) in f.params.iter().zip(args.iter()) {
            let undef = matches!(a, Value::Void);
            let v = if prm.is_in && !undef { convert_value(a, &prm.ty)? } else { self.default_value(&prm.ty) };
            if prm.by_ref {
                // the object lives in the outermost frame, the parameter is bound to it
                m.frames[0].slots.push(Slot::Own(prm.ty.clone(), v));
                let slot = m.frames[0].slots.len() - 1;
                ref_slots.push(Some(slot));
                frame.slots.push(Slot::Ref(prm.ty.clone(), Place { root: Root::Local(0, slot), path: Vec::new() }));
            } else {
                ref_slots.push(None);
                frame.slots.push(Slot::Own(prm.ty.clone(), v));
            }
            frame.scopes[0].insert(prm.name.clone(), frame.slots.len() - 1);
        }
        m.frames.push(frame);
        let body = f.body.ok_or_else(|| Stop::Unsupported("function without body".into()))?;
        let ret = match m.block(body)? {
            Flow::Return(v) => v,
            _ => Value::Void,
        };
        let ret = m.return_value(ret, &f.ret)?;
        let frame = m.frames.pop().unwrap();
        let mut outs = Vec::new();
        let mut finals: Vec<Option<Value>> = Vec::new();
        for (i, prm) in f.params.iter().enumerate() {
            let v = match (&frame.slots[i], ref_slots[i]) {
                (_, Some(slot)) => match &m.frames[0].slots[slot] {
                    Slot::Own(_, v) => Some(v.clone()),
                    Slot::Ref(..) => None,
                },
                (Slot::Own(_, v), None) if prm.is_out => Some(v.clone()),
                _ => None,
            };
            if prm.is_out && !prm.by_ref {
                outs.push((i, v.clone().unwrap_or(Value::Void)));
            }
            finals.push(v);
        }
        let mut globals = Vec::new();
        for g in &self.static_globals {
            globals.push(m.globals[*g].clone().unwrap_or(Value::Void));
        }
        Ok((Outcome { ret, outs, globals, builtin_trace: m.trace }, finals))
    }
}

enum Item {
    Val(Value, Ty),
    List(Vec<Item>),
}

enum Named {
    Var(Place, Ty),
    Value(Value, Ty),
    Funcs(Vec<usize>),
    Methods(Vec<usize>),
    Type(Ty),
}

fn is_assign(op: &ast::BinOp) -> Option<Option<Bin>> {
    use ast::BinOp as B;
    Some(match op {
        B::Assignment => None,
        B::SumAssignment => Some(Bin::Add),
        B::DifferenceAssignment => Some(Bin::Sub),
        B::ProductAssignment => Some(Bin::Mul),
        B::QuotientAssignment => Some(Bin::Div),
        B::RemainderAssignment => Some(Bin::Mod),
        B::LeftShiftAssignment => Some(Bin::Shl),
        B::RightShiftAssignment => Some(Bin::Shr),
        B::BitwiseAndAssignment => Some(Bin::And),
        B::BitwiseOrAssignment => Some(Bin::Or),
        B::BitwiseXorAssignment => Some(Bin::Xor),
        _ => return None,
    })
}

fn value_op(op: &ast::BinOp) -> Option<Bin> {
    use ast::BinOp as B;
    Some(match op {
        B::Add => Bin::Add,
        B::Subtract => Bin::Sub,
        B::Multiply => Bin::Mul,
        B::Divide => Bin::Div,
        B::Modulus => Bin::Mod,
        B::LeftShift => Bin::Shl,
        B::RightShift => Bin::Shr,
        B::BitwiseAnd => Bin::And,
        B::BitwiseOr => Bin::Or,
        B::BitwiseXor => Bin::Xor,
        B::LessThan => Bin::Lt,
        B::LessEqual => Bin::Le,
        B::GreaterThan => Bin::Gt,
        B::GreaterEqual => Bin::Ge,
        B::Equality => Bin::Eq,
        B::Inequality => Bin::Ne,
        _ => return None,
    })
}

impl<'p, 'a> Machine<'p, 'a> {
    fn burn(&mut self) -> R<()> {
        if self.fuel == 0 {
            return Err(Stop::Fuel);
        }
        self.fuel -= 1;
        Ok(())
    }

    fn cur(&self) -> usize {
        self.frames.len() - 1
    }

    fn init_global(&mut self, g: usize) -> R<()> {
        if self.globals[g].is_some() {
            return Ok(());
        }
        let info = &self.p.globals[g];
        if !info.is_static {
            return Err(Stop::Unsupported("non-static global".into()));
        }
        let ty = info.ty.clone();
        let v = match info.init {
            None => self.p.default_value(&ty),
            Some(init) => {
                // initialisers are evaluated in the scope of the declaration
                self.frames.push(Frame { ns: info.scope, ..Frame::default() });
                let r = self.initializer(&ty, init);
                self.frames.pop();
                r?
            }
        };
        self.globals[g] = Some(v);
        Ok(())
    }

    // ---- storage

    fn resolve_root(&self, pl: &Place) -> R<Place> {
        // follow reference slots
        let mut p = pl.clone();
        let mut guard = 0;
        loop {
            match &p.root {
                Root::Local(f, s) => match &self.frames[*f].slots[*s] {
                    Slot::Ref(_, target) => {
                        let mut t = target.clone();
                        for st in &p.path {
                            push_step(&mut t.path, st.clone())?;
                        }
                        p = t;
                        guard += 1;
                        if guard > 16 {
                            return stuck("reference cycle");
                        }
                    }
                    Slot::Own(..) => return Ok(p),
                },
                Root::Global(_) => return Ok(p),
            }
        }
    }

    fn read(&self, pl: &Place) -> R<Value> {
        let p = self.resolve_root(pl)?;
        match &p.root {
            Root::Local(f, s) => match &self.frames[*f].slots[*s] {
                Slot::Own(_, v) => read_path(v, &p.path),
                Slot::Ref(..) => unreachable!(),
            },
            Root::Global(g) => read_path(self.globals[*g].as_ref().ok_or_else(|| Stop::Stuck("global read before initialisation".into()))?, &p.path),
        }
    }

    fn write(&mut self, pl: &Place, v: Value) -> R<()> {
        let p = self.resolve_root(pl)?;
        match &p.root {
            Root::Local(f, s) => match &mut self.frames[*f].slots[*s] {
                Slot::Own(_, root) => write_path(root, &p.path, v),
                Slot::Ref(..) => unreachable!(),
            },
            Root::Global(g) => write_path(self.globals[*g].as_mut().ok_or_else(|| Stop::Stuck("global written before initialisation".into()))?, &p.path, v),
        }
    }

    fn temp(&mut self, v: Value, t: Ty) -> Place {
        let f = self.cur();
        self.frames[f].slots.push(Slot::Own(t, v));
        Place { root: Root::Local(f, self.frames[f].slots.len() - 1), path: Vec::new() }
    }

    fn declare(&mut self, name: &str, t: Ty, v: Value) {
        let f = self.cur();
        self.frames[f].slots.push(Slot::Own(t, v));
        let idx = self.frames[f].slots.len() - 1;
        if self.frames[f].scopes.is_empty() {
            self.frames[f].scopes.push(HashMap::new());
        }
        self.frames[f].scopes.last_mut().unwrap().insert(name.to_string(), idx);
    }

    // ---- names

    fn named(&mut self, id: &ast::ScopedIdentifier) -> R<Named> {
        let f = self.cur();
        if let Some(n) = id.try_trivial() {
            // locals, innermost scope first
            for sc in self.frames[f].scopes.iter().rev() {
                if let Some(slot) = sc.get(&n.node) {
                    let t = match &self.frames[f].slots[*slot] {
                        Slot::Own(t, _) | Slot::Ref(t, _) => t.clone(),
                    };
                    return Ok(Named::Var(Place { root: Root::Local(f, *slot), path: Vec::new() }, t));
                }
            }
            // members of the object a method runs on
            if let Some((this, si)) = self.frames[f].this.clone() {
                let info = &self.p.structs[si];
                if let Some(k) = info.fields.iter().position(|(fname, _)| *fname == n.node) {
                    let mut p = this;
                    push_step(&mut p.path, Step::Field(k))?;
                    return Ok(Named::Var(p, info.fields[k].1.clone()));
                }
                let ms: Vec<usize> = info.methods.iter().copied().filter(|m| self.p.funcs[*m].name == n.node).collect();
                if !ms.is_empty() {
                    return Ok(Named::Methods(ms));
                }
            }
            if let Some(t) = builtin_type(&n.node) {
                // a user symbol of the same name would have to be declared; built-in type names are reserved
                return Ok(Named::Type(t));
            }
        }
        let ns = self.frames[f].ns;
        let syms = match self.p.lookup(id, ns) {
            Some(s) => s.clone(),
            None => return stuck(format!("unknown identifier {}", id)),
        };
        let mut funcs = Vec::new();
        for s in &syms {
            match s {
                Sym::Func(i) => funcs.push(*i),
                Sym::Global(g) => {
                    self.init_global(*g)?;
                    return Ok(Named::Var(Place { root: Root::Global(*g), path: Vec::new() }, self.p.globals[*g].ty.clone()));
                }
                Sym::EnumValue(e, k) => {
                    let info = &self.p.enums[*e];
                    let v = info.values[*k].1;
                    let sc = conv(Sc::LI(v), info.underlying)?;
                    return Ok(Named::Value(Value::S(sc), Ty::S(info.underlying)));
                }
                Sym::Struct(i) => return Ok(Named::Type(Ty::Struct(*i))),
                Sym::Enum(i) => return Ok(Named::Type(Ty::S(self.p.enums[*i].underlying))),
                Sym::Namespace(_) => {}
            }
        }
        if !funcs.is_empty() {
            return Ok(Named::Funcs(funcs));
        }
        stuck(format!("{} is not a value", id))
    }

    // ---- expressions

    fn literal(&self, l: &ast::Literal) -> R<(Value, Ty)> {
        let sc = match l {
            ast::Literal::Bool(b) => Sc::B(*b),
            ast::Literal::IntUntyped(v) => {
                if *v > i64::MAX as u64 {
                    return Err(Stop::Unsupported("integer literal beyond 63 bits".into()));
                }
                Sc::LI(*v as i64)
            }
            ast::Literal::IntUnsigned32(v) => {
                if *v > u32::MAX as u64 {
                    return Err(Stop::Unspec("unsigned literal beyond 32 bits"));
                }
                Sc::U(*v as u32)
            }
            ast::Literal::IntUnsigned64(_) | ast::Literal::IntSigned64(_) => return Err(Stop::Unsupported("64-bit integer literal".into())),
            ast::Literal::FloatUntyped(v) => Sc::LF(*v),
            ast::Literal::Float16(v) => Sc::H(f16_round32(*v)),
            ast::Literal::Float32(v) => Sc::F(*v),
            ast::Literal::Float64(v) => Sc::D(*v),
            ast::Literal::String(_) => return Err(Stop::Unsupported("string literal".into())),
        };
        Ok((Value::S(sc), Ty::S(sc.st().unwrap())))
    }

    fn is_lvalue_form(&self, e: &ast::Expression) -> bool {
        match e {
            ast::Expression::Identifier(_) => true,
            ast::Expression::Member(o, _) => self.is_lvalue_form(&o.node),
            ast::Expression::ArraySubscript(a, _) => self.is_lvalue_form(&a.node),
            ast::Expression::BinaryOperation(op, _, b) => is_assign(op).is_some() || (*op == ast::BinOp::Sequence && self.is_lvalue_form(&b.node)),
            ast::Expression::UnaryOperation(op, _) => matches!(op, ast::UnaryOp::PrefixIncrement | ast::UnaryOp::PrefixDecrement),
            _ => false,
        }
    }

    fn place(&mut self, e: &ast::Expression) -> R<(Place, Ty)> {
        use ast::Expression as E;
        match e {
            E::Identifier(id) => match self.named(id)? {
                Named::Var(p, t) => Ok((p, t)),
                Named::Value(v, t) => {
                    let p = self.temp(v, t.clone());
                    Ok((p, t))
                }
                _ => stuck(format!("{} is not an object", id)),
            },
            E::Member(obj, name) => {
                let (mut p, t) = self.place(&obj.node)?;
                let n = name.try_trivial().map(|n| n.node.clone()).ok_or_else(|| Stop::Stuck("qualified member name".into()))?;
                match &t {
                    Ty::Struct(si) => {
                        let info = &self.p.structs[*si];
                        let k = info.fields.iter().position(|(f, _)| *f == n).ok_or_else(|| Stop::Stuck(format!("struct {} has no member {}", info.name, n)))?;
                        push_step(&mut p.path, Step::Field(k))?;
                        Ok((p, info.fields[k].1.clone()))
                    }
                    Ty::S(st) | Ty::V(st, _) => {
                        let width = match &t {
                            Ty::V(_, w) => *w,
                            _ => 1,
                        };
                        let sl = swizzle_slots(&n).ok_or_else(|| Stop::Stuck(format!("no member {} in a numeric value", n)))?;
                        if sl.iter().any(|k| *k as usize >= width) {
                            return stuck(format!("swizzle .{} of a {}-vector", n, width));
                        }
                        let rt = if sl.len() == 1 { Ty::S(*st) } else { Ty::V(*st, sl.len()) };
                        push_step(&mut p.path, Step::Swz(sl))?;
                        Ok((p, rt))
                    }
                    _ => stuck(format!("member {} of {}", n, t.show())),
                }
            }
            E::ArraySubscript(a, i) => {
                let (mut p, t) = self.place(&a.node)?;
                let (iv, _) = self.eval(&i.node)?;
                let idx = index_of(&iv)?;
                let et = match &t {
                    Ty::Array(et, _) => (**et).clone(),
                    Ty::V(st, _) => Ty::S(*st),
                    _ => return stuck(format!("subscript of {}", t.show())),
                };
                push_step(&mut p.path, Step::Index(idx))?;
                self.read(&p)?;
                Ok((p, et))
            }
            E::BinaryOperation(op, a, b) if is_assign(op).is_some() => {
                let (p, t, _) = self.assign(op, &a.node, &b.node)?;
                Ok((p, t))
            }
            E::BinaryOperation(ast::BinOp::Sequence, a, b) => {
                self.eval(&a.node)?;
                self.place(&b.node)
            }
            E::UnaryOperation(op, a) if matches!(op, ast::UnaryOp::PrefixIncrement | ast::UnaryOp::PrefixDecrement) => {
                let (p, t, _) = self.incdec(op, &a.node)?;
                Ok((p, t))
            }
            _ => {
                let (v, t) = self.eval(e)?;
                let p = self.temp(v, t.clone());
                Ok((p, t))
            }
        }
    }

    fn incdec(&mut self, op: &ast::UnaryOp, a: &ast::Expression) -> R<(Place, Ty, Value)> {
        let (p, t) = self.place(a)?;
        let old = self.read(&p)?;
        if t.scalar() == Some(ST::Bool) || t.scalar().is_none() {
            return stuck(format!("increment of {}", t.show()));
        }
        let up = matches!(op, ast::UnaryOp::PrefixIncrement | ast::UnaryOp::PostfixIncrement);
        let new = step_value(&old, up)?;
        self.write(&p, new.clone())?;
        let prefix = matches!(op, ast::UnaryOp::PrefixIncrement | ast::UnaryOp::PrefixDecrement);
        Ok((p, t, if prefix { new } else { old }))
    }

    fn assign(&mut self, op: &ast::BinOp, a: &ast::Expression, b: &ast::Expression) -> R<(Place, Ty, Value)> {
        let (p, t) = self.place(a)?;
        let (rv, rt) = self.eval(b)?;
        let v = match is_assign(op).unwrap() {
            None => self.implicit(&rv, &rt, &t)?,
            Some(bin) => {
                // E1 op= E2 is E1 = (T)(E1 op E2) with E1 evaluated once
                let lv = self.read(&p)?;
                let (res, res_t) = self.binary(bin, (lv, t.clone()), (rv, rt))?;
                self.implicit(&res, &res_t, &t)?
            }
        };
        self.write(&p, v.clone())?;
        Ok((p, t, v))
    }

    /// implicit conversion at initialisation, assignment, argument passing and return
    fn implicit(&self, v: &Value, from: &Ty, to: &Ty) -> R<Value> {
        match (from, to) {
            (Ty::Struct(a), Ty::Struct(b)) => {
                if a == b {
                    Ok(v.clone())
                } else {
                    stuck("conversion between different struct types")
                }
            }
            (Ty::Array(..), Ty::Array(..)) => {
                if from == to {
                    Ok(v.clone())
                } else {
                    stuck("conversion between different array types")
                }
            }
            (Ty::S(_) | Ty::V(..), Ty::S(_) | Ty::V(..)) => convert_value(v, to),
            (Ty::Void, Ty::Void) => Ok(Value::Void),
            _ => stuck(format!("no conversion from {} to {}", from.show(), to.show())),
        }
    }

    fn return_value(&self, v: Value, to: &Ty) -> R<Value> {
        match (&v, to) {
            (Value::Void, Ty::Void) => Ok(v),
            (Value::Void, _) => stuck("function ends without returning a value"),
            (_, Ty::Void) => stuck("void function returns a value"),
            _ => Ok(v),
        }
    }

    fn binary(&mut self, op: Bin, l: (Value, Ty), r: (Value, Ty)) -> R<(Value, Ty)> {
        let (ls, ln, lv) = numeric_shape(&l.1).ok_or_else(|| Stop::Stuck(format!("operator {:?} on {}", op, l.1.show())))?;
        let (rs, rn, rv) = numeric_shape(&r.1).ok_or_else(|| Stop::Stuck(format!("operator {:?} on {}", op, r.1.show())))?;
        let (n, vector) = join_dims((ln, lv), (rn, rv));
        let common = match op {
            Bin::Shl | Bin::Shr => {
                // the result has the promoted type of the left operand
                let t = promote(ls);
                if !t.is_int() || !promote(rs).is_int() {
                    return stuck("shift of a non-integer");
                }
                t
            }
            Bin::And | Bin::Or | Bin::Xor => {
                let t = arith_type(ls, rs);
                if !t.is_int() {
                    return stuck("bitwise operator on a non-integer");
                }
                t
            }
            Bin::LAnd | Bin::LOr => ST::Bool,
            _ => {
                if op.is_compare() && ls == ST::Bool && rs == ST::Bool {
                    ST::Bool
                } else {
                    arith_type(ls, rs)
                }
            }
        };
        let lc = convert_value(&l.0, &shaped(common, ln, lv))?;
        let rc = convert_value(&r.0, &shaped(common, rn, rv))?;
        let res = binop_value(op, &lc, &rc)?;
        let rt = if op.is_compare() || matches!(op, Bin::LAnd | Bin::LOr) { ST::Bool } else { common };
        Ok((res, shaped(rt, n, vector)))
    }

    /// type an expression would have, evaluated on a copy of the state that is thrown away
    fn type_only(&mut self, e: &ast::Expression) -> Option<Ty> {
        if self.dry > 6 {
            return None;
        }
        let saved_globals = self.globals.clone();
        let saved_frames = self.frames.clone();
        let saved_statics = self.statics.clone();
        let saved_fuel = self.fuel;
        let saved_trace = self.trace.len();
        self.dry += 1;
        let r = self.eval(e);
        self.dry -= 1;
        self.globals = saved_globals;
        self.frames = saved_frames;
        self.statics = saved_statics;
        self.fuel = saved_fuel;
        self.trace.truncate(saved_trace);
        r.ok().map(|x| x.1)
    }

    fn eval(&mut self, e: &ast::Expression) -> R<(Value, Ty)> {
        use ast::Expression as E;
        match e {
            E::Literal(l) => self.literal(l),
            E::Identifier(id) => match self.named(id)? {
                Named::Var(p, t) => Ok((self.read(&p)?, t)),
                Named::Value(v, t) => Ok((v, t)),
                _ => stuck(format!("{} used as a value", id)),
            },
            E::UnaryOperation(op, a) => {
                use ast::UnaryOp as U;
                match op {
                    U::PrefixIncrement | U::PrefixDecrement | U::PostfixIncrement | U::PostfixDecrement => {
                        let (_, t, v) = self.incdec(op, &a.node)?;
                        Ok((v, t))
                    }
                    U::Plus | U::Minus | U::BitwiseNot => {
                        let (v, t) = self.eval(&a.node)?;
                        let (st, n, vec) = numeric_shape(&t).ok_or_else(|| Stop::Stuck(format!("unary operator on {}", t.show())))?;
                        let pt = promote(st);
                        if *op == U::BitwiseNot && !pt.is_int() {
                            return stuck("~ on a non-integer");
                        }
                        let pv = convert_value(&v, &shaped(pt, n, vec))?;
                        let un = match op {
                            U::Plus => Un::Plus,
                            U::Minus => Un::Minus,
                            _ => Un::BNot,
                        };
                        Ok((unop_value(un, &pv)?, shaped(pt, n, vec)))
                    }
                    U::LogicalNot => {
                        let (v, t) = self.eval(&a.node)?;
                        let (_, n, vec) = numeric_shape(&t).ok_or_else(|| Stop::Stuck(format!("! on {}", t.show())))?;
                        Ok((unop_value(Un::LNot, &v)?, shaped(ST::Bool, n, vec)))
                    }
                    U::Dereference | U::AddressOf => Err(Stop::Unsupported("pointer operator".into())),
                }
            }
            E::BinaryOperation(op, a, b) => {
                if is_assign(op).is_some() {
                    let (_, t, v) = self.assign(op, &a.node, &b.node)?;
                    return Ok((v, t));
                }
                match op {
                    ast::BinOp::Sequence => {
                        self.eval(&a.node)?;
                        self.eval(&b.node)
                    }
                    ast::BinOp::BooleanAnd | ast::BinOp::BooleanOr => {
                        let (lv, lt) = self.eval(&a.node)?;
                        if !matches!(lt, Ty::S(_)) {
                            return stuck("short-circuit operator on a non-scalar");
                        }
                        let l = truth(&lv)?;
                        let is_and = *op == ast::BinOp::BooleanAnd;
                        if l != is_and {
                            return Ok((Value::S(Sc::B(l)), Ty::S(ST::Bool)));
                        }
                        let (rv, rt) = self.eval(&b.node)?;
                        if !matches!(rt, Ty::S(_)) {
                            return stuck("short-circuit operator on a non-scalar");
                        }
                        Ok((Value::S(Sc::B(truth(&rv)?)), Ty::S(ST::Bool)))
                    }
                    _ => {
                        let bin = value_op(op).ok_or_else(|| Stop::Stuck(format!("operator {:?}", op)))?;
                        let l = self.eval(&a.node)?;
                        let r = self.eval(&b.node)?;
                        self.binary(bin, l, r)
                    }
                }
            }
            E::TernaryConditional(c, a, b) => {
                let (cv, ct) = self.eval(&c.node)?;
                if !matches!(ct, Ty::S(_)) {
                    return stuck("?: with a non-scalar condition");
                }
                let take_first = truth(&cv)?;
                let (chosen, other) = if take_first { (&a.node, &b.node) } else { (&b.node, &a.node) };
                let other_t = self.type_only(other);
                let (v, t) = self.eval(chosen)?;
                let rt = match (&t, &other_t) {
                    (_, None) => t.clone(),
                    (x, Some(y)) if x == y => t.clone(),
                    (x, Some(y)) => match (numeric_shape(x), numeric_shape(y)) {
                        (Some((s1, n1, v1)), Some((s2, n2, v2))) => {
                            let (n, vec) = join_dims((n1, v1), (n2, v2));
                            shaped(if s1 == s2 { s1 } else { arith_type(s1, s2) }, n, vec)
                        }
                        _ => return stuck(format!("?: arms of types {} and {}", x.show(), y.show())),
                    },
                };
                if rt == t {
                    Ok((v, t))
                } else {
                    Ok((convert_value(&v, &rt)?, rt))
                }
            }
            E::ArraySubscript(a, i) => {
                if self.is_lvalue_form(&a.node) {
                    let (p, t) = self.place(e)?;
                    return Ok((self.read(&p)?, t));
                }
                let (av, at) = self.eval(&a.node)?;
                let (iv, _) = self.eval(&i.node)?;
                let idx = index_of(&iv)?;
                let et = match &at {
                    Ty::Array(et, _) => (**et).clone(),
                    Ty::V(st, _) => Ty::S(*st),
                    _ => return stuck(format!("subscript of {}", at.show())),
                };
                Ok((read_path(&av, &[Step::Index(idx)])?, et))
            }
            E::Member(obj, _) => {
                if self.is_lvalue_form(&obj.node) {
                    let (p, t) = self.place(e)?;
                    return Ok((self.read(&p)?, t));
                }
                // member of a temporary: materialise it
                let (p, t) = self.place(e)?;
                Ok((self.read(&p)?, t))
            }
            E::Call(callee, targs, args) => self.call(&callee.node, targs, args),
            E::Cast(t, a) => {
                let ns = self.frames[self.cur()].ns;
                let ty = self.p.resolve_type_id(t, ns)?;
                let (v, vt) = self.eval(&a.node)?;
                Ok((self.explicit(&v, &vt, &ty)?, ty))
            }
            E::BracedInit(t, inits) => {
                if self.p.dialect != Dialect::Metal {
                    return Err(Stop::Unsupported("braced init expression".into()));
                }
                let ns = self.frames[self.cur()].ns;
                let ty = self.p.resolve_type_id(t, ns)?;
                let v = self.cxx_init(&ty, inits)?;
                Ok((v, ty))
            }
            E::SizeOf(_) => Err(Stop::Unsupported("sizeof".into())),
            E::AmbiguousParseBranch(_) => stuck("unresolved ambiguous parse"),
        }
    }

    fn explicit(&self, v: &Value, from: &Ty, to: &Ty) -> R<Value> {
        // HLSL: a scalar cast to a struct or an array gives every scalar slot the converted value
        if let (Ty::S(_), Ty::Struct(_) | Ty::Array(..), Value::S(sc)) = (from, to, v) {
            return self.splat(to, *sc);
        }
        self.implicit(v, from, to)
    }

    fn splat(&self, t: &Ty, s: Sc) -> R<Value> {
        Ok(match t {
            Ty::Void => return stuck("cast to void"),
            Ty::S(st) => Value::S(conv(s, *st)?),
            Ty::V(st, n) => Value::V(vec![conv(s, *st)?; *n]),
            Ty::Struct(si) => {
                let mut f = Vec::new();
                for (_, ft) in &self.p.structs[*si].fields {
                    f.push(self.splat(ft, s)?);
                }
                Value::Struct(f)
            }
            Ty::Array(et, n) => Value::Array(vec![self.splat(et, s)?; *n]),
        })
    }

    /// initialiser clauses evaluated once, left to right
    fn eval_items(&mut self, inits: &[ast::Initializer]) -> R<Vec<Item>> {
        let mut out = Vec::new();
        for i in inits {
            match i {
                ast::Initializer::Expression(e) => {
                    let (v, t) = self.eval(&e.node)?;
                    out.push(Item::Val(v, t));
                }
                ast::Initializer::Aggregate(inner) => out.push(Item::List(self.eval_items(inner)?)),
                ast::Initializer::StaticSampler(_) => return Err(Stop::Unsupported("static sampler".into())),
            }
        }
        Ok(out)
    }

    fn zero_value(&self, t: &Ty) -> Value {
        match t {
            Ty::Void => Value::Void,
            Ty::S(st) => Value::S(zero_of(*st)),
            Ty::V(st, n) => Value::V(vec![zero_of(*st); *n]),
            Ty::Struct(i) => Value::Struct(self.p.structs[*i].fields.iter().map(|(_, t)| self.zero_value(t)).collect()),
            Ty::Array(e, n) => Value::Array(vec![self.zero_value(e); *n]),
        }
    }

    /// C++ aggregate initialisation ([dcl.init.aggr]): one clause per non-aggregate member (a vector member takes one
    /// clause; a scalar clause is replicated), brace elision for nested aggregates, a clause of the member's own aggregate
    /// type initialises it as a whole, members without a clause are value-initialised
    fn cxx_fill(&self, t: &Ty, items: &[Item], pos: &mut usize) -> R<Value> {
        match t {
            Ty::Void => stuck("void object"),
            Ty::S(_) | Ty::V(..) => {
                if *pos >= items.len() {
                    return Ok(self.zero_value(t));
                }
                match &items[*pos] {
                    Item::Val(v, vt) => {
                        *pos += 1;
                        self.implicit(v, vt, t)
                    }
                    Item::List(inner) if inner.len() == 1 => {
                        *pos += 1;
                        let mut p = 0;
                        self.cxx_fill(t, inner, &mut p)
                    }
                    Item::List(_) => Err(Stop::Unsupported("braced list for a scalar or vector member".into())),
                }
            }
            Ty::Struct(_) | Ty::Array(..) => {
                if *pos < items.len() {
                    match &items[*pos] {
                        Item::List(inner) => {
                            *pos += 1;
                            let mut p = 0;
                            let v = self.cxx_members(t, inner, &mut p)?;
                            if p < inner.len() {
                                return stuck("too many initialiser clauses");
                            }
                            return Ok(v);
                        }
                        Item::Val(v, vt) if vt == t => {
                            *pos += 1;
                            return Ok(v.clone());
                        }
                        _ => {}
                    }
                }
                self.cxx_members(t, items, pos)
            }
        }
    }

    fn cxx_members(&self, t: &Ty, items: &[Item], pos: &mut usize) -> R<Value> {
        match t {
            Ty::Struct(si) => {
                let mut f = Vec::new();
                for (_, ft) in &self.p.structs[*si].fields {
                    f.push(self.cxx_fill(ft, items, pos)?);
                }
                Ok(Value::Struct(f))
            }
            Ty::Array(et, n) => {
                let mut f = Vec::new();
                for _ in 0..*n {
                    f.push(self.cxx_fill(et, items, pos)?);
                }
                Ok(Value::Array(f))
            }
            Ty::V(st, n) => {
                // a vector initialised from a braced list of its components
                let mut f = Vec::new();
                for _ in 0..*n {
                    match self.cxx_fill(&Ty::S(*st), items, pos)? {
                        Value::S(c) => f.push(c),
                        _ => return stuck("vector component"),
                    }
                }
                Ok(Value::V(f))
            }
            _ => self.cxx_fill(t, items, pos),
        }
    }

    fn cxx_init(&mut self, t: &Ty, inits: &[ast::Initializer]) -> R<Value> {
        let items = self.eval_items(inits)?;
        let mut p = 0;
        let v = self.cxx_members(t, &items, &mut p)?;
        if p < items.len() {
            return stuck("too many initialiser clauses");
        }
        Ok(v)
    }

    fn construct(&mut self, ty: &Ty, args: &[rssl::text::Located<ast::Expression>]) -> R<(Value, Ty)> {
        let st = match ty {
            Ty::S(s) | Ty::V(s, _) => *s,
            Ty::Struct(_) if args.is_empty() => return Ok((self.p.default_value(ty), ty.clone())),
            _ => return Err(Stop::Unsupported("constructor of a non-numeric type".into())),
        };
        let mut out = Vec::new();
        for a in args {
            let (v, t) = self.eval(&a.node)?;
            if numeric_shape(&t).is_none() {
                return stuck("non-numeric constructor argument");
            }
            for c in v.scalars().unwrap() {
                out.push(conv(*c, st)?);
            }
        }
        match ty {
            Ty::S(_) if out.len() == 1 => Ok((Value::S(out[0]), ty.clone())),
            Ty::V(_, n) if out.len() == *n => Ok((Value::V(out), ty.clone())),
            // Metal: a vector constructor with a single scalar replicates it
            Ty::V(_, n) if out.len() == 1 && self.p.dialect == Dialect::Metal => Ok((Value::V(vec![out[0]; *n]), ty.clone())),
            _ => stuck(format!("constructor of {} given {} components", ty.show(), out.len())),
        }
    }

    fn call(&mut self, callee: &ast::Expression, targs: &[ast::ExpressionOrType], args: &[rssl::text::Located<ast::Expression>]) -> R<(Value, Ty)> {
        self.burn()?;
        match callee {
            ast::Expression::Identifier(id) => {
                // a user declaration wins over a built-in of the same name
                let named = self.named(id);
                match named {
                    Ok(Named::Type(t)) => self.construct(&t, args),
                    Ok(Named::Funcs(fs)) => self.user_call(&fs, None, targs, args),
                    Ok(Named::Methods(ms)) => {
                        let this = self.frames[self.cur()].this.clone();
                        self.user_call(&ms, this, targs, args)
                    }
                    Ok(_) => stuck(format!("{} is not callable", id)),
                    Err(err) => {
                        if self.p.dialect == Dialect::Metal && id.try_trivial().map(|n| n.node == "as_type").unwrap_or(false) && targs.len() == 1 && args.len() == 1 {
                            let ns = self.frames[self.cur()].ns;
                            let to = match &targs[0] {
                                ast::ExpressionOrType::Type(t) => self.p.resolve_type_id(t, ns)?,
                                ast::ExpressionOrType::Either(_, t) => self.p.resolve_type_id(t, ns)?,
                                _ => return stuck("as_type without a type argument"),
                            };
                            let sem = match to.scalar() {
                                Some(ST::Int) => builtins::Sem::AsInt,
                                Some(ST::UInt) => builtins::Sem::AsUInt,
                                Some(ST::Float) => builtins::Sem::AsFloat,
                                _ => return Err(Stop::Unsupported(format!("as_type<{}>", to.show()))),
                            };
                            let (v, t) = self.builtin(sem, args)?;
                            if numeric_shape(&t).map(|x| x.1) != numeric_shape(&to).map(|x| x.1) {
                                return stuck("as_type between different sizes");
                            }
                            return Ok((v, t));
                        }
                        if let Some(n) = id.try_trivial() {
                            let sem = match self.p.dialect {
                                Dialect::Hlsl => builtins::from_hlsl(&n.node),
                                Dialect::Metal => builtins::from_metal(&n.node),
                            };
                            if let Some(sem) = sem {
                                return self.builtin(sem, args);
                            }
                        } else if self.p.dialect == Dialect::Metal && id.identifiers.len() == 2 && id.identifiers[0].node == "metal" {
                            if id.identifiers[1].node == "select" && args.len() == 3 {
                                // metal::select(a, b, c) is c ? b : a
                                let reordered = [args[2].clone(), args[1].clone(), args[0].clone()];
                                return self.builtin(builtins::Sem::Select, &reordered);
                            }
                            if let Some(sem) = builtins::from_metal(&id.identifiers[1].node) {
                                return self.builtin(sem, args);
                            }
                        }
                        Err(err)
                    }
                }
            }
            ast::Expression::Member(obj, name) => {
                let (p, t) = self.place(&obj.node)?;
                let n = name.try_trivial().map(|n| n.node.clone()).ok_or_else(|| Stop::Stuck("qualified method name".into()))?;
                match t {
                    Ty::Struct(si) => {
                        let ms: Vec<usize> = self.p.structs[si].methods.iter().copied().filter(|m| self.p.funcs[*m].name == n).collect();
                        if ms.is_empty() {
                            return stuck(format!("struct {} has no method {}", self.p.structs[si].name, n));
                        }
                        self.user_call(&ms, Some((p, si)), targs, args)
                    }
                    _ => Err(Stop::Unsupported(format!("method {} of {}", n, t.show()))),
                }
            }
            _ => Err(Stop::Unsupported("call of a computed function".into())),
        }
    }

    fn builtin(&mut self, sem: builtins::Sem, args: &[rssl::text::Located<ast::Expression>]) -> R<(Value, Ty)> {
        let mut vals = Vec::new();
        for a in args {
            let (v, t) = self.eval(&a.node)?;
            if numeric_shape(&t).is_none() {
                return stuck("non-numeric argument to a built-in function");
            }
            vals.push(v);
        }
        let refs: Vec<&Value> = vals.iter().collect();
        if sem.is_transcendental() {
            self.trace.push(sem.name());
        }
        let r = builtins::apply(sem, &refs)?;
        let t = match &r {
            Value::S(s) => Ty::S(s.st().ok_or(Stop::Unspec("read of an uninitialised value"))?),
            Value::V(v) => Ty::V(v[0].st().ok_or(Stop::Unspec("read of an uninitialised value"))?, v.len()),
            _ => return stuck("built-in result"),
        };
        Ok((r, t))
    }

    /// 0 = identical type, 1 = standard conversion, None = not convertible
    fn conversion_rank(&self, from: &Ty, to: &Ty) -> Option<u32> {
        if from == to {
            return Some(0);
        }
        match (numeric_shape(from), numeric_shape(to)) {
            (Some((fs, fnn, fv)), Some((ts, tn, tv))) => {
                let dims_ok = (fnn == tn && fv == tv) || fnn == 1 || (fv && (tn <= fnn));
                if !dims_ok {
                    return None;
                }
                let same_dims = fnn == tn && (fv == tv || fnn == 1);
                let exact_scalar = fs == ts || (fs == ST::LitInt && ts == ST::Int) || (fs == ST::LitFloat && ts == ST::Float);
                if exact_scalar && same_dims && fv == tv { Some(0) } else { Some(1) }
            }
            _ => None,
        }
    }

    fn user_call(&mut self, candidates: &[usize], this: Option<(Place, usize)>, targs: &[ast::ExpressionOrType], args: &[rssl::text::Located<ast::Expression>]) -> R<(Value, Ty)> {
        if self.frames.len() > 48 {
            return Err(Stop::Unsupported("call depth".into()));
        }
        // evaluate the arguments once, left to right
        let mut argv: Vec<(Value, Ty, Option<Place>)> = Vec::new();
        for a in args {
            if self.is_lvalue_form(&a.node) {
                let (p, t) = self.place(&a.node)?;
                let v = self.read(&p)?;
                argv.push((v, t, Some(p)));
            } else {
                let (v, t) = self.eval(&a.node)?;
                argv.push((v, t, None));
            }
        }
        // overload selection: viable candidates, exact ones first
        let mut viable: Vec<(usize, u32)> = Vec::new();
        for &c in candidates {
            let f = &self.p.funcs[c];
            if f.body.is_none() && candidates.iter().any(|&o| o != c && self.p.funcs[o].body.is_some() && self.same_signature(o, c)) {
                continue; // a declaration that is defined elsewhere
            }
            let required = f.params.iter().filter(|p| p.default.is_none()).count();
            if argv.len() < required || argv.len() > f.params.len() {
                continue;
            }
            if f.template_params != targs.len() && !(targs.is_empty()) {
                continue;
            }
            let mut worst = 0;
            let mut ok = true;
            for (prm, (_, t, pl)) in f.params.iter().zip(argv.iter()) {
                if (prm.is_out || prm.by_ref) && pl.is_none() {
                    ok = false;
                    break;
                }
                match self.conversion_rank(t, &prm.ty) {
                    Some(r) => worst = worst.max(r),
                    None => {
                        ok = false;
                        break;
                    }
                }
            }
            if ok {
                viable.push((c, worst));
            }
        }
        let exact: Vec<usize> = viable.iter().filter(|v| v.1 == 0).map(|v| v.0).collect();
        let chosen = if exact.len() == 1 {
            exact[0]
        } else if exact.len() > 1 {
            return Err(Stop::Ambiguous(format!("{} exact candidates for {}", exact.len(), self.p.funcs[exact[0]].name)));
        } else if viable.len() == 1 {
            viable[0].0
        } else if viable.is_empty() {
            let name = candidates.first().map(|c| self.p.funcs[*c].name.clone()).unwrap_or_default();
            return stuck(format!("no viable candidate for the call of {} with {} arguments", name, argv.len()));
        } else {
            return Err(Stop::Ambiguous(format!("{} convertible candidates for {}", viable.len(), self.p.funcs[viable[0].0].name)));
        };
        let f = &self.p.funcs[chosen];
        let body = f.body.ok_or_else(|| Stop::Unsupported("call of a function without body".into()))?;
        let mut frame = Frame { ns: f.scope, this, ret: Some(f.ret.clone()), ..Frame::default() };
        frame.scopes.push(HashMap::new());
        let mut copy_out: Vec<(Place, Ty, usize)> = Vec::new();
        for (i, prm) in f.params.iter().enumerate() {
            let slot = if i < argv.len() {
                let (v, t, pl) = &argv[i];
                if prm.by_ref {
                    Slot::Ref(prm.ty.clone(), pl.clone().unwrap())
                } else {
                    let init = if prm.is_in { self.implicit(v, t, &prm.ty)? } else { self.p.default_value(&prm.ty) };
                    if prm.is_out {
                        copy_out.push((pl.clone().unwrap(), t.clone(), i));
                    }
                    Slot::Own(prm.ty.clone(), init)
                }
            } else {
                let d = prm.default.unwrap();
                self.frames.push(Frame { ns: f.scope, ..Frame::default() });
                let r = self.eval(d);
                self.frames.pop();
                let (v, t) = r?;
                Slot::Own(prm.ty.clone(), self.implicit(&v, &t, &prm.ty)?)
            };
            frame.slots.push(slot);
            frame.scopes[0].insert(prm.name.clone(), frame.slots.len() - 1);
        }
        self.frames.push(frame);
        let flow = self.block(body);
        let frame = self.frames.pop().unwrap();
        let ret = match flow? {
            Flow::Return(v) => v,
            _ => Value::Void,
        };
        let ret = self.return_value(ret, &f.ret)?;
        for (pl, t, i) in copy_out {
            let v = match &frame.slots[i] {
                Slot::Own(_, v) => v.clone(),
                Slot::Ref(..) => continue,
            };
            let back = self.implicit(&v, &f.params[i].ty, &t)?;
            self.write(&pl, back)?;
        }
        Ok((ret, f.ret.clone()))
    }

    fn same_signature(&self, a: usize, b: usize) -> bool {
        let (fa, fb) = (&self.p.funcs[a], &self.p.funcs[b]);
        fa.params.len() == fb.params.len() && fa.params.iter().zip(fb.params.iter()).all(|(x, y)| x.ty == y.ty)
    }

    // ---- initialisers

    fn flatten_init(&mut self, init: &ast::Initializer, out: &mut Vec<Sc>) -> R<()> {
        fn flat(v: &Value, out: &mut Vec<Sc>) {
            match v {
                Value::S(s) => out.push(*s),
                Value::V(x) => out.extend(x.iter().copied()),
                Value::Struct(x) | Value::Array(x) => {
                    for e in x {
                        flat(e, out);
                    }
                }
                Value::Void => {}
            }
        }
        match init {
            ast::Initializer::Expression(e) => {
                let (v, _) = self.eval(&e.node)?;
                flat(&v, out);
                Ok(())
            }
            ast::Initializer::Aggregate(list) => {
                for i in list {
                    self.flatten_init(i, out)?;
                }
                Ok(())
            }
            ast::Initializer::StaticSampler(_) => Err(Stop::Unsupported("static sampler".into())),
        }
    }

    fn fill(&self, t: &Ty, src: &mut std::vec::IntoIter<Sc>) -> R<Value> {
        let mut next = |st: ST| -> R<Sc> {
            let c = src.next().ok_or_else(|| Stop::Stuck("too few initialiser components".into()))?;
            conv(c, st)
        };
        Ok(match t {
            Ty::Void => return stuck("void object"),
            Ty::S(st) => Value::S(next(*st)?),
            Ty::V(st, n) => {
                let mut v = Vec::new();
                for _ in 0..*n {
                    v.push(next(*st)?);
                }
                Value::V(v)
            }
            Ty::Struct(si) => {
                let mut f = Vec::new();
                for (_, ft) in &self.p.structs[*si].fields {
                    f.push(self.fill(ft, src)?);
                }
                Value::Struct(f)
            }
            Ty::Array(et, n) => {
                let mut f = Vec::new();
                for _ in 0..*n {
                    f.push(self.fill(et, src)?);
                }
                Value::Array(f)
            }
        })
    }

    fn initializer(&mut self, t: &Ty, init: &ast::Initializer) -> R<Value> {
        match init {
            ast::Initializer::Expression(e) => {
                let (v, vt) = self.eval(&e.node)?;
                self.implicit(&v, &vt, t)
            }
            ast::Initializer::Aggregate(list) if self.p.dialect == Dialect::Metal => self.cxx_init(t, list),
            ast::Initializer::Aggregate(_) => {
                let mut flat = Vec::new();
                self.flatten_init(init, &mut flat)?;
                let mut it = flat.into_iter();
                let v = self.fill(t, &mut it)?;
                if it.next().is_some() {
                    return stuck("too many initialiser components");
                }
                Ok(v)
            }
            ast::Initializer::StaticSampler(_) => Err(Stop::Unsupported("static sampler".into())),
        }
    }

    // ---- statements

    fn block(&mut self, stmts: &[ast::Statement]) -> R<Flow> {
        let f = self.cur();
        self.frames[f].scopes.push(HashMap::new());
        let mut result = Flow::Normal;
        for s in stmts {
            match self.stmt(s) {
                Ok(Flow::Normal) => {}
                Ok(fl) => {
                    result = fl;
                    break;
                }
                Err(e) => {
                    self.frames[f].scopes.pop();
                    return Err(e);
                }
            }
        }
        self.frames[f].scopes.pop();
        Ok(result)
    }

    /// a statement used as a body: runs in its own scope
    fn body(&mut self, s: &ast::Statement) -> R<Flow> {
        match &s.kind {
            ast::StatementKind::Block(b) => self.block(b),
            _ => self.block(std::slice::from_ref(s)),
        }
    }

    fn vardef(&mut self, v: &ast::VarDef) -> R<()> {
        let mods: Vec<ast::TypeModifier> = v.local_type.modifiers.modifiers.iter().map(|m| m.node).collect();
        let is_static = mods.contains(&ast::TypeModifier::Static);
        let ns = self.frames[self.cur()].ns;
        for d in &v.defs {
            let (name, ty, by_ref) = self.p.declared(&v.local_type, &d.declarator, ns)?;
            if by_ref {
                return Err(Stop::Unsupported("local reference".into()));
            }
            if is_static {
                // C++ [stmt.dcl]: initialised the first time control passes through the declaration, the object lives
                // until the end of the evaluation; the name is bound to that object on every later execution
                let key = d as *const ast::InitDeclarator as usize;
                let slot = match self.statics.get(&key) {
                    Some(s) => *s,
                    None => {
                        let val = match &d.init {
                            None => self.p.default_value(&ty),
                            Some(i) => self.initializer(&ty, i)?,
                        };
                        self.frames[0].slots.push(Slot::Own(ty.clone(), val));
                        let s = self.frames[0].slots.len() - 1;
                        self.statics.insert(key, s);
                        s
                    }
                };
                let f = self.cur();
                self.frames[f].slots.push(Slot::Ref(ty, Place { root: Root::Local(0, slot), path: Vec::new() }));
                let idx = self.frames[f].slots.len() - 1;
                if self.frames[f].scopes.is_empty() {
                    self.frames[f].scopes.push(HashMap::new());
                }
                self.frames[f].scopes.last_mut().unwrap().insert(name, idx);
                continue;
            }
            let val = match &d.init {
                None => self.p.default_value(&ty),
                Some(i) => self.initializer(&ty, i)?,
            };
            self.declare(&name, ty, val);
        }
        Ok(())
    }

    fn stmt(&mut self, s: &ast::Statement) -> R<Flow> {
        use ast::StatementKind as K;
        match &s.kind {
            K::Empty => Ok(Flow::Normal),
            K::Expression(e) => {
                self.eval(e)?;
                Ok(Flow::Normal)
            }
            K::Var(v) => {
                self.vardef(v)?;
                Ok(Flow::Normal)
            }
            K::AmbiguousDeclarationOrExpression(..) => stuck("unresolved ambiguous statement"),
            K::Block(b) => self.block(b),
            K::If(c, t) => {
                let (cv, _) = self.eval(&c.node)?;
                if truth(&cv)? { self.body(t) } else { Ok(Flow::Normal) }
            }
            K::IfElse(c, t, e) => {
                let (cv, _) = self.eval(&c.node)?;
                if truth(&cv)? { self.body(t) } else { self.body(e) }
            }
            K::For(init, cond, inc, body) => {
                let f = self.cur();
                self.frames[f].scopes.push(HashMap::new());
                let r = self.for_loop(init, cond, inc, body);
                self.frames[f].scopes.pop();
                r
            }
            K::While(c, body) => {
                loop {
                    self.burn()?;
                    let (cv, _) = self.eval(&c.node)?;
                    if !truth(&cv)? {
                        break;
                    }
                    match self.body(body)? {
                        Flow::Break => break,
                        Flow::Return(v) => return Ok(Flow::Return(v)),
                        _ => {}
                    }
                }
                Ok(Flow::Normal)
            }
            K::DoWhile(body, c) => {
                loop {
                    self.burn()?;
                    match self.body(body)? {
                        Flow::Break => break,
                        Flow::Return(v) => return Ok(Flow::Return(v)),
                        _ => {}
                    }
                    let (cv, _) = self.eval(&c.node)?;
                    if !truth(&cv)? {
                        break;
                    }
                }
                Ok(Flow::Normal)
            }
            K::Switch(c, body) => {
                let (cv, _) = self.eval(&c.node)?;
                let key = super::ir_interp::int_key(&cv)?;
                // flatten `case k: stmt` nests into a list of labels and statements
                enum Item<'s> {
                    Case(&'s ast::Expression),
                    Default,
                    Stmt(&'s ast::Statement),
                }
                fn flatten<'s>(s: &'s ast::Statement, out: &mut Vec<Item<'s>>) {
                    match &s.kind {
                        ast::StatementKind::CaseLabel(k, inner) => {
                            out.push(Item::Case(&k.node));
                            flatten(inner, out);
                        }
                        ast::StatementKind::DefaultLabel(inner) => {
                            out.push(Item::Default);
                            flatten(inner, out);
                        }
                        _ => out.push(Item::Stmt(s)),
                    }
                }
                let mut items = Vec::new();
                match &body.kind {
                    K::Block(b) => {
                        for st in b {
                            flatten(st, &mut items);
                        }
                    }
                    _ => flatten(body, &mut items),
                }
                let ns = self.frames[self.cur()].ns;
                let mut start = None;
                let mut default = None;
                for (i, it) in items.iter().enumerate() {
                    match it {
                        Item::Case(k) => {
                            if start.is_none() && self.p.const_int(k, ns, None)? == key {
                                start = Some(i);
                            }
                        }
                        Item::Default => default = Some(i),
                        Item::Stmt(_) => {}
                    }
                }
                let mut result = Flow::Normal;
                if let Some(from) = start.or(default) {
                    let f = self.cur();
                    self.frames[f].scopes.push(HashMap::new());
                    for it in &items[from..] {
                        if let Item::Stmt(st) = it {
                            match self.stmt(st) {
                                Ok(Flow::Normal) => {}
                                Ok(Flow::Break) => break,
                                Ok(fl) => {
                                    result = fl;
                                    break;
                                }
                                Err(e) => {
                                    self.frames[f].scopes.pop();
                                    return Err(e);
                                }
                            }
                        }
                    }
                    self.frames[f].scopes.pop();
                }
                Ok(result)
            }
            K::Break => Ok(Flow::Break),
            K::Continue => Ok(Flow::Continue),
            K::Discard => Err(Stop::Unsupported("discard".into())),
            K::Return(None) => Ok(Flow::Return(Value::Void)),
            K::Return(Some(e)) => {
                let (v, t) = self.eval(&e.node)?;
                // conversion to the declared return type of the running function happens here
                let rt = self.running_return_type();
                match rt {
                    Some(rt) if rt != Ty::Void => Ok(Flow::Return(self.implicit(&v, &t, &rt)?)),
                    Some(_) => stuck("void function returns a value"),
                    None => Ok(Flow::Return(v)),
                }
            }
            K::CaseLabel(..) | K::DefaultLabel(..) => stuck("case label outside a switch"),
        }
    }

    fn for_loop(&mut self, init: &ast::InitStatement, cond: &Option<rssl::text::Located<ast::Expression>>, inc: &Option<rssl::text::Located<ast::Expression>>, body: &ast::Statement) -> R<Flow> {
        match init {
            ast::InitStatement::Empty => {}
            ast::InitStatement::Expression(e) => {
                self.eval(&e.node)?;
            }
            ast::InitStatement::Declaration(v) => self.vardef(v)?,
        }
        loop {
            self.burn()?;
            if let Some(c) = cond {
                let (cv, _) = self.eval(&c.node)?;
                if !truth(&cv)? {
                    break;
                }
            }
            match self.body(body)? {
                Flow::Break => break,
                Flow::Return(v) => return Ok(Flow::Return(v)),
                _ => {}
            }
            if let Some(i) = inc {
                self.eval(&i.node)?;
            }
        }
        Ok(Flow::Normal)
    }

    fn running_return_type(&self) -> Option<Ty> {
        self.frames[self.cur()].ret.clone()
    }
}

fn index_of(v: &Value) -> R<usize> {
    let s = match v {
        Value::S(s) => *s,
        Value::V(x) if x.len() == 1 => x[0],
        _ => return stuck("non-scalar subscript"),
    };
    let i: i64 = match s {
        Sc::I(v) => v as i64,
        Sc::U(v) => v as i64,
        Sc::LI(v) => v,
        Sc::B(b) => b as i64,
        Sc::Undef => return Err(Stop::Unspec("read of an uninitialised value")),
        _ => return stuck("floating point subscript"),
    };
    if i < 0 {
        return Err(Stop::Unspec("index out of bounds"));
    }
    Ok(i as usize)
}

//! Semantic functions behind the pure math intrinsics, and three name maps written independently from the language
//! references: `ir::Intrinsic -> Sem`, HLSL spelling -> Sem, Metal spelling -> Sem. A wrong mapping in an exporter
//! selects a different semantic function and therefore (in general) different bits and a different call trace.

use super::values::*;
use rssl::ir;

#[derive(Clone, Copy, PartialEq, Eq, Debug, Hash)]
pub enum Sem {
    Abs,
    Min,
    Max,
    Clamp,
    Saturate,
    Floor,
    Ceil,
    Trunc,
    Round,
    /// halfway cases away from zero (C / Metal `round`)
    RoundAway,
    Frac,
    Fmod,
    Sqrt,
    Rsqrt,
    Rcp,
    Sign,
    Step,
    Lerp,
    SmoothStep,
    Dot,
    Cross,
    Length,
    Normalize,
    Distance,
    Reflect,
    Any,
    All,
    Select,
    And,
    Or,
    CountBits,
    ReverseBits,
    FirstBitHigh,
    FirstBitLow,
    AsInt,
    AsUInt,
    AsFloat,
    F16ToF32,
    F32ToF16,
    IsNan,
    IsInf,
    IsFinite,
    Sin,
    Cos,
    Tan,
    Asin,
    Acos,
    Atan,
    Atan2,
    Sinh,
    Cosh,
    Tanh,
    Exp,
    Exp2,
    Log,
    Log2,
    Log10,
    Pow,
}

impl Sem {
    /// functions whose bits are not fixed by the language references (S11): compared only for which one is called
    pub fn is_transcendental(self) -> bool {
        use Sem::*;
        matches!(self, Sin | Cos | Tan | Asin | Acos | Atan | Atan2 | Sinh | Cosh | Tanh | Exp | Exp2 | Log | Log2 | Log10 | Pow)
    }

    pub fn name(self) -> &'static str {
        use Sem::*;
        match self {
            Abs => "abs",
            Min => "min",
            Max => "max",
            Clamp => "clamp",
            Saturate => "saturate",
            Floor => "floor",
            Ceil => "ceil",
            Trunc => "trunc",
            Round => "round-half-even",
            RoundAway => "round-half-away",
            Frac => "frac",
            Fmod => "fmod",
            Sqrt => "sqrt",
            Rsqrt => "rsqrt",
            Rcp => "rcp",
            Sign => "sign",
            Step => "step",
            Lerp => "lerp",
            SmoothStep => "smoothstep",
            Dot => "dot",
            Cross => "cross",
            Length => "length",
            Normalize => "normalize",
            Distance => "distance",
            Reflect => "reflect",
            Any => "any",
            All => "all",
            Select => "select",
            And => "and",
            Or => "or",
            CountBits => "countbits",
            ReverseBits => "reversebits",
            FirstBitHigh => "firstbithigh",
            FirstBitLow => "firstbitlow",
            AsInt => "asint",
            AsUInt => "asuint",
            AsFloat => "asfloat",
            F16ToF32 => "f16tof32",
            F32ToF16 => "f32tof16",
            IsNan => "isnan",
            IsInf => "isinf",
            IsFinite => "isfinite",
            Sin => "sin",
            Cos => "cos",
            Tan => "tan",
            Asin => "asin",
            Acos => "acos",
            Atan => "atan",
            Atan2 => "atan2",
            Sinh => "sinh",
            Cosh => "cosh",
            Tanh => "tanh",
            Exp => "exp",
            Exp2 => "exp2",
            Log => "log",
            Log2 => "log2",
            Log10 => "log10",
            Pow => "pow",
        }
    }
}

/// Map 1: the typed IR's intrinsic enumeration (transcribed from ir/src/intrinsics.rs + intrinsic_data.rs)
pub fn from_ir(i: &ir::Intrinsic) -> Option<Sem> {
    use ir::Intrinsic as I;
    Some(match i {
        I::Abs => Sem::Abs,
        I::Min => Sem::Min,
        I::Max => Sem::Max,
        I::Clamp => Sem::Clamp,
        I::Saturate => Sem::Saturate,
        I::Floor => Sem::Floor,
        I::Ceil => Sem::Ceil,
        I::Trunc => Sem::Trunc,
        I::Round => Sem::Round,
        I::Frac => Sem::Frac,
        I::Fmod => Sem::Fmod,
        I::Sqrt => Sem::Sqrt,
        I::RcpSqrt => Sem::Rsqrt,
        I::Rcp => Sem::Rcp,
        I::Sign => Sem::Sign,
        I::Step => Sem::Step,
        I::Lerp => Sem::Lerp,
        I::SmoothStep => Sem::SmoothStep,
        I::Dot => Sem::Dot,
        I::Cross => Sem::Cross,
        I::Length => Sem::Length,
        I::Normalize => Sem::Normalize,
        I::Distance => Sem::Distance,
        I::Reflect => Sem::Reflect,
        I::Any => Sem::Any,
        I::All => Sem::All,
        I::Select => Sem::Select,
        I::And => Sem::And,
        I::Or => Sem::Or,
        I::CountBits => Sem::CountBits,
        I::ReverseBits => Sem::ReverseBits,
        I::FirstBitHigh => Sem::FirstBitHigh,
        I::FirstBitLow => Sem::FirstBitLow,
        I::AsInt => Sem::AsInt,
        I::AsUInt => Sem::AsUInt,
        I::AsFloat => Sem::AsFloat,
        I::F16ToF32 => Sem::F16ToF32,
        I::F32ToF16 => Sem::F32ToF16,
        I::IsNaN => Sem::IsNan,
        I::IsInfinite => Sem::IsInf,
        I::IsFinite => Sem::IsFinite,
        I::Sin => Sem::Sin,
        I::Cos => Sem::Cos,
        I::Tan => Sem::Tan,
        I::Asin => Sem::Asin,
        I::Acos => Sem::Acos,
        I::Atan => Sem::Atan,
        I::Atan2 => Sem::Atan2,
        I::Sinh => Sem::Sinh,
        I::Cosh => Sem::Cosh,
        I::Tanh => Sem::Tanh,
        I::Exp => Sem::Exp,
        I::Exp2 => Sem::Exp2,
        I::Log => Sem::Log,
        I::Log2 => Sem::Log2,
        I::Log10 => Sem::Log10,
        I::Pow => Sem::Pow,
        _ => return None,
    })
}

/// Map 2: HLSL spellings (from the HLSL intrinsic function reference)
pub fn from_hlsl(name: &str) -> Option<Sem> {
    Some(match name {
        "abs" => Sem::Abs,
        "min" => Sem::Min,
        "max" => Sem::Max,
        "clamp" => Sem::Clamp,
        "saturate" => Sem::Saturate,
        "floor" => Sem::Floor,
        "ceil" => Sem::Ceil,
        "trunc" => Sem::Trunc,
        "round" => Sem::Round,
        "frac" => Sem::Frac,
        "fmod" => Sem::Fmod,
        "sqrt" => Sem::Sqrt,
        "rsqrt" => Sem::Rsqrt,
        "rcp" => Sem::Rcp,
        "sign" => Sem::Sign,
        "step" => Sem::Step,
        "lerp" => Sem::Lerp,
        "smoothstep" => Sem::SmoothStep,
        "dot" => Sem::Dot,
        "cross" => Sem::Cross,
        "length" => Sem::Length,
        "normalize" => Sem::Normalize,
        "distance" => Sem::Distance,
        "reflect" => Sem::Reflect,
        "any" => Sem::Any,
        "all" => Sem::All,
        "select" => Sem::Select,
        "and" => Sem::And,
        "or" => Sem::Or,
        "countbits" => Sem::CountBits,
        "reversebits" => Sem::ReverseBits,
        "firstbithigh" => Sem::FirstBitHigh,
        "firstbitlow" => Sem::FirstBitLow,
        "asint" => Sem::AsInt,
        "asuint" => Sem::AsUInt,
        "asfloat" => Sem::AsFloat,
        "f16tof32" => Sem::F16ToF32,
        "f32tof16" => Sem::F32ToF16,
        "isnan" => Sem::IsNan,
        "isinf" => Sem::IsInf,
        "isfinite" => Sem::IsFinite,
        "sin" => Sem::Sin,
        "cos" => Sem::Cos,
        "tan" => Sem::Tan,
        "asin" => Sem::Asin,
        "acos" => Sem::Acos,
        "atan" => Sem::Atan,
        "atan2" => Sem::Atan2,
        "sinh" => Sem::Sinh,
        "cosh" => Sem::Cosh,
        "tanh" => Sem::Tanh,
        "exp" => Sem::Exp,
        "exp2" => Sem::Exp2,
        "log" => Sem::Log,
        "log2" => Sem::Log2,
        "log10" => Sem::Log10,
        "pow" => Sem::Pow,
        _ => return None,
    })
}

/// Map 3: Metal standard library spellings (Metal Shading Language specification, chapter 6), without the `metal::`
/// prefix. `rint` is the half-even rounding; Metal's `round` rounds half-way cases away from zero and therefore has no
/// entry that maps to `Sem::Round` (C02 triages that against both references).
pub fn from_metal(name: &str) -> Option<Sem> {
    Some(match name {
        "abs" | "fabs" => Sem::Abs,
        "min" | "fmin" => Sem::Min,
        "max" | "fmax" => Sem::Max,
        "clamp" => Sem::Clamp,
        "saturate" => Sem::Saturate,
        "floor" => Sem::Floor,
        "ceil" => Sem::Ceil,
        "trunc" => Sem::Trunc,
        "rint" => Sem::Round,
        "round" => Sem::RoundAway,
        "sign" => Sem::Sign,
        "select" => Sem::Select,
        "fract" => Sem::Frac,
        "fmod" => Sem::Fmod,
        "sqrt" => Sem::Sqrt,
        "rsqrt" => Sem::Rsqrt,
        "step" => Sem::Step,
        "mix" => Sem::Lerp,
        "smoothstep" => Sem::SmoothStep,
        "dot" => Sem::Dot,
        "cross" => Sem::Cross,
        "length" => Sem::Length,
        "normalize" => Sem::Normalize,
        "distance" => Sem::Distance,
        "reflect" => Sem::Reflect,
        "any" => Sem::Any,
        "all" => Sem::All,
        "popcount" => Sem::CountBits,
        "reverse_bits" => Sem::ReverseBits,
        "isnan" => Sem::IsNan,
        "isinf" => Sem::IsInf,
        "isfinite" => Sem::IsFinite,
        "sin" => Sem::Sin,
        "cos" => Sem::Cos,
        "tan" => Sem::Tan,
        "asin" => Sem::Asin,
        "acos" => Sem::Acos,
        "atan" => Sem::Atan,
        "atan2" => Sem::Atan2,
        "sinh" => Sem::Sinh,
        "cosh" => Sem::Cosh,
        "tanh" => Sem::Tanh,
        "exp" => Sem::Exp,
        "exp2" => Sem::Exp2,
        "log" => Sem::Log,
        "log2" => Sem::Log2,
        "log10" => Sem::Log10,
        "pow" => Sem::Pow,
        _ => return None,
    })
}

// ---------------------------------------------------------------------------------------------

fn rank(t: ST) -> u32 {
    match t {
        ST::Bool => 0,
        ST::LitInt => 1,
        ST::Int => 2,
        ST::UInt => 3,
        ST::LitFloat => 4,
        ST::Half => 5,
        ST::Float => 6,
        ST::Double => 7,
    }
}

/// common scalar type of a list of numeric arguments (the highest-ranked one; literals adapt)
fn common_type(args: &[&Value]) -> R<ST> {
    let mut best: Option<ST> = None;
    for a in args {
        let sc = a.scalars().ok_or_else(|| Stop::Stuck("non-numeric argument to a built-in function".into()))?;
        for c in sc {
            let t = c.st().ok_or(Stop::Unspec("read of an uninitialised value"))?;
            best = Some(match best {
                None => t,
                Some(b) => {
                    if rank(t) > rank(b) {
                        t
                    } else {
                        b
                    }
                }
            });
        }
    }
    let t = best.ok_or_else(|| Stop::Stuck("built-in function without arguments".into()))?;
    Ok(match t {
        ST::LitInt => ST::Int,
        ST::LitFloat => ST::Float,
        t => t,
    })
}

/// replicate scalars, check vector lengths, convert everything to `t`; returns (columns, length, is_vector)
fn unify(args: &[&Value], t: ST) -> R<(Vec<Vec<Sc>>, usize, bool)> {
    let mut n = 1;
    let mut vector = false;
    for a in args {
        if let Value::V(v) = a {
            vector = true;
            if v.len() > 1 {
                if n > 1 && n != v.len() {
                    n = n.min(v.len());
                } else {
                    n = v.len();
                }
            }
        }
    }
    let mut cols = Vec::new();
    for a in args {
        let sc = a.scalars().ok_or_else(|| Stop::Stuck("non-numeric argument to a built-in function".into()))?;
        let mut col = Vec::with_capacity(n);
        for i in 0..n {
            let c = if sc.len() == 1 { sc[0] } else { sc[i] };
            col.push(conv(c, t)?);
        }
        cols.push(col);
    }
    Ok((cols, n, vector))
}

fn float_type(t: ST) -> ST {
    match t {
        ST::Half | ST::Float | ST::Double => t,
        _ => ST::Float,
    }
}

fn fval(c: Sc) -> f64 {
    match c {
        Sc::H(v) | Sc::F(v) => v as f64,
        Sc::D(v) => v,
        _ => unreachable!(),
    }
}

/// apply an f32 / f64 function in the precision of `t`
fn fmap(t: ST, xs: &[Sc], f32f: &dyn Fn(&[f32]) -> f32, f64f: &dyn Fn(&[f64]) -> f64) -> Sc {
    match t {
        ST::Double => {
            let a: Vec<f64> = xs.iter().map(|c| fval(*c)).collect();
            Sc::D(f64f(&a))
        }
        ST::Float => {
            let a: Vec<f32> = xs.iter().map(|c| fval(*c) as f32).collect();
            Sc::F(f32f(&a))
        }
        ST::Half => {
            let a: Vec<f32> = xs.iter().map(|c| fval(*c) as f32).collect();
            Sc::H(f16_round32(f32f(&a)))
        }
        _ => unreachable!(),
    }
}

macro_rules! both {
    (|$a:ident| $body:expr) => {
        (&|$a: &[f32]| -> f32 { $body }, &|$a: &[f64]| -> f64 { $body })
    };
}

fn componentwise_float(args: &[&Value], f32f: &dyn Fn(&[f32]) -> f32, f64f: &dyn Fn(&[f64]) -> f64) -> R<Value> {
    let t = float_type(common_type(args)?);
    let (cols, n, vector) = unify(args, t)?;
    let mut out = Vec::with_capacity(n);
    for i in 0..n {
        let xs: Vec<Sc> = cols.iter().map(|c| c[i]).collect();
        out.push(fmap(t, &xs, f32f, f64f));
    }
    Ok(Value::from_scalars(out, vector))
}

fn float_vec(args: &[&Value]) -> R<(ST, Vec<Vec<Sc>>, usize)> {
    let t = float_type(common_type(args)?);
    let (cols, n, _) = unify(args, t)?;
    Ok((t, cols, n))
}

fn fadd(t: ST, a: Sc, b: Sc) -> Sc {
    fmap(t, &[a, b], &|x| x[0] + x[1], &|x| x[0] + x[1])
}
fn fsub(t: ST, a: Sc, b: Sc) -> Sc {
    fmap(t, &[a, b], &|x| x[0] - x[1], &|x| x[0] - x[1])
}
fn fmul(t: ST, a: Sc, b: Sc) -> Sc {
    fmap(t, &[a, b], &|x| x[0] * x[1], &|x| x[0] * x[1])
}
fn fdiv(t: ST, a: Sc, b: Sc) -> Sc {
    fmap(t, &[a, b], &|x| x[0] / x[1], &|x| x[0] / x[1])
}
fn fsqrt(t: ST, a: Sc) -> Sc {
    fmap(t, &[a], &|x| x[0].sqrt(), &|x| x[0].sqrt())
}

fn fdot(t: ST, a: &[Sc], b: &[Sc]) -> Sc {
    let mut acc = fmul(t, a[0], b[0]);
    for i in 1..a.len() {
        acc = fadd(t, acc, fmul(t, a[i], b[i]));
    }
    acc
}

fn arity(sem: Sem, args: &[&Value], n: usize) -> R<()> {
    if args.len() != n {
        return Err(Stop::Stuck(format!("{} called with {} arguments", sem.name(), args.len())));
    }
    Ok(())
}

pub fn apply(sem: Sem, args: &[&Value]) -> R<Value> {
    use Sem::*;
    match sem {
        Abs | Min | Max | Clamp => {
            arity(sem, args, match sem {
                Abs => 1,
                Clamp => 3,
                _ => 2,
            })?;
            let t = match common_type(args)? {
                ST::Bool => ST::Int,
                t => t,
            };
            let (cols, n, vector) = unify(args, t)?;
            let mut out = Vec::with_capacity(n);
            let pick_min = |a: Sc, b: Sc| -> R<Sc> {
                Ok(match binop(Bin::Lt, b, a)? {
                    Sc::B(true) => b,
                    _ => a,
                })
            };
            let pick_max = |a: Sc, b: Sc| -> R<Sc> {
                Ok(match binop(Bin::Lt, a, b)? {
                    Sc::B(true) => b,
                    _ => a,
                })
            };
            for i in 0..n {
                out.push(match sem {
                    Abs => match cols[0][i] {
                        Sc::I(v) => Sc::I(v.wrapping_abs()),
                        Sc::U(v) => Sc::U(v),
                        Sc::H(v) => Sc::H(v.abs()),
                        Sc::F(v) => Sc::F(v.abs()),
                        Sc::D(v) => Sc::D(v.abs()),
                        _ => unreachable!(),
                    },
                    Min => pick_min(cols[0][i], cols[1][i])?,
                    Max => pick_max(cols[0][i], cols[1][i])?,
                    Clamp => pick_min(pick_max(cols[0][i], cols[1][i])?, cols[2][i])?,
                    _ => unreachable!(),
                });
            }
            Ok(Value::from_scalars(out, vector))
        }
        Saturate => {
            arity(sem, args, 1)?;
            let (a, b) = both!(|x| if x[0].is_nan() || x[0] < 0.0 {
                0.0
            } else if x[0] > 1.0 {
                1.0
            } else {
                x[0]
            });
            componentwise_float(args, a, b)
        }
        Floor | Ceil | Trunc | Round | RoundAway | Frac | Sqrt | Rsqrt | Rcp | Sin | Cos | Tan | Asin | Acos | Atan | Sinh | Cosh | Tanh | Exp | Exp2 | Log | Log2 | Log10 => {
            arity(sem, args, 1)?;
            let (a, b): (&dyn Fn(&[f32]) -> f32, &dyn Fn(&[f64]) -> f64) = match sem {
                Floor => both!(|x| x[0].floor()),
                Ceil => both!(|x| x[0].ceil()),
                Trunc => both!(|x| x[0].trunc()),
                Round => both!(|x| x[0].round_ties_even()),
                RoundAway => both!(|x| x[0].round()),
                Frac => both!(|x| x[0] - x[0].floor()),
                Sqrt => both!(|x| x[0].sqrt()),
                Rsqrt => both!(|x| 1.0 / x[0].sqrt()),
                Rcp => both!(|x| 1.0 / x[0]),
                Sin => both!(|x| x[0].sin()),
                Cos => both!(|x| x[0].cos()),
                Tan => both!(|x| x[0].tan()),
                Asin => both!(|x| x[0].asin()),
                Acos => both!(|x| x[0].acos()),
                Atan => both!(|x| x[0].atan()),
                Sinh => both!(|x| x[0].sinh()),
                Cosh => both!(|x| x[0].cosh()),
                Tanh => both!(|x| x[0].tanh()),
                Exp => both!(|x| x[0].exp()),
                Exp2 => both!(|x| x[0].exp2()),
                Log => both!(|x| x[0].ln()),
                Log2 => both!(|x| x[0].log2()),
                Log10 => both!(|x| x[0].log10()),
                _ => unreachable!(),
            };
            componentwise_float(args, a, b)
        }
        Fmod | Atan2 | Pow | Step => {
            arity(sem, args, 2)?;
            let (a, b): (&dyn Fn(&[f32]) -> f32, &dyn Fn(&[f64]) -> f64) = match sem {
                Fmod => both!(|x| x[0] % x[1]),
                Atan2 => both!(|x| x[0].atan2(x[1])),
                Pow => both!(|x| x[0].powf(x[1])),
                Step => both!(|x| if x[1] >= x[0] { 1.0 } else { 0.0 }),
                _ => unreachable!(),
            };
            componentwise_float(args, a, b)
        }
        Lerp | SmoothStep => {
            arity(sem, args, 3)?;
            let (t, cols, n) = float_vec(args)?;
            let vector = args.iter().any(|a| a.is_vector());
            let mut out = Vec::with_capacity(n);
            for i in 0..n {
                let (a, b, c) = (cols[0][i], cols[1][i], cols[2][i]);
                out.push(if sem == Lerp {
                    // x + s * (y - x)
                    fadd(t, a, fmul(t, c, fsub(t, b, a)))
                } else {
                    // t = saturate((x - a) / (b - a)); t * t * (3 - 2 t)
                    let q = fdiv(t, fsub(t, c, a), fsub(t, b, a));
                    let q = fmap(t, &[q], &|x| if x[0].is_nan() || x[0] < 0.0 { 0.0 } else if x[0] > 1.0 { 1.0 } else { x[0] }, &|x| {
                        if x[0].is_nan() || x[0] < 0.0 {
                            0.0
                        } else if x[0] > 1.0 {
                            1.0
                        } else {
                            x[0]
                        }
                    });
                    let two = conv(Sc::LI(2), t)?;
                    let three = conv(Sc::LI(3), t)?;
                    fmul(t, fmul(t, q, q), fsub(t, three, fmul(t, two, q)))
                });
            }
            Ok(Value::from_scalars(out, vector))
        }
        Sign => {
            arity(sem, args, 1)?;
            let sc = args[0].scalars().ok_or_else(|| Stop::Stuck("sign of a non-numeric value".into()))?;
            let mut out = Vec::new();
            for c in sc {
                out.push(Sc::I(match *c {
                    Sc::I(v) => v.signum(),
                    Sc::U(v) => (v != 0) as i32,
                    Sc::LI(v) => v.signum() as i32,
                    Sc::B(v) => v as i32,
                    Sc::H(v) | Sc::F(v) => {
                        if v > 0.0 {
                            1
                        } else if v < 0.0 {
                            -1
                        } else {
                            0
                        }
                    }
                    Sc::D(v) | Sc::LF(v) => {
                        if v > 0.0 {
                            1
                        } else if v < 0.0 {
                            -1
                        } else {
                            0
                        }
                    }
                    Sc::Undef => return Err(Stop::Unspec("read of an uninitialised value")),
                }));
            }
            Ok(Value::from_scalars(out, args[0].is_vector()))
        }
        Dot => {
            arity(sem, args, 2)?;
            let t = common_type(args)?;
            if matches!(t, ST::Int | ST::UInt | ST::Bool) {
                let t = if t == ST::Bool { ST::Int } else { t };
                let (cols, n, _) = unify(args, t)?;
                let mut acc = binop(Bin::Mul, cols[0][0], cols[1][0])?;
                for i in 1..n {
                    acc = binop(Bin::Add, acc, binop(Bin::Mul, cols[0][i], cols[1][i])?)?;
                }
                return Ok(Value::S(acc));
            }
            let (t, cols, _) = float_vec(args)?;
            Ok(Value::S(fdot(t, &cols[0], &cols[1])))
        }
        Cross => {
            arity(sem, args, 2)?;
            let (t, cols, n) = float_vec(args)?;
            if n != 3 {
                return Err(Stop::Stuck("cross of non-3-vectors".into()));
            }
            let (a, b) = (&cols[0], &cols[1]);
            let c = |i: usize, j: usize| fsub(t, fmul(t, a[i], b[j]), fmul(t, a[j], b[i]));
            Ok(Value::V(vec![c(1, 2), c(2, 0), c(0, 1)]))
        }
        Length | Normalize => {
            arity(sem, args, 1)?;
            let (t, cols, _) = float_vec(args)?;
            let len = fsqrt(t, fdot(t, &cols[0], &cols[0]));
            if sem == Length {
                return Ok(Value::S(len));
            }
            let out: Vec<Sc> = cols[0].iter().map(|c| fdiv(t, *c, len)).collect();
            Ok(Value::from_scalars(out, args[0].is_vector()))
        }
        Distance => {
            arity(sem, args, 2)?;
            let (t, cols, n) = float_vec(args)?;
            let d: Vec<Sc> = (0..n).map(|i| fsub(t, cols[0][i], cols[1][i])).collect();
            Ok(Value::S(fsqrt(t, fdot(t, &d, &d))))
        }
        Reflect => {
            arity(sem, args, 2)?;
            let (t, cols, n) = float_vec(args)?;
            // i - 2 * dot(i, n) * n
            let d = fdot(t, &cols[0], &cols[1]);
            let two = conv(Sc::LI(2), t)?;
            let k = fmul(t, two, d);
            let out: Vec<Sc> = (0..n).map(|i| fsub(t, cols[0][i], fmul(t, k, cols[1][i]))).collect();
            Ok(Value::from_scalars(out, args[0].is_vector()))
        }
        Any | All => {
            arity(sem, args, 1)?;
            let sc = args[0].scalars().ok_or_else(|| Stop::Stuck("any/all of a non-numeric value".into()))?;
            let mut r = sem == All;
            for c in sc {
                let b = matches!(conv(*c, ST::Bool)?, Sc::B(true));
                if sem == All {
                    r = r && b;
                } else {
                    r = r || b;
                }
            }
            Ok(Value::S(Sc::B(r)))
        }
        And | Or => {
            arity(sem, args, 2)?;
            let (cols, n, vector) = unify(args, ST::Bool)?;
            let mut out = Vec::new();
            for i in 0..n {
                out.push(binop(if sem == And { Bin::LAnd } else { Bin::LOr }, cols[0][i], cols[1][i])?);
            }
            Ok(Value::from_scalars(out, vector))
        }
        Select => {
            arity(sem, args, 3)?;
            let t = common_type(&args[1..])?;
            let (cond, nc, vc) = unify(&args[..1], ST::Bool)?;
            let (cols, n, vv) = unify(&args[1..], t)?;
            let n = n.max(nc);
            let mut out = Vec::new();
            for i in 0..n {
                let c = if cond[0].len() == 1 { cond[0][0] } else { cond[0][i] };
                let a = if cols[0].len() == 1 { cols[0][0] } else { cols[0][i] };
                let b = if cols[1].len() == 1 { cols[1][0] } else { cols[1][i] };
                out.push(if matches!(c, Sc::B(true)) { a } else { b });
            }
            Ok(Value::from_scalars(out, vc || vv))
        }
        CountBits | ReverseBits | FirstBitHigh | FirstBitLow => {
            arity(sem, args, 1)?;
            let sc = args[0].scalars().ok_or_else(|| Stop::Stuck("bit function of a non-numeric value".into()))?;
            let mut out = Vec::new();
            for c in sc {
                let c = match c {
                    Sc::LI(_) | Sc::B(_) => conv(*c, ST::Int)?,
                    c => *c,
                };
                let (bits, signed) = match c {
                    Sc::I(v) => (v as u32, true),
                    Sc::U(v) => (v, false),
                    Sc::Undef => return Err(Stop::Unspec("read of an uninitialised value")),
                    _ => return Err(Stop::Stuck(format!("{} of a non-integer value", sem.name()))),
                };
                let r: u32 = match sem {
                    CountBits => bits.count_ones(),
                    ReverseBits => bits.reverse_bits(),
                    FirstBitHigh => {
                        let b = if signed && (bits as i32) < 0 { !bits } else { bits };
                        if b == 0 { u32::MAX } else { 31 - b.leading_zeros() }
                    }
                    FirstBitLow => {
                        if bits == 0 {
                            u32::MAX
                        } else {
                            bits.trailing_zeros()
                        }
                    }
                    _ => unreachable!(),
                };
                out.push(if signed { Sc::I(r as i32) } else { Sc::U(r) });
            }
            Ok(Value::from_scalars(out, args[0].is_vector()))
        }
        AsInt | AsUInt | AsFloat => {
            arity(sem, args, 1)?;
            let sc = args[0].scalars().ok_or_else(|| Stop::Stuck("bit cast of a non-numeric value".into()))?;
            let mut out = Vec::new();
            for c in sc {
                let c = match c {
                    Sc::LI(_) | Sc::B(_) => conv(*c, ST::Int)?,
                    Sc::LF(_) | Sc::H(_) | Sc::D(_) => conv(*c, ST::Float)?,
                    c => *c,
                };
                let bits = match c {
                    Sc::I(v) => v as u32,
                    Sc::U(v) => v,
                    Sc::F(v) => {
                        if v.is_nan() {
                            return Err(Stop::Unspec("bit pattern of a NaN"));
                        }
                        v.to_bits()
                    }
                    Sc::Undef => return Err(Stop::Unspec("read of an uninitialised value")),
                    _ => unreachable!(),
                };
                out.push(match sem {
                    AsInt => Sc::I(bits as i32),
                    AsUInt => Sc::U(bits),
                    AsFloat => Sc::F(f32::from_bits(bits)),
                    _ => unreachable!(),
                });
            }
            Ok(Value::from_scalars(out, args[0].is_vector()))
        }
        F16ToF32 | F32ToF16 => {
            arity(sem, args, 1)?;
            let sc = args[0].scalars().ok_or_else(|| Stop::Stuck("half conversion of a non-numeric value".into()))?;
            let mut out = Vec::new();
            for c in sc {
                if sem == F16ToF32 {
                    match conv(*c, ST::UInt)? {
                        Sc::U(v) => out.push(Sc::F(f16_from_bits(v as u16))),
                        _ => unreachable!(),
                    }
                } else {
                    match conv(*c, ST::Float)? {
                        Sc::F(v) => {
                            if v.is_nan() {
                                return Err(Stop::Unspec("bit pattern of a NaN"));
                            }
                            out.push(Sc::U(f16_bits(v as f64) as u32))
                        }
                        _ => unreachable!(),
                    }
                }
            }
            Ok(Value::from_scalars(out, args[0].is_vector()))
        }
        IsNan | IsInf | IsFinite => {
            arity(sem, args, 1)?;
            let t = float_type(common_type(args)?);
            let (cols, _, vector) = unify(args, t)?;
            let out: Vec<Sc> = cols[0]
                .iter()
                .map(|c| {
                    let v = fval(*c);
                    Sc::B(match sem {
                        IsNan => v.is_nan(),
                        IsInf => v.is_infinite(),
                        _ => v.is_finite(),
                    })
                })
                .collect();
            Ok(Value::from_scalars(out, vector))
        }
    }
}

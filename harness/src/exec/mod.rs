//! Two small interpreters used by C01 (HLSL export preserves meaning) and C02 (Metal):
//!  * `ir_interp` evaluates the typed `ir::Module` produced by the rssl type checker (explicit casts only);
//!  * `c_interp` evaluates an `ast::Module` (re-read emitted text, or the exporter tree) with dynamic typing under C-like
//!    rules, without using the rssl type checker;
//!  * `values` holds the value domain and the scalar operations (DESIGN 4.5 S1-S10), `builtins` the semantic functions
//!    behind the pure math intrinsics and three independently written name maps (ir::Intrinsic, HLSL spelling, Metal spelling).

pub mod builtins;
pub mod c_interp;
pub mod ir_interp;
pub mod values;

use values::Value;

/// What one evaluation of a function left behind: everything the property compares.
#[derive(Clone, Debug)]
pub struct Outcome {
    pub ret: Value,
    /// final values of out / inout parameters, in parameter order (index, value)
    pub outs: Vec<(usize, Value)>,
    /// final values of static globals, in declaration order
    pub globals: Vec<Value>,
    /// names of the transcendental/built-in semantic functions that were called, in call order
    pub builtin_trace: Vec<&'static str>,
}

impl Outcome {
    pub fn same(&self, o: &Outcome) -> bool {
        self.first_difference(o).is_none()
    }

    /// "ret" / "out#i" / "global#i" / "builtin-trace": the first component in which two outcomes differ
    pub fn first_difference(&self, o: &Outcome) -> Option<String> {
        if !values::same(&self.ret, &o.ret) {
            return Some("ret".into());
        }
        if self.outs.len() != o.outs.len() {
            return Some("out-count".into());
        }
        for (a, b) in self.outs.iter().zip(o.outs.iter()) {
            if a.0 != b.0 || !values::same(&a.1, &b.1) {
                return Some(format!("out#{}", a.0));
            }
        }
        if self.globals.len() != o.globals.len() {
            return Some("global-count".into());
        }
        for (i, (a, b)) in self.globals.iter().zip(o.globals.iter()).enumerate() {
            if !values::same(a, b) {
                return Some(format!("global#{}", i));
            }
        }
        if self.builtin_trace != o.builtin_trace {
            return Some("builtin-trace".into());
        }
        None
    }

    pub fn render(&self) -> String {
        let mut s = format!("ret={}", values::show(&self.ret));
        for (i, v) in &self.outs {
            s.push_str(&format!(" out#{}={}", i, values::show(v)));
        }
        if !self.globals.is_empty() {
            s.push_str(" globals=[");
            for (i, g) in self.globals.iter().enumerate() {
                if i > 0 {
                    s.push_str(", ");
                }
                s.push_str(&values::show(g));
            }
            s.push(']');
        }
        if !self.builtin_trace.is_empty() {
            s.push_str(&format!(" builtins={:?}", self.builtin_trace));
        }
        s
    }
}

//! Interpreter for the typed IR (`ir::Module`) produced by the rssl type checker: RSSL's typed semantics.
//! Explicit casts only (the typer made every conversion explicit), copy-in/copy-out parameters, static globals initialised
//! once per evaluation, short-circuit `&& || ?:`, operands and arguments left to right (S7), fuel-bounded loops.

use super::Outcome;
use super::builtins;
use super::values::*;
use rssl::ir;
use std::collections::HashMap;

pub struct IrProgram<'m> {
    pub m: &'m ir::Module,
    /// functions that can be called from outside, in declaration order (template instantiations expanded in place)
    pub functions: Vec<ir::FunctionId>,
    /// static globals in declaration order
    pub static_globals: Vec<ir::GlobalId>,
}

#[derive(Clone, Debug)]
enum Root {
    Local(usize, u32),
    Global(u32),
    /// a function-local `static`: one object per evaluation, keyed by the variable id
    Static(u32),
    Temp(usize, usize),
}

#[derive(Clone, Debug)]
struct Place {
    root: Root,
    path: Vec<Step>,
}

#[derive(Default)]
struct Frame {
    locals: HashMap<u32, Value>,
    temps: Vec<Value>,
    this: Option<Place>,
}

enum Flow {
    Normal,
    Break,
    Continue,
    Return(Value),
}

struct Interp<'m> {
    m: &'m ir::Module,
    globals: HashMap<u32, Value>,
    /// function-local statics that have been initialised in this evaluation (S9 applied to locals: initialised when the
    /// definition is first executed, kept from one call of the function to the next)
    statics: HashMap<u32, Value>,
    frames: Vec<Frame>,
    fuel: u64,
    trace: Vec<&'static str>,
}

pub fn scalar_type(s: ir::ScalarType) -> ST {
    match s {
        ir::ScalarType::Bool => ST::Bool,
        ir::ScalarType::IntLiteral => ST::LitInt,
        ir::ScalarType::Int32 => ST::Int,
        ir::ScalarType::UInt32 => ST::UInt,
        ir::ScalarType::FloatLiteral => ST::LitFloat,
        ir::ScalarType::Float16 => ST::Half,
        ir::ScalarType::Float32 => ST::Float,
        ir::ScalarType::Float64 => ST::Double,
    }
}

pub fn ty_of(m: &ir::Module, id: ir::TypeId) -> R<Ty> {
    Ok(match m.type_registry.get_type_layer(id) {
        ir::TypeLayer::Void => Ty::Void,
        ir::TypeLayer::Scalar(s) => Ty::S(scalar_type(s)),
        ir::TypeLayer::Vector(inner, n) => match m.type_registry.get_type_layer(inner) {
            ir::TypeLayer::Scalar(s) => Ty::V(scalar_type(s), n as usize),
            _ => return Err(Stop::Unsupported("vector of non-scalar".into())),
        },
        ir::TypeLayer::Struct(id) => Ty::Struct(id.0 as usize),
        ir::TypeLayer::Enum(id) => Ty::S(scalar_type(m.enum_registry.get_underlying_scalar(id))),
        ir::TypeLayer::Array(inner, Some(n)) => Ty::Array(Box::new(ty_of(m, inner)?), n as usize),
        ir::TypeLayer::Modifier(_, inner) => ty_of(m, inner)?,
        other => return Err(Stop::Unsupported(format!("type {:?}", other))),
    })
}

pub fn default_value(m: &ir::Module, t: &Ty) -> R<Value> {
    Ok(match t {
        Ty::Void => Value::Void,
        Ty::S(_) => Value::S(Sc::Undef),
        Ty::V(_, n) => Value::V(vec![Sc::Undef; *n]),
        Ty::Struct(i) => {
            let mut f = Vec::new();
            for mem in &m.struct_registry[*i].members {
                f.push(default_value(m, &ty_of(m, mem.type_id)?)?);
            }
            Value::Struct(f)
        }
        Ty::Array(e, n) => {
            let d = default_value(m, e)?;
            Value::Array(vec![d; *n])
        }
    })
}

/// `(T)s` with a scalar `s` and an aggregate `T` (struct / array): every scalar slot receives the converted value
pub fn splat_value(m: &ir::Module, t: &Ty, s: Sc) -> R<Value> {
    Ok(match t {
        Ty::Void => return Err(Stop::Stuck("cast to void".into())),
        Ty::S(st) => Value::S(conv(s, *st)?),
        Ty::V(st, n) => Value::V(vec![conv(s, *st)?; *n]),
        Ty::Struct(i) => {
            let mut f = Vec::new();
            for mem in &m.struct_registry[*i].members {
                f.push(splat_value(m, &ty_of(m, mem.type_id)?, s)?);
            }
            Value::Struct(f)
        }
        Ty::Array(e, n) => {
            let one = splat_value(m, e, s)?;
            Value::Array(vec![one; *n])
        }
    })
}

pub fn constant(c: &ir::Constant) -> R<Value> {
    Ok(Value::S(match c {
        ir::Constant::Bool(b) => Sc::B(*b),
        ir::Constant::IntLiteral(v) => {
            if *v < i64::MIN as i128 || *v > i64::MAX as i128 {
                return Err(Stop::Unsupported("integer literal beyond 64 bits".into()));
            }
            Sc::LI(*v as i64)
        }
        ir::Constant::Int32(v) => Sc::I(*v),
        ir::Constant::UInt32(v) => Sc::U(*v),
        ir::Constant::FloatLiteral(v) => Sc::LF(*v),
        ir::Constant::Float16(v) => Sc::H(f16_round32(*v)),
        ir::Constant::Float32(v) => Sc::F(*v),
        ir::Constant::Float64(v) => Sc::D(*v),
        ir::Constant::Enum(_, inner) => return constant(inner),
        ir::Constant::Int64(_) | ir::Constant::UInt64(_) => return Err(Stop::Unsupported("64-bit integer constant".into())),
        ir::Constant::String(_) => return Err(Stop::Unsupported("string constant".into())),
    }))
}

fn index_of(v: &Value) -> R<usize> {
    let s = match v {
        Value::S(s) => *s,
        Value::V(x) if x.len() == 1 => x[0],
        _ => return Err(Stop::Stuck("non-scalar subscript".into())),
    };
    let i: i64 = match s {
        Sc::I(v) => v as i64,
        Sc::U(v) => v as i64,
        Sc::LI(v) => v,
        Sc::B(b) => b as i64,
        Sc::Undef => return Err(Stop::Unspec("read of an uninitialised value")),
        _ => return Err(Stop::Stuck("floating point subscript".into())),
    };
    if i < 0 {
        return Err(Stop::Unspec("index out of bounds"));
    }
    Ok(i as usize)
}

fn slot_index(s: &ir::SwizzleSlot) -> u8 {
    match s {
        ir::SwizzleSlot::X => 0,
        ir::SwizzleSlot::Y => 1,
        ir::SwizzleSlot::Z => 2,
        ir::SwizzleSlot::W => 3,
    }
}

impl<'m> IrProgram<'m> {
    pub fn new(m: &'m ir::Module) -> IrProgram<'m> {
        let mut functions = Vec::new();
        let mut static_globals = Vec::new();
        for d in &m.root_definitions {
            match d {
                ir::RootDefinition::Function(id) => {
                    let sig = m.function_registry.get_function_signature(*id);
                    if !sig.template_params.is_empty() {
                        for child in m.function_registry.iter() {
                            if let Some(data) = m.function_registry.get_template_instantiation_data(child) {
                                if data.parent_id == *id {
                                    functions.push(child);
                                }
                            }
                        }
                    } else {
                        functions.push(*id);
                    }
                }
                ir::RootDefinition::GlobalVariable(id) => {
                    if m.global_registry[id.0 as usize].storage_class == ir::GlobalStorage::Static {
                        static_globals.push(*id);
                    }
                }
                _ => {}
            }
        }
        IrProgram { m, functions, static_globals }
    }

    pub fn static_global_names(&self) -> Vec<&str> {
        self.static_globals.iter().map(|g| self.m.global_registry[g.0 as usize].name.node.as_str()).collect()
    }

    /// values of the static globals after initialisation (S9), in declaration order
    pub fn initial_globals(&self) -> R<Vec<Value>> {
        let mut it = Interp { m: self.m, globals: HashMap::new(), statics: HashMap::new(), frames: vec![Frame::default()], fuel: 10_000, trace: Vec::new() };
        let mut out = Vec::new();
        for g in &self.static_globals {
            it.init_global(*g)?;
            out.push(it.globals.get(&g.0).cloned().unwrap_or(Value::Void));
        }
        Ok(out)
    }

    pub fn function_name(&self, idx: usize) -> &str {
        self.m.function_registry.get_function_name(self.functions[idx])
    }

    /// (type, is_in, is_out) of every parameter of function `idx`
    pub fn params(&self, idx: usize) -> R<Vec<(Ty, bool, bool)>> {
        let sig = self.m.function_registry.get_function_signature(self.functions[idx]);
        let mut out = Vec::new();
        for p in &sig.param_types {
            let t = ty_of(self.m, p.type_id)?;
            let (i, o) = match p.input_modifier {
                ir::InputModifier::In => (true, false),
                ir::InputModifier::Out => (false, true),
                ir::InputModifier::InOut => (true, true),
            };
            out.push((t, i, o));
        }
        Ok(out)
    }

    pub fn return_type(&self, idx: usize) -> R<Ty> {
        let sig = self.m.function_registry.get_function_signature(self.functions[idx]);
        ty_of(self.m, sig.return_type.return_type)
    }

    /// Evaluate function `idx` on `args` (one value per parameter; values for `out` parameters are ignored).
    pub fn run(&self, idx: usize, args: &[Value], fuel: u64) -> R<Outcome> {
        let mut it = Interp { m: self.m, globals: HashMap::new(), statics: HashMap::new(), frames: vec![Frame::default()], fuel, trace: Vec::new() };
        // S9: static globals are initialised once per evaluation, in declaration order
        for g in &self.static_globals {
            it.init_global(*g)?;
        }
        let fid = self.functions[idx];
        let imp = self.m.function_registry.get_function_implementation(fid).as_ref().ok_or_else(|| Stop::Unsupported("function without body".into()))?;
        if imp.params.len() != args.len() {
            return Err(Stop::Stuck("argument count".into()));
        }
        let mut frame = Frame::default();
        for (p, a) in imp.params.iter().zip(args.iter()) {
            let t = ty_of(self.m, p.param_type.type_id)?;
            let v = match p.param_type.input_modifier {
                ir::InputModifier::Out => default_value(self.m, &t)?,
                _ => a.clone(),
            };
            frame.locals.insert(p.id.0, v);
        }
        it.frames.push(frame);
        let ret = match it.block(&imp.scope_block.0)? {
            Flow::Return(v) => v,
            _ => Value::Void,
        };
        let frame = it.frames.pop().unwrap();
        let mut outs = Vec::new();
        for (i, p) in imp.params.iter().enumerate() {
            if p.param_type.input_modifier != ir::InputModifier::In {
                outs.push((i, frame.locals.get(&p.id.0).cloned().unwrap_or(Value::Void)));
            }
        }
        let mut globals = Vec::new();
        for g in &self.static_globals {
            globals.push(it.globals.get(&g.0).cloned().unwrap_or(Value::Void));
        }
        Ok(Outcome { ret, outs, globals, builtin_trace: it.trace })
    }
}

impl<'m> Interp<'m> {
    fn burn(&mut self) -> R<()> {
        if self.fuel == 0 {
            return Err(Stop::Fuel);
        }
        self.fuel -= 1;
        Ok(())
    }

    fn init_global(&mut self, id: ir::GlobalId) -> R<()> {
        if self.globals.contains_key(&id.0) {
            return Ok(());
        }
        let g = &self.m.global_registry[id.0 as usize];
        if g.storage_class != ir::GlobalStorage::Static {
            return Err(Stop::Unsupported("non-static global".into()));
        }
        let t = ty_of(self.m, g.type_id)?;
        let v = match &g.init {
            None => default_value(self.m, &t)?,
            Some(init) => self.initializer(&t, init)?,
        };
        self.globals.insert(id.0, v);
        Ok(())
    }

    fn initializer(&mut self, t: &Ty, init: &ir::Initializer) -> R<Value> {
        match init {
            ir::Initializer::Expression(e) => self.eval(e),
            ir::Initializer::Aggregate(list) => match t {
                Ty::Array(et, n) => {
                    if list.len() != *n {
                        return Err(Stop::Unsupported("aggregate initialiser with a different element count".into()));
                    }
                    let mut out = Vec::new();
                    for i in list {
                        out.push(self.initializer(et, i)?);
                    }
                    Ok(Value::Array(out))
                }
                Ty::Struct(si) => {
                    let members = &self.m.struct_registry[*si].members;
                    if list.len() != members.len() {
                        return Err(Stop::Unsupported("aggregate initialiser with a different member count".into()));
                    }
                    let mut out = Vec::new();
                    for (i, mem) in list.iter().zip(members.iter()) {
                        let mt = ty_of(self.m, mem.type_id)?;
                        out.push(self.initializer(&mt, i)?);
                    }
                    Ok(Value::Struct(out))
                }
                Ty::V(st, n) => {
                    if list.len() != *n {
                        return Err(Stop::Unsupported("aggregate initialiser with a different component count".into()));
                    }
                    let mut out = Vec::new();
                    for i in list {
                        match self.initializer(&Ty::S(*st), i)? {
                            Value::S(s) => out.push(s),
                            _ => return Err(Stop::Unsupported("nested aggregate in vector initialiser".into())),
                        }
                    }
                    Ok(Value::V(out))
                }
                Ty::S(_) if list.len() == 1 => self.initializer(t, &list[0]),
                _ => Err(Stop::Unsupported("aggregate initialiser shape".into())),
            },
        }
    }

    // ---- storage

    fn root_ref(&self, r: &Root) -> R<&Value> {
        match r {
            Root::Local(f, id) => self.frames[*f].locals.get(id).ok_or_else(|| Stop::Stuck("read of an undeclared local".into())),
            Root::Global(id) => self.globals.get(id).ok_or_else(|| Stop::Stuck("read of an uninitialised global".into())),
            Root::Static(id) => self.statics.get(id).ok_or_else(|| Stop::Stuck("read of an uninitialised static local".into())),
            Root::Temp(f, i) => Ok(&self.frames[*f].temps[*i]),
        }
    }

    fn read(&self, p: &Place) -> R<Value> {
        read_path(self.root_ref(&p.root)?, &p.path)
    }

    fn write(&mut self, p: &Place, v: Value) -> R<()> {
        let root = match &p.root {
            Root::Local(f, id) => self.frames[*f].locals.get_mut(id).ok_or_else(|| Stop::Stuck("write of an undeclared local".into()))?,
            Root::Global(id) => self.globals.get_mut(id).ok_or_else(|| Stop::Stuck("write of an uninitialised global".into()))?,
            Root::Static(id) => self.statics.get_mut(id).ok_or_else(|| Stop::Stuck("write of an uninitialised static local".into()))?,
            Root::Temp(f, i) => &mut self.frames[*f].temps[*i],
        };
        write_path(root, &p.path, v)
    }

    fn cur(&self) -> usize {
        self.frames.len() - 1
    }

    fn this_place(&self) -> R<Place> {
        self.frames[self.cur()].this.clone().ok_or_else(|| Stop::Stuck("member access outside a method".into()))
    }

    fn place(&mut self, e: &ir::Expression) -> R<Place> {
        use ir::Expression as E;
        match e {
            E::Variable(id) => {
                if self.m.variable_registry.get_local_variable(*id).storage_class == ir::LocalStorage::Static {
                    if !self.statics.contains_key(&id.0) {
                        return Err(Stop::Stuck(format!("static local {} used before its definition", self.m.variable_registry.get_local_variable(*id).name.node)));
                    }
                    return Ok(Place { root: Root::Static(id.0), path: Vec::new() });
                }
                self.check_local(*id)?;
                Ok(Place { root: Root::Local(self.cur(), id.0), path: Vec::new() })
            }
            E::Global(id) => {
                self.init_global(*id)?;
                Ok(Place { root: Root::Global(id.0), path: Vec::new() })
            }
            E::MemberVariable(_, i) => {
                let mut p = self.this_place()?;
                push_step(&mut p.path, Step::Field(*i as usize))?;
                Ok(p)
            }
            E::Swizzle(inner, slots) => {
                let mut p = self.place(inner)?;
                push_step(&mut p.path, Step::Swz(slots.iter().map(slot_index).collect()))?;
                Ok(p)
            }
            E::ArraySubscript(a, i) => {
                let mut p = self.place(a)?;
                let idx = index_of(&self.eval(i)?)?;
                push_step(&mut p.path, Step::Index(idx))?;
                // bounds are checked now so that out-of-range stores are reported as unspecified
                self.read(&p)?;
                Ok(p)
            }
            E::StructMember(inner, _, i) => {
                let mut p = self.place(inner)?;
                push_step(&mut p.path, Step::Field(*i as usize))?;
                Ok(p)
            }
            E::Sequence(list) => {
                let (last, front) = list.split_last().ok_or_else(|| Stop::Stuck("empty sequence".into()))?;
                for x in front {
                    self.eval(x)?;
                }
                self.place(last)
            }
            E::TernaryConditional(c, a, b) => {
                let cv = self.eval(c)?;
                if truth(&cv)? { self.place(a) } else { self.place(b) }
            }
            E::IntrinsicOp(op, args) if is_assign(op) || matches!(op, ir::IntrinsicOp::PrefixIncrement | ir::IntrinsicOp::PrefixDecrement) => {
                let (p, _) = self.modify(op, args)?;
                Ok(p)
            }
            E::Cast(t, inner) => {
                // a cast that only changes modifiers (const) keeps the object
                if let Ok(it) = inner.get_type(self.m) {
                    let a = self.m.type_registry.remove_modifier(it.0);
                    let b = self.m.type_registry.remove_modifier(*t);
                    if a == b && it.1 == ir::ValueType::Lvalue {
                        return self.place(inner);
                    }
                }
                let v = self.eval(e)?;
                Ok(self.temp(v))
            }
            _ => {
                let v = self.eval(e)?;
                Ok(self.temp(v))
            }
        }
    }

    fn temp(&mut self, v: Value) -> Place {
        let f = self.cur();
        self.frames[f].temps.push(v);
        Place { root: Root::Temp(f, self.frames[f].temps.len() - 1), path: Vec::new() }
    }

    fn check_local(&mut self, id: ir::VariableId) -> R<()> {
        let f = self.cur();
        if !self.frames[f].locals.contains_key(&id.0) {
            let def = self.m.variable_registry.get_local_variable(id);
            return Err(Stop::Stuck(format!("local {} used before its definition", def.name.node)));
        }
        Ok(())
    }

    // ---- expressions

    fn eval(&mut self, e: &ir::Expression) -> R<Value> {
        use ir::Expression as E;
        match e {
            E::Literal(c) => constant(c),
            E::Variable(_) | E::Global(_) | E::MemberVariable(..) => {
                let p = self.place(e)?;
                self.read(&p)
            }
            E::ConstantVariable(_) => Err(Stop::Unsupported("constant buffer member".into())),
            E::EnumValue(id) => constant(&self.m.enum_registry.get_enum_value(*id).value),
            E::TernaryConditional(c, a, b) => {
                let cv = self.eval(c)?;
                if truth(&cv)? { self.eval(a) } else { self.eval(b) }
            }
            E::Sequence(list) => {
                let mut last = Value::Void;
                for x in list {
                    last = self.eval(x)?;
                }
                Ok(last)
            }
            E::Swizzle(inner, slots) => {
                let v = self.eval(inner)?;
                read_path(&v, &[Step::Swz(slots.iter().map(slot_index).collect())])
            }
            E::MatrixSwizzle(..) => Err(Stop::Unsupported("matrix".into())),
            E::ArraySubscript(a, i) => {
                let av = self.eval(a)?;
                let idx = index_of(&self.eval(i)?)?;
                read_path(&av, &[Step::Index(idx)])
            }
            E::StructMember(inner, _, i) => {
                let v = self.eval(inner)?;
                read_path(&v, &[Step::Field(*i as usize)])
            }
            E::ObjectMember(..) => Err(Stop::Unsupported("object member".into())),
            E::Call(id, ct, args) => self.call(*id, ct, args),
            E::Constructor(t, slots) => {
                let ty = ty_of(self.m, *t)?;
                let st = ty.scalar().ok_or_else(|| Stop::Unsupported("constructor of a non-numeric type".into()))?;
                let mut out = Vec::new();
                for s in slots {
                    let v = self.eval(&s.expr)?;
                    let sc = v.scalars().ok_or_else(|| Stop::Stuck("non-numeric constructor argument".into()))?;
                    for c in sc {
                        out.push(conv(*c, st)?);
                    }
                }
                match ty {
                    Ty::S(_) if out.len() == 1 => Ok(Value::S(out[0])),
                    Ty::V(_, n) if out.len() == n => Ok(Value::V(out)),
                    _ => Err(Stop::Stuck(format!("constructor of {} given {} components", ty.show(), out.len()))),
                }
            }
            E::Cast(t, inner) => {
                let v = self.eval(inner)?;
                let ty = ty_of(self.m, *t)?;
                if let (Ty::Struct(_) | Ty::Array(..), Value::S(sc)) = (&ty, &v) {
                    return splat_value(self.m, &ty, *sc);
                }
                // the typer does not validate explicit casts: one that has no meaning in HLSL is outside the subset
                convert_value(&v, &ty).map_err(|e| match e {
                    Stop::Stuck(w) => Stop::Unsupported(format!("explicit cast without HLSL meaning (accepted by the typer): {}", w.split(" converted").next().unwrap_or("").trim_start_matches(|c: char| !c.is_alphabetic()).split(' ').next().unwrap_or(""))),
                    other => other,
                })
            }
            E::SizeOf(_) => Err(Stop::Unsupported("sizeof".into())),
            E::IntrinsicOp(op, args) => self.op(op, args),
        }
    }

    fn modify(&mut self, op: &ir::IntrinsicOp, args: &[ir::Expression]) -> R<(Place, Value)> {
        use ir::IntrinsicOp as O;
        match op {
            O::PrefixIncrement | O::PrefixDecrement | O::PostfixIncrement | O::PostfixDecrement => {
                let p = self.place(&args[0])?;
                let old = self.read(&p)?;
                let new = step_value(&old, matches!(op, O::PrefixIncrement | O::PostfixIncrement))?;
                self.write(&p, new.clone())?;
                Ok((p, if matches!(op, O::PrefixIncrement | O::PrefixDecrement) { new } else { old }))
            }
            O::Assignment => {
                let p = self.place(&args[0])?;
                let v = self.eval(&args[1])?;
                self.write(&p, v.clone())?;
                Ok((p, v))
            }
            _ => {
                let b = match op {
                    O::SumAssignment => Bin::Add,
                    O::DifferenceAssignment => Bin::Sub,
                    O::ProductAssignment => Bin::Mul,
                    O::QuotientAssignment => Bin::Div,
                    O::RemainderAssignment => Bin::Mod,
                    O::LeftShiftAssignment => Bin::Shl,
                    O::RightShiftAssignment => Bin::Shr,
                    O::BitwiseAndAssignment => Bin::And,
                    O::BitwiseOrAssignment => Bin::Or,
                    O::BitwiseXorAssignment => Bin::Xor,
                    _ => return Err(Stop::Stuck(format!("{:?} is not a modifying operator", op))),
                };
                let p = self.place(&args[0])?;
                let r = self.eval(&args[1])?;
                let l = self.read(&p)?;
                let v = match (l.st(), r.st()) {
                    (Some(ST::Bool), Some(ST::Bool)) => {
                        // the IR types `b op= c` on bools as bool; HLSL evaluates the emitted `b op= c` as b = (bool)((int)b op (int)c)
                        let n = l.scalars().map(|s| s.len()).unwrap_or(1);
                        let it = if l.is_vector() { Ty::V(ST::Int, n) } else { Ty::S(ST::Int) };
                        let bt = if l.is_vector() { Ty::V(ST::Bool, n) } else { Ty::S(ST::Bool) };
                        let li = convert_value(&l, &it)?;
                        let ri = convert_value(&r, &if r.is_vector() { it.clone() } else { Ty::S(ST::Int) })?;
                        convert_value(&typed_binop(b, &li, &ri)?, &bt)?
                    }
                    (Some(t), _) if t.is_float() && b.is_bitwise() => return Err(Stop::Unsupported("shift / bitwise compound assignment on floating point (accepted by the typer, not HLSL)".into())),
                    _ => typed_binop(b, &l, &r)?,
                };
                self.write(&p, v.clone())?;
                Ok((p, v))
            }
        }
    }

    fn op(&mut self, op: &ir::IntrinsicOp, args: &[ir::Expression]) -> R<Value> {
        use ir::IntrinsicOp as O;
        match op {
            O::PrefixIncrement | O::PrefixDecrement | O::PostfixIncrement | O::PostfixDecrement => Ok(self.modify(op, args)?.1),
            _ if is_assign(op) => Ok(self.modify(op, args)?.1),
            O::Plus | O::Minus | O::LogicalNot | O::BitwiseNot => {
                let v = self.eval(&args[0])?;
                unop_value(
                    match op {
                        O::Plus => Un::Plus,
                        O::Minus => Un::Minus,
                        O::LogicalNot => Un::LNot,
                        _ => Un::BNot,
                    },
                    &v,
                )
            }
            O::BooleanAnd | O::BooleanOr => {
                let a = truth(&self.eval(&args[0])?)?;
                let is_and = matches!(op, O::BooleanAnd);
                if a != is_and {
                    // false && _ , true || _
                    return Ok(Value::S(Sc::B(a)));
                }
                let b = truth(&self.eval(&args[1])?)?;
                Ok(Value::S(Sc::B(b)))
            }
            O::MakeSigned | O::MakeSignedPushZero | O::MeshOutputSetVertex | O::MeshOutputSetPrimitive | O::MeshOutputSetIndices => Err(Stop::Unsupported(format!("{:?}", op))),
            _ => {
                let b = match op {
                    O::Add => Bin::Add,
                    O::Subtract => Bin::Sub,
                    O::Multiply => Bin::Mul,
                    O::Divide => Bin::Div,
                    O::Modulus => Bin::Mod,
                    O::LeftShift => Bin::Shl,
                    O::RightShift => Bin::Shr,
                    O::BitwiseAnd => Bin::And,
                    O::BitwiseOr => Bin::Or,
                    O::BitwiseXor => Bin::Xor,
                    O::LessThan => Bin::Lt,
                    O::LessEqual => Bin::Le,
                    O::GreaterThan => Bin::Gt,
                    O::GreaterEqual => Bin::Ge,
                    O::Equality => Bin::Eq,
                    O::Inequality => Bin::Ne,
                    _ => return Err(Stop::Stuck(format!("{:?}", op))),
                };
                let l = self.eval(&args[0])?;
                let r = self.eval(&args[1])?;
                typed_binop(b, &l, &r)
            }
        }
    }

    fn call(&mut self, id: ir::FunctionId, ct: &ir::CallType, args: &[ir::Expression]) -> R<Value> {
        self.burn()?;
        if let Some(intrinsic) = self.m.function_registry.get_intrinsic_data(id) {
            let sem = builtins::from_ir(intrinsic).ok_or_else(|| Stop::Unsupported(format!("intrinsic {:?}", intrinsic)))?;
            let mut vals = Vec::new();
            for a in args {
                vals.push(self.eval(a)?);
            }
            let refs: Vec<&Value> = vals.iter().collect();
            if sem.is_transcendental() {
                self.trace.push(sem.name());
            }
            return builtins::apply(sem, &refs);
        }
        if self.frames.len() > 48 {
            return Err(Stop::Unsupported("call depth".into()));
        }
        let imp = self.m.function_registry.get_function_implementation(id).as_ref().ok_or_else(|| Stop::Unsupported("call of a function without body".into()))?;
        let (this, args) = match ct {
            ir::CallType::FreeFunction => (None, args),
            ir::CallType::MethodExternal => {
                let (obj, rest) = args.split_first().ok_or_else(|| Stop::Stuck("method call without object".into()))?;
                (Some(self.place(obj)?), rest)
            }
            ir::CallType::MethodInternal => (Some(self.this_place()?), args),
        };
        if args.len() > imp.params.len() {
            return Err(Stop::Stuck("too many arguments".into()));
        }
        let mut frame = Frame { this, ..Frame::default() };
        let mut copy_out: Vec<(Place, u32)> = Vec::new();
        for (i, p) in imp.params.iter().enumerate() {
            let t = ty_of(self.m, p.param_type.type_id)?;
            let v = if i < args.len() {
                match p.param_type.input_modifier {
                    ir::InputModifier::In => self.eval(&args[i])?,
                    ir::InputModifier::Out => {
                        let pl = self.place(&args[i])?;
                        copy_out.push((pl, p.id.0));
                        default_value(self.m, &t)?
                    }
                    ir::InputModifier::InOut => {
                        let pl = self.place(&args[i])?;
                        let v = self.read(&pl)?;
                        copy_out.push((pl, p.id.0));
                        v
                    }
                }
            } else {
                match &p.default_expr {
                    Some(d) => {
                        // default arguments are evaluated in the callee's (global) context
                        self.frames.push(Frame::default());
                        let r = self.eval(d);
                        self.frames.pop();
                        r?
                    }
                    None => return Err(Stop::Stuck("too few arguments".into())),
                }
            };
            frame.locals.insert(p.id.0, v);
        }
        self.frames.push(frame);
        let flow = self.block(&imp.scope_block.0);
        let frame = self.frames.pop().unwrap();
        let ret = match flow? {
            Flow::Return(v) => v,
            _ => Value::Void,
        };
        for (pl, id) in copy_out {
            let v = frame.locals.get(&id).cloned().ok_or_else(|| Stop::Stuck("lost parameter".into()))?;
            self.write(&pl, v)?;
        }
        Ok(ret)
    }

    // ---- statements

    fn block(&mut self, stmts: &[ir::Statement]) -> R<Flow> {
        for s in stmts {
            match self.stmt(s)? {
                Flow::Normal => {}
                f => return Ok(f),
            }
        }
        Ok(Flow::Normal)
    }

    fn vardef(&mut self, d: &ir::VarDef) -> R<()> {
        let def = self.m.variable_registry.get_local_variable(d.id);
        let t = ty_of(self.m, def.type_id)?;
        if def.storage_class == ir::LocalStorage::Static {
            // initialised the first time the definition is executed, then kept for the rest of the evaluation
            if !self.statics.contains_key(&d.id.0) {
                let v = match &d.init {
                    None => default_value(self.m, &t)?,
                    Some(i) => self.initializer(&t, i)?,
                };
                self.statics.insert(d.id.0, v);
            }
            return Ok(());
        }
        let v = match &d.init {
            None => default_value(self.m, &t)?,
            Some(i) => self.initializer(&t, i)?,
        };
        let f = self.cur();
        self.frames[f].locals.insert(d.id.0, v);
        Ok(())
    }

    fn stmt(&mut self, s: &ir::Statement) -> R<Flow> {
        use ir::StatementKind as K;
        match &s.kind {
            K::Expression(e) => {
                self.eval(e)?;
                Ok(Flow::Normal)
            }
            K::Var(d) => {
                self.vardef(d)?;
                Ok(Flow::Normal)
            }
            K::Block(b) => self.block(&b.0),
            K::If(c, b) => {
                let cv = self.eval(c)?;
                if truth(&cv)? { self.block(&b.0) } else { Ok(Flow::Normal) }
            }
            K::IfElse(c, a, b) => {
                let cv = self.eval(c)?;
                if truth(&cv)? { self.block(&a.0) } else { self.block(&b.0) }
            }
            K::For(init, cond, inc, body) => {
                match init {
                    ir::ForInit::Empty => {}
                    ir::ForInit::Expression(e) => {
                        self.eval(e)?;
                    }
                    ir::ForInit::Definitions(defs) => {
                        for d in defs {
                            self.vardef(d)?;
                        }
                    }
                }
                loop {
                    self.burn()?;
                    if let Some(c) = cond {
                        let cv = self.eval(c)?;
                        if !truth(&cv)? {
                            break;
                        }
                    }
                    match self.block(&body.0)? {
                        Flow::Break => break,
                        Flow::Return(v) => return Ok(Flow::Return(v)),
                        _ => {}
                    }
                    if let Some(i) = inc {
                        self.eval(i)?;
                    }
                }
                Ok(Flow::Normal)
            }
            K::While(c, body) => {
                loop {
                    self.burn()?;
                    let cv = self.eval(c)?;
                    if !truth(&cv)? {
                        break;
                    }
                    match self.block(&body.0)? {
                        Flow::Break => break,
                        Flow::Return(v) => return Ok(Flow::Return(v)),
                        _ => {}
                    }
                }
                Ok(Flow::Normal)
            }
            K::DoWhile(body, c) => {
                loop {
                    self.burn()?;
                    match self.block(&body.0)? {
                        Flow::Break => break,
                        Flow::Return(v) => return Ok(Flow::Return(v)),
                        _ => {}
                    }
                    let cv = self.eval(c)?;
                    if !truth(&cv)? {
                        break;
                    }
                }
                Ok(Flow::Normal)
            }
            K::Switch(c, body) => {
                let cv = self.eval(c)?;
                let key = int_key(&cv)?;
                let mut start = None;
                let mut default = None;
                for (i, st) in body.0.iter().enumerate() {
                    match &st.kind {
                        K::CaseLabel(k) => {
                            if start.is_none() && int_key(&constant(k)?)? == key {
                                start = Some(i);
                            }
                        }
                        K::DefaultLabel => default = Some(i),
                        _ => {}
                    }
                }
                if let Some(from) = start.or(default) {
                    for st in &body.0[from..] {
                        match self.stmt(st)? {
                            Flow::Normal => {}
                            Flow::Break => break,
                            f => return Ok(f),
                        }
                    }
                }
                Ok(Flow::Normal)
            }
            K::Break => Ok(Flow::Break),
            K::Continue => Ok(Flow::Continue),
            K::Discard => Err(Stop::Unsupported("discard".into())),
            K::Return(None) => Ok(Flow::Return(Value::Void)),
            K::Return(Some(e)) => Ok(Flow::Return(self.eval(e)?)),
            K::CaseLabel(_) | K::DefaultLabel => Ok(Flow::Normal),
        }
    }
}

fn is_assign(op: &ir::IntrinsicOp) -> bool {
    use ir::IntrinsicOp as O;
    matches!(
        op,
        O::Assignment
            | O::SumAssignment
            | O::DifferenceAssignment
            | O::ProductAssignment
            | O::QuotientAssignment
            | O::RemainderAssignment
            | O::LeftShiftAssignment
            | O::RightShiftAssignment
            | O::BitwiseAndAssignment
            | O::BitwiseOrAssignment
            | O::BitwiseXorAssignment
    )
}

/// integer value of a switch selector / case label
pub fn int_key(v: &Value) -> R<i64> {
    match v {
        Value::S(Sc::I(x)) => Ok(*x as i64),
        Value::S(Sc::U(x)) => Ok(*x as i64),
        Value::S(Sc::LI(x)) => Ok(*x),
        Value::S(Sc::B(x)) => Ok(*x as i64),
        Value::S(Sc::Undef) => Err(Stop::Unspec("read of an uninitialised value")),
        _ => Err(Stop::Unsupported("switch on a non-integer".into())),
    }
}

/// binary operation of the typed IR: both operands already have the operation's type (literal types adapt, S6);
/// operands of two different non-literal types mean the IR is not what the typer promises
fn typed_binop(op: Bin, l: &Value, r: &Value) -> R<Value> {
    if let (Some(a), Some(b)) = (l.st(), r.st()) {
        let lit = |t: ST| matches!(t, ST::LitInt | ST::LitFloat);
        if a != b && !lit(a) && !lit(b) {
            return Err(Stop::Stuck(format!("typed IR applies {:?} to {} and {}", op, a.name(), b.name())));
        }
    }
    binop_value(op, l, r)
}

//! Exploration engine shared by all property checks: deterministic parallel enumeration, panic
//! capture, violation bookkeeping, known-finding matching, evidence writing and exit codes.

use crate::json::{self, Json, obj};
use std::cell::RefCell;
use std::collections::{BTreeMap, HashSet};
use std::hash::{Hash, Hasher};
use std::panic::{AssertUnwindSafe, catch_unwind};
use std::sync::Mutex;
use std::sync::atomic::{AtomicBool, AtomicU64, Ordering};
use std::time::{Duration, Instant};

#[derive(Copy, Clone, PartialEq, Eq, Debug)]
pub enum Tier {
    Quick,
    Thorough,
}

pub struct Ctx {
    pub prop: String,
    pub tier: Tier,
    pub seed: u64,
    pub jobs: usize,
    pub start: Instant,
    /// soft wall-clock budget for the whole check; engines stop claiming work after it and report a cap
    pub budget: Duration,
}

impl Ctx {
    pub fn quick(&self) -> bool {
        self.tier == Tier::Quick
    }
    pub fn pick<T>(&self, quick: T, thorough: T) -> T {
        if self.quick() { quick } else { thorough }
    }
    pub fn out_of_time(&self) -> bool {
        self.start.elapsed() > self.budget
    }
}

#[derive(Clone, Debug)]
pub struct Violation {
    /// stable class of the failure (matched against known_findings.json)
    pub signature: String,
    /// one-line human description (expected vs observed)
    pub detail: String,
    /// replayable artefact: the minimal input / history, written to /verif/replays
    pub replay: String,
}

/// Per-worker accumulator, merged at the end.
#[derive(Default)]
pub struct Acc {
    pub evals: u64,
    pub nontrivial: HashSet<u64>,
    /// signature -> (count, lowest index, first violation)
    pub viol: BTreeMap<String, (u64, u64, Violation)>,
    pub counters: BTreeMap<String, u64>,
    pub samples: Vec<(u64, Json)>,
    pub cur_index: u64,
}

impl Acc {
    pub fn count(&mut self, key: &str) {
        *self.counters.entry(key.to_string()).or_insert(0) += 1;
    }
    pub fn add(&mut self, key: &str, n: u64) {
        *self.counters.entry(key.to_string()).or_insert(0) += n;
    }
    pub fn max(&mut self, key: &str, n: u64) {
        let e = self.counters.entry(key.to_string()).or_insert(0);
        if n > *e {
            *e = n;
        }
    }
    /// record a distinct non-trivial outcome by hash
    pub fn outcome<H: Hash>(&mut self, h: &H) {
        self.nontrivial.insert(hash_of(h));
    }
    pub fn violation(&mut self, v: Violation) {
        let idx = self.cur_index;
        match self.viol.get_mut(&v.signature) {
            Some(e) => {
                e.0 += 1;
                if idx < e.1 || (idx == e.1 && v.replay.len() < e.2.replay.len()) {
                    e.1 = idx;
                    e.2 = v;
                }
            }
            None => {
                self.viol.insert(v.signature.clone(), (1, idx, v));
            }
        }
    }
    pub fn sample(&mut self, j: Json) {
        // keep a few, spread: first 2 per worker chunk stream + later ones replaced by index parity
        if self.samples.len() < 4 {
            self.samples.push((self.cur_index, j));
        }
    }
    pub fn merge(&mut self, other: Acc) {
        self.evals += other.evals;
        self.nontrivial.extend(other.nontrivial);
        for (k, (n, idx, v)) in other.viol {
            match self.viol.get_mut(&k) {
                Some(e) => {
                    e.0 += n;
                    if idx < e.1 {
                        e.1 = idx;
                        e.2 = v;
                    }
                }
                None => {
                    self.viol.insert(k, (n, idx, v));
                }
            }
        }
        for (k, n) in other.counters {
            if k.starts_with("max_") {
                let e = self.counters.entry(k).or_insert(0);
                if n > *e {
                    *e = n;
                }
            } else {
                *self.counters.entry(k).or_insert(0) += n;
            }
        }
        self.samples.extend(other.samples);
    }
}

pub fn hash_of<H: Hash>(h: &H) -> u64 {
    let mut s = Fnv(0xcbf29ce484222325);
    h.hash(&mut s);
    s.0
}

pub struct Fnv(pub u64);
impl Hasher for Fnv {
    fn finish(&self) -> u64 {
        self.0
    }
    fn write(&mut self, bytes: &[u8]) {
        for b in bytes {
            self.0 ^= *b as u64;
            self.0 = self.0.wrapping_mul(0x100000001b3);
        }
    }
}

/// Result of a parallel enumeration: `completed` is false when the time budget stopped it early.
pub struct ParResult {
    pub acc: Acc,
    pub completed: bool,
    pub reached: u64,
    pub total: u64,
}

/// Enumerate indices 0..total on `ctx.jobs` threads, in contiguous chunks handed out in increasing
/// order (so the set of cases is fixed; only the assignment to threads varies). `f(idx, acc)` runs
/// the real code on case `idx`. VERIF_SEED rotates which chunk is started first, nothing else.
pub fn run_par<F>(ctx: &Ctx, total: u64, chunk: u64, f: F) -> ParResult
where
    F: Fn(u64, &mut Acc) + Sync,
{
    let chunk = chunk.max(1);
    let nchunks = total.div_ceil(chunk);
    let next = AtomicU64::new(0);
    let stop = AtomicBool::new(false);
    let done_chunks = AtomicU64::new(0);
    let rot = if nchunks > 0 { ctx.seed % nchunks } else { 0 };
    let merged = Mutex::new(Acc::default());
    std::thread::scope(|s| {
        for _ in 0..ctx.jobs.max(1) {
            s.spawn(|| {
                let mut acc = Acc::default();
                loop {
                    if stop.load(Ordering::Relaxed) {
                        break;
                    }
                    let c = next.fetch_add(1, Ordering::Relaxed);
                    if c >= nchunks {
                        break;
                    }
                    if ctx.out_of_time() {
                        stop.store(true, Ordering::Relaxed);
                        break;
                    }
                    let c = (c + rot) % nchunks;
                    let lo = c * chunk;
                    let hi = (lo + chunk).min(total);
                    for idx in lo..hi {
                        acc.cur_index = idx;
                        f(idx, &mut acc);
                    }
                    done_chunks.fetch_add(1, Ordering::Relaxed);
                }
                merged.lock().unwrap().merge(acc);
            });
        }
    });
    let acc = merged.into_inner().unwrap();
    let dc = done_chunks.load(Ordering::Relaxed);
    ParResult { acc, completed: dc == nchunks, reached: (dc * chunk).min(total), total }
}

// ---------------------------------------------------------------------------------------------
// panic capture

thread_local! {
    static LAST_PANIC: RefCell<Option<(String, String)>> = const { RefCell::new(None) };
}

pub fn install_panic_hook() {
    std::panic::set_hook(Box::new(|info| {
        let loc = info
            .location()
            .map(|l| l.file().to_string())
            .unwrap_or_else(|| "?".into());
        let msg = if let Some(s) = info.payload().downcast_ref::<&str>() {
            s.to_string()
        } else if let Some(s) = info.payload().downcast_ref::<String>() {
            s.clone()
        } else {
            "<non-string panic>".to_string()
        };
        LAST_PANIC.with(|p| *p.borrow_mut() = Some((loc, msg)));
    }));
}

#[derive(Clone, Debug)]
pub struct PanicInfo {
    pub file: String,
    pub message: String,
}

impl PanicInfo {
    /// `panic|<repo-relative file>|<message with digits -> #, truncated>`
    pub fn signature(&self) -> String {
        // path of the source file relative to the repository root, wherever the checkout lives
        let file = match self.file.rfind("/repo/") {
            Some(p) => &self.file[p + 6..],
            None => &self.file,
        };
        let mut msg = String::new();
        let mut last_hash = false;
        for c in self.message.chars().take(90) {
            if c.is_ascii_digit() {
                if !last_hash {
                    msg.push('#');
                }
                last_hash = true;
            } else if c == '\n' {
                break;
            } else {
                msg.push(c);
                last_hash = false;
            }
        }
        format!("panic|{}|{}", file, msg.trim())
    }
}

/// Run the subject, turning a panic into a value.
pub fn guard<T>(f: impl FnOnce() -> T) -> Result<T, PanicInfo> {
    LAST_PANIC.with(|p| *p.borrow_mut() = None);
    match catch_unwind(AssertUnwindSafe(f)) {
        Ok(v) => Ok(v),
        Err(_) => {
            let (file, message) = LAST_PANIC
                .with(|p| p.borrow_mut().take())
                .unwrap_or(("?".into(), "?".into()));
            Err(PanicInfo { file, message })
        }
    }
}

// ---------------------------------------------------------------------------------------------
// known findings

pub struct Finding {
    pub property: String,
    pub status: String,
    pub signature: String,
    pub what_fails: String,
}

/// Root of the verification tree (`/verif`; a private copy sets VERIF_ROOT while a check is being developed)
pub fn root() -> String {
    std::env::var("VERIF_ROOT").unwrap_or_else(|_| "/verif".to_string())
}

pub fn load_findings() -> Vec<Finding> {
    let path = &format!("{}/known_findings.json", root());
    let text = match std::fs::read_to_string(path) {
        Ok(t) => t,
        Err(_) => return Vec::new(),
    };
    let j = match json::parse(&text) {
        Ok(j) => j,
        Err(e) => {
            eprintln!("machinery error: cannot parse {}: {}", path, e);
            std::process::exit(2);
        }
    };
    let mut out = Vec::new();
    if let Some(arr) = j.get("findings").and_then(|a| a.as_arr()) {
        for f in arr {
            let g = |k: &str| f.get(k).and_then(|v| v.as_str()).unwrap_or("").to_string();
            out.push(Finding {
                property: g("property"),
                status: g("status"),
                signature: g("signature"),
                what_fails: g("what_fails"),
            });
        }
    }
    out
}

// ---------------------------------------------------------------------------------------------
// report

pub struct Report {
    pub level: &'static str,
    pub acc: Acc,
    pub coverage: Vec<(String, Json)>,
    pub assumptions: Vec<String>,
    pub rule: String,
    pub exhaustive: bool,
    pub caps_hit: Vec<String>,
}

impl Report {
    pub fn new(level: &'static str) -> Report {
        Report {
            level,
            acc: Acc::default(),
            coverage: Vec::new(),
            assumptions: Vec::new(),
            rule: String::new(),
            exhaustive: true,
            caps_hit: Vec::new(),
        }
    }
    pub fn absorb(&mut self, name: &str, r: ParResult) {
        if !r.completed {
            self.exhaustive = false;
            self.caps_hit.push(format!(
                "{}: time budget reached after {} of {} cases",
                name, r.reached, r.total
            ));
        }
        self.cov(&format!("space_{}", name), Json::Int(r.total as i64));
        self.acc.merge(r.acc);
    }
    pub fn cov(&mut self, key: &str, v: Json) {
        if let Some(slot) = self.coverage.iter_mut().find(|(k, _)| k == key) {
            slot.1 = v;
        } else {
            self.coverage.push((key.to_string(), v));
        }
    }
}

/// Write evidence, print verdict lines, return the process exit code.
pub fn finish(ctx: &Ctx, mut rep: Report) -> i32 {
    let findings = load_findings();
    let mut exit = 0;
    let mut unknown = 0;
    let mut known_seen = Vec::new();
    let _ = std::fs::create_dir_all(format!("{}/replays", root()));
    // the replay directory describes the last run of this property only
    if let Ok(rd) = std::fs::read_dir(format!("{}/replays", root())) {
        let prefix = format!("{}-", ctx.prop);
        for e in rd.flatten() {
            let name = e.file_name().to_string_lossy().to_string();
            if name.starts_with(&prefix) && name.ends_with(".txt") {
                let _ = std::fs::remove_file(e.path());
            }
        }
    }
    let mut viol_list = Vec::new();
    let mut n = 0;
    // stable order: by lowest index then signature
    let mut v: Vec<_> = rep.acc.viol.iter().collect();
    v.sort_by(|a, b| (a.1.1, a.0).cmp(&(b.1.1, b.0)));
    for (sig, (count, _idx, viol)) in v {
        let known = findings
            .iter()
            .find(|f| f.property == ctx.prop && f.signature == *sig && f.status == "known");
        if let Some(f) = known {
            known_seen.push(sig.clone());
            println!(
                "KNOWN-FINDING: property={} {} — {} (reproduced in {} cases; e.g. {})",
                ctx.prop,
                sig,
                f.what_fails,
                count,
                one_line(&viol.detail, 160)
            );
            viol_list.push(obj(vec![
                ("signature", sig.as_str().into()),
                ("status", "known-finding".into()),
                ("cases", (*count).into()),
            ]));
        } else if sig.starts_with("machinery|") || sig.starts_with("harness|") {
            // a case the harness could not judge (its generated input did not reach the code under test, its own model
            // disagreed with itself): outside the property, never a verdict; visible here and in the evidence
            println!("UNJUDGED: property={} {} ({} cases; e.g. {})", ctx.prop, sig, count, one_line(&viol.detail, 200));
            viol_list.push(obj(vec![
                ("signature", sig.as_str().into()),
                ("status", "unjudged".into()),
                ("cases", (*count).into()),
            ]));
        } else {
            unknown += 1;
            n += 1;
            let path = format!("{}/replays/{}-{}.txt", root(), ctx.prop, n);
            let body = format!(
                "property: {}\nsignature: {}\ndetail: {}\ncases_with_this_signature: {}\n---\n{}",
                ctx.prop, sig, viol.detail, count, viol.replay
            );
            let _ = std::fs::write(&path, body);
            if n <= 40 {
                println!("VIOLATION property={} replay={}", ctx.prop, path);
                println!("  signature: {}", sig);
                println!("  detail: {}", one_line(&viol.detail, 400));
            }
            viol_list.push(obj(vec![
                ("signature", sig.as_str().into()),
                ("status", "violation".into()),
                ("cases", (*count).into()),
                ("replay", path.into()),
            ]));
            exit = 1;
        }
    }
    // known findings not reproduced this run are only mentioned on stderr (never a KNOWN-FINDING line)
    for f in findings.iter().filter(|f| f.property == ctx.prop && f.status == "known") {
        if !known_seen.contains(&f.signature) {
            eprintln!("note: listed finding not reproduced in this tier: {}", f.signature);
        }
    }

    rep.acc.samples.sort_by_key(|s| s.0);
    let mut samples: Vec<Json> = Vec::new();
    let ns = rep.acc.samples.len();
    if ns > 0 {
        let want = 6.min(ns);
        for i in 0..want {
            let k = (i * ns / want + (ctx.seed as usize % ns.max(1)) * 0) % ns;
            samples.push(rep.acc.samples[k].1.clone());
        }
    }
    let mut coverage: Vec<(String, Json)> = vec![
        ("evaluations".into(), Json::Int(rep.acc.evals as i64)),
        ("distinct_nontrivial".into(), Json::Int(rep.acc.nontrivial.len() as i64)),
        ("rule".into(), rep.rule.clone().into()),
        ("samples".into(), Json::Arr(samples)),
        ("exhaustive".into(), Json::Bool(rep.exhaustive)),
        ("caps_hit".into(), rep.caps_hit.clone().into()),
    ];
    coverage.extend(rep.coverage.clone());
    coverage.push(("counters".into(), (&rep.acc.counters).into()));
    coverage.push(("violation_classes".into(), Json::Arr(viol_list)));
    let ev = obj(vec![
        ("property_id", ctx.prop.as_str().into()),
        ("tier", (if ctx.quick() { "quick" } else { "thorough" }).into()),
        ("seed", Json::Int(ctx.seed as i64)),
        ("level", rep.level.into()),
        ("coverage", Json::Obj(coverage)),
        ("assumptions", rep.assumptions.clone().into()),
        ("wall_s", Json::Num(ctx.start.elapsed().as_secs_f64())),
        ("violations", Json::Int(unknown)),
        ("jobs", ctx.jobs.into()),
    ]);
    let _ = std::fs::create_dir_all(format!("{}/evidence", root()));
    let path = format!("{}/evidence/{}.json", root(), ctx.prop);
    if let Err(e) = std::fs::write(&path, ev.to_string_pretty()) {
        eprintln!("machinery error: cannot write {}: {}", path, e);
        return 2;
    }
    println!(
        "{} {}: evaluations={} distinct_nontrivial={} exhaustive={} violations={} known={} wall={:.1}s",
        ctx.prop,
        if ctx.quick() { "quick" } else { "thorough" },
        rep.acc.evals,
        rep.acc.nontrivial.len(),
        rep.exhaustive,
        unknown,
        known_seen.len(),
        ctx.start.elapsed().as_secs_f64()
    );
    exit
}

pub fn one_line(s: &str, max: usize) -> String {
    let mut out = String::new();
    for c in s.chars() {
        if out.len() >= max {
            out.push('…');
            break;
        }
        match c {
            '\n' => out.push_str("\\n"),
            '\r' => out.push_str("\\r"),
            c => out.push(c),
        }
    }
    out
}

/// CPU time of the calling thread, seconds.
pub fn thread_cpu_s() -> f64 {
    #[repr(C)]
    struct Timespec {
        tv_sec: i64,
        tv_nsec: i64,
    }
    unsafe extern "C" {
        fn clock_gettime(clk: i32, ts: *mut Timespec) -> i32;
    }
    let mut ts = Timespec { tv_sec: 0, tv_nsec: 0 };
    // CLOCK_THREAD_CPUTIME_ID = 3 on Linux
    unsafe {
        clock_gettime(3, &mut ts);
    }
    ts.tv_sec as f64 + ts.tv_nsec as f64 * 1e-9
}

/// Verdict for `--replay`: prints the violations of the replayed case; never rewrites evidence.
pub fn finish_replay(ctx: &Ctx, acc: &Acc) -> i32 {
    let mut real = 0;
    for (sig, (_, _, v)) in &acc.viol {
        if sig.starts_with("machinery|") || sig.starts_with("harness|") {
            println!("UNJUDGED: property={} {} ({})", ctx.prop, sig, one_line(&v.detail, 300));
            continue;
        }
        real += 1;
        println!("VIOLATION property={} replay=(replayed) signature={}", ctx.prop, sig);
        println!("  detail: {}", one_line(&v.detail, 600));
    }
    if real == 0 {
        println!("replay: property held on this case");
        0
    } else {
        1
    }
}

// ---------------------------------------------------------------------------------------------
// isolated execution: cases run in child processes so that aborts, stack overflows and hangs of the subject are
// observed (and attributed to one case) instead of killing the check

fn esc(s: &str) -> String {
    s.replace('\\', "\\\\").replace('\n', "\\n").replace('\t', "\\t").replace('\r', "\\r")
}

fn unesc(s: &str) -> String {
    let mut out = String::new();
    let mut it = s.chars();
    while let Some(c) = it.next() {
        if c == '\\' {
            match it.next() {
                Some('n') => out.push('\n'),
                Some('t') => out.push('\t'),
                Some('r') => out.push('\r'),
                Some('\\') => out.push('\\'),
                Some(o) => out.push(o),
                None => {}
            }
        } else {
            out.push(c);
        }
    }
    out
}

/// Per-case CPU-time limit inside a worker (seconds); a case exceeding it is reported as a timeout
pub const CASE_TIME_LIMIT_S: f64 = 10.0;

/// Child side. Runs cases lo..hi of `case(idx, acc)`. In careful mode prints `B <idx>` (flushed) before each case.
/// A watchdog thread exits the process with code 3 after printing `T <idx>` when one case exceeds the limit.
pub fn worker_loop(lo: u64, hi: u64, careful: bool, case: &(dyn Fn(u64, &mut Acc) + Sync)) -> i32 {
    use std::io::Write;
    use std::sync::Arc;
    let current = Arc::new(AtomicU64::new(u64::MAX));
    // CPU seconds consumed by this process when the current case started: the limit is on CPU time, so a loaded
    // machine cannot turn a slow-but-finite case into a timeout
    let started = Arc::new(Mutex::new(process_cpu_s()));
    {
        let current = current.clone();
        let started = started.clone();
        std::thread::spawn(move || {
            loop {
                std::thread::sleep(Duration::from_millis(50));
                let idx = current.load(Ordering::SeqCst);
                if idx != u64::MAX && process_cpu_s() - *started.lock().unwrap() > CASE_TIME_LIMIT_S {
                    // the case may have just finished: re-check
                    if current.load(Ordering::SeqCst) == idx {
                        let out = std::io::stdout();
                        let mut l = out.lock();
                        let _ = writeln!(l, "T {}", idx);
                        let _ = l.flush();
                        std::process::exit(3);
                    }
                }
            }
        });
    }
    let body = move || {
        let mut acc = Acc::default();
        let out = std::io::stdout();
        for idx in lo..hi {
            if careful {
                let mut l = out.lock();
                let _ = writeln!(l, "B {}", idx);
                let _ = l.flush();
            }
            *started.lock().unwrap() = process_cpu_s();
            current.store(idx, Ordering::SeqCst);
            acc.cur_index = idx;
            case(idx, &mut acc);
            current.store(u64::MAX, Ordering::SeqCst);
        }
        let mut l = out.lock();
        let _ = writeln!(l, "E {}", acc.evals);
        for h in acc.nontrivial.iter().take(200_000) {
            let _ = writeln!(l, "H {}", h);
        }
        for (k, n) in &acc.counters {
            let _ = writeln!(l, "C {}\t{}", esc(k), n);
        }
        for (sig, (n, idx, v)) in &acc.viol {
            let _ = writeln!(l, "V {}\t{}\t{}\t{}\t{}", esc(sig), n, idx, esc(&v.detail), esc(&v.replay));
        }
        for (idx, s) in &acc.samples {
            let _ = writeln!(l, "S {}\t{}", idx, esc(&s.to_string_pretty()));
        }
        let _ = writeln!(l, "DONE");
        let _ = l.flush();
    };
    // explicit 8 MiB stack: the calibration point for stack-depth findings
    std::thread::scope(|sc| {
        let h = std::thread::Builder::new().stack_size(8 << 20).spawn_scoped(sc, body);
        match h {
            Ok(h) => {
                if h.join().is_ok() { 0 } else { 4 }
            }
            Err(_) => 4,
        }
    })
}

/// What the supervisor learned from one child
struct ChildOutcome {
    acc: Acc,
    done: bool,
    last_begun: Option<u64>,
    timed_out: Option<u64>,
    status: String,
}

fn run_child(prop: &str, space: &str, lo: u64, hi: u64, careful: bool, extra: &[String]) -> ChildOutcome {
    use std::io::{BufRead, BufReader};
    use std::process::{Command, Stdio};
    let exe = std::env::current_exe().expect("current exe");
    let mut cmd = Command::new(exe);
    cmd.arg("--worker").arg(prop).arg(space).arg(lo.to_string()).arg(hi.to_string()).arg(if careful { "careful" } else { "fast" });
    for e in extra {
        cmd.arg(e);
    }
    cmd.stdout(Stdio::piped()).stderr(Stdio::null()).stdin(Stdio::null());
    let mut child = match cmd.spawn() {
        Ok(c) => c,
        Err(e) => {
            return ChildOutcome { acc: Acc::default(), done: false, last_begun: None, timed_out: None, status: format!("spawn failed: {}", e) };
        }
    };
    let stdout = child.stdout.take().unwrap();
    let mut acc = Acc::default();
    let mut done = false;
    let mut last_begun = None;
    let mut timed_out = None;
    for line in BufReader::new(stdout).lines().map_while(Result::ok) {
        let (tag, rest) = line.split_at(line.len().min(2));
        match tag {
            "B " => last_begun = rest.trim().parse().ok(),
            "T " => timed_out = rest.trim().parse().ok(),
            "E " => acc.evals += rest.trim().parse::<u64>().unwrap_or(0),
            "H " => {
                if let Ok(h) = rest.trim().parse::<u64>() {
                    acc.nontrivial.insert(h);
                }
            }
            "C " => {
                let mut it = rest.split('\t');
                if let (Some(k), Some(n)) = (it.next(), it.next()) {
                    let k = unesc(k);
                    let n = n.parse().unwrap_or(0);
                    if k.starts_with("max_") { acc.max(&k, n) } else { acc.add(&k, n) }
                }
            }
            "V " => {
                let f: Vec<&str> = rest.split('\t').collect();
                if f.len() == 5 {
                    let sig = unesc(f[0]);
                    let n: u64 = f[1].parse().unwrap_or(1);
                    let idx: u64 = f[2].parse().unwrap_or(0);
                    let v = Violation { signature: sig.clone(), detail: unesc(f[3]), replay: unesc(f[4]) };
                    acc.viol.insert(sig, (n, idx, v));
                }
            }
            "S " => {
                if let Some((i, j)) = rest.split_once('\t') {
                    if let Ok(j) = json::parse(&unesc(j)) {
                        acc.samples.push((i.parse().unwrap_or(0), j));
                    }
                }
            }
            _ => {
                if line == "DONE" {
                    done = true;
                }
            }
        }
    }
    let status = match child.wait() {
        Ok(s) => format!("{}", s),
        Err(e) => format!("wait failed: {}", e),
    };
    ChildOutcome { acc, done, last_begun, timed_out, status }
}

/// Supervisor side: enumerate 0..total in child processes (one chunk per child, `ctx.jobs` children at a time).
/// `describe(idx)` renders a case for the replay file of an abort/timeout (the supervisor never runs the subject).
/// `monotone`: the cases of a chunk are members of one family ordered by size; after the first abort/timeout the
/// larger members are skipped (they would die the same way) and counted.
pub fn run_isolated(ctx: &Ctx, space: &str, total: u64, chunk: u64, extra: &[String], monotone: bool, describe: &(dyn Fn(u64) -> (String, String) + Sync)) -> ParResult {
    let chunk = chunk.max(1);
    let nchunks = total.div_ceil(chunk);
    let next = AtomicU64::new(0);
    let done_chunks = AtomicU64::new(0);
    let merged = Mutex::new(Acc::default());
    std::thread::scope(|s| {
        for _ in 0..ctx.jobs.max(1) {
            s.spawn(|| {
                loop {
                    let c = next.fetch_add(1, Ordering::Relaxed);
                    if c >= nchunks || ctx.out_of_time() {
                        break;
                    }
                    let lo = c * chunk;
                    let hi = (lo + chunk).min(total);
                    let mut local = Acc::default();
                    let first = run_child(&ctx.prop, space, lo, hi, false, extra);
                    if first.done {
                        local.merge(first.acc);
                    } else {
                        // the child died: redo the chunk carefully to find the culprit(s)
                        let mut from = lo;
                        let mut guard_iterations = 0;
                        while from < hi && guard_iterations < 64 {
                            guard_iterations += 1;
                            let o = run_child(&ctx.prop, space, from, hi, true, extra);
                            if o.done {
                                local.merge(o.acc);
                                break;
                            }
                            let culprit = o.timed_out.or(o.last_begun);
                            match culprit {
                                Some(idx) => {
                                    let (family, replay) = describe(idx);
                                    // one class per family however the worker died: whether an input that exhausts a resource ends
                                    // in a stack overflow, an allocation failure, the OOM killer or the CPU limit depends on the machine
                                    let sig = format!("died|{}", family);
                                    local.count(&format!("deaths_by_cause {}", if o.timed_out.is_some() { "cpu-limit".to_string() } else { signal_name(&o.status) }));
                                    local.cur_index = idx;
                                    local.evals += 1;
                                    local.violation(Violation {
                                        signature: sig,
                                        detail: format!("case {} of space {}: worker {} ({}); limit {} s per case", idx, space, if o.timed_out.is_some() { "exceeded the time limit" } else { "died" }, o.status, CASE_TIME_LIMIT_S),
                                        replay,
                                    });
                                    from = idx + 1;
                                    if monotone {
                                        local.add("larger_family_members_skipped_after_a_death", hi - from);
                                        break;
                                    }
                                }
                                None => {
                                    local.violation(Violation {
                                        signature: "machinery|worker-died-before-first-case".into(),
                                        detail: format!("space {} chunk {}..{}: {}", space, from, hi, o.status),
                                        replay: String::new(),
                                    });
                                    break;
                                }
                            }
                        }
                    }
                    done_chunks.fetch_add(1, Ordering::Relaxed);
                    merged.lock().unwrap().merge(local);
                }
            });
        }
    });
    let acc = merged.into_inner().unwrap();
    let dc = done_chunks.load(Ordering::Relaxed);
    ParResult { acc, completed: dc == nchunks, reached: (dc * chunk).min(total), total }
}

fn signal_name(status: &str) -> String {
    if status.contains("signal: 11") || status.contains("SIGSEGV") {
        "SIGSEGV(stack-overflow)".into()
    } else if status.contains("signal: 6") || status.contains("SIGABRT") {
        // Rust aborts with SIGABRT on stack overflow ("thread has overflowed its stack") and on allocation failure
        "SIGABRT(stack-overflow-or-alloc-failure)".into()
    } else if status.contains("signal: 9") {
        "SIGKILL".into()
    } else {
        status.replace(' ', "-")
    }
}

/// CPU time consumed by the whole process, seconds.
pub fn process_cpu_s() -> f64 {
    #[repr(C)]
    struct Timespec {
        tv_sec: i64,
        tv_nsec: i64,
    }
    unsafe extern "C" {
        fn clock_gettime(clk: i32, ts: *mut Timespec) -> i32;
    }
    let mut ts = Timespec { tv_sec: 0, tv_nsec: 0 };
    // CLOCK_PROCESS_CPUTIME_ID = 2 on Linux
    unsafe {
        clock_gettime(2, &mut ts);
    }
    ts.tv_sec as f64 + ts.tv_nsec as f64 * 1e-9
}

pub mod ast_norm;
pub mod engine;
pub mod exec;
pub mod ir_typecheck;
pub mod json;
pub mod props;
pub mod util;

//! C13 — compile-time constant evaluation matches run-time semantics.
//!
//! Bounded exhaustive exploration of constant-expression trees (see DESIGN.md §5 C13):
//!  S1  every operator / cast over every pair of boundary leaves (depth 1), complete
//!  S2  every operator over (one representative per distinct depth-≤1 value) × leaves, both sides (depth 2)
//!  S3  a 10-operator subset over (representatives of values first reached at depth 2) × boundary leaves (depth 3)
//!  P   a subset of S1 replayed in the six syntactic positions that demand a constant
//! Observation: `rssl::typer::type_check` + public IR (`constexpr_value`, `EnumValue.value`, array length, case label,
//! template instantiation arguments, `thread_group_size`, `assert_eval`).
//! Oracle: the reference evaluator below (exact i128 for literals, wrapping i32/u32, IEEE comparisons, C conversions).
//!
//! Signature vocabulary:
//!  consteval|panic|<source file or `core`>|<message>   evaluation aborted (shift overflow is raised inside core)
//!  consteval|wrong-value|<op>|<promoted operand type>  evaluated to a value HLSL does not define; attributed to the innermost
//!                                                      sub-expression (or implicit operand cast `Cast|from,to`) that is wrong on its own
//!  consteval|evaluated-div-by-zero|<op>|<type>         `/` or `%` by zero yielded a value (innermost such division)
//!  consteval|refused|<op>|<operand types>              a supported operator refused particular operand values
//!  position|negative-value-accepted|<type>             a position took a negative value as a huge unsigned one
//!  position|unrepresentable-value-accepted|<pos>|<type>
//!  position|assert_eval|reference-literal-differs
//!  enum-successor|panic|<message> / enum-successor|wrong-value|<type>   implicit next enum value

use crate::engine::*;
use crate::json::{Json, obj};
use rssl::ir;
use rssl::typer::TyperError;
use std::collections::HashMap;

// ---------------------------------------------------------------------------------------------
// reference model: types, values

#[derive(Copy, Clone, PartialEq, Eq, Hash, Debug, PartialOrd, Ord)]
pub enum Ty {
    Bool,
    Lit,
    Int,
    UInt,
    FLit,
    Half,
    Float,
    Double,
    E,
    U,
}
use Ty::*;

const ALL_TY: [Ty; 10] = [Bool, Lit, Int, UInt, FLit, Half, Float, Double, E, U];
/// types that can be named in source (cast targets, declaration types)
const CAST_TY: [Ty; 8] = [Bool, Int, UInt, Half, Float, Double, E, U];

impl Ty {
    fn name(self) -> &'static str {
        match self {
            Bool => "bool",
            Lit => "literal-int",
            Int => "int",
            UInt => "uint",
            FLit => "literal-float",
            Half => "half",
            Float => "float",
            Double => "double",
            E => "E",
            U => "U",
        }
    }
    fn from_name(s: &str) -> Option<Ty> {
        ALL_TY.iter().copied().find(|t| t.name() == s)
    }
    fn is_enum(self) -> bool {
        matches!(self, E | U)
    }
    fn is_intlike(self) -> bool {
        matches!(self, Bool | Lit | Int | UInt | E | U)
    }
    /// rssl: get_non_vector_conversion_rank
    fn rank(self) -> u32 {
        match self {
            E | U => 0,
            Bool => 1,
            Lit => 2,
            Int => 3,
            UInt => 4,
            FLit => 5,
            Half => 6,
            Float => 7,
            Double => 8,
        }
    }
}

#[derive(Copy, Clone, Debug)]
pub enum Val {
    B(bool),
    L(i128),
    I(i32),
    Un(u32),
    FL(f64),
    H(f32),
    F(f32),
    D(f64),
    En(i32),
    Eu(u32),
}

impl Val {
    fn ty(self) -> Ty {
        match self {
            Val::B(_) => Bool,
            Val::L(_) => Lit,
            Val::I(_) => Int,
            Val::Un(_) => UInt,
            Val::FL(_) => FLit,
            Val::H(_) => Half,
            Val::F(_) => Float,
            Val::D(_) => Double,
            Val::En(_) => E,
            Val::Eu(_) => U,
        }
    }
    /// bit-exact identity (NaNs collapsed)
    fn key(self) -> (u8, u128) {
        let f32k = |x: f32| if x.is_nan() { 0x7fc00000u128 } else { x.to_bits() as u128 };
        let f64k = |x: f64| if x.is_nan() { 0x7ff8000000000000u128 } else { x.to_bits() as u128 };
        match self {
            Val::B(b) => (0, b as u128),
            Val::L(v) => (1, v as u128),
            Val::I(v) => (2, v as u32 as u128),
            Val::Un(v) => (3, v as u128),
            Val::FL(v) => (4, f64k(v)),
            Val::H(v) => (5, f32k(v)),
            Val::F(v) => (6, f32k(v)),
            Val::D(v) => (7, f64k(v)),
            Val::En(v) => (8, v as u32 as u128),
            Val::Eu(v) => (9, v as u128),
        }
    }
    /// the integer an integer-like value denotes
    fn int(self) -> Option<i128> {
        match self {
            Val::B(b) => Some(b as i128),
            Val::L(v) => Some(v),
            Val::I(v) | Val::En(v) => Some(v as i128),
            Val::Un(v) | Val::Eu(v) => Some(v as i128),
            _ => None,
        }
    }
    fn show(self) -> String {
        match self {
            Val::B(b) => format!("bool {}", b),
            Val::L(v) => format!("literal {}", v),
            Val::I(v) => format!("int {}", v),
            Val::Un(v) => format!("uint {}", v),
            Val::FL(v) => format!("literal-float {:e}", v),
            Val::H(v) => format!("half {:e}", v),
            Val::F(v) => format!("float {:e}", v),
            Val::D(v) => format!("double {:e}", v),
            Val::En(v) => format!("E {}", v),
            Val::Eu(v) => format!("U {}", v),
        }
    }
}

/// what the property fixes about an expression
#[derive(Copy, Clone, Debug)]
pub enum Out {
    /// this value, if the compiler evaluates the expression at all
    V(Val),
    /// must be reported as not constant (division / modulus by zero)
    NotConst,
    /// either this value or "not constant" (INT_MIN / -1, short-circuited division by zero)
    OrNot(Val),
    /// HLSL leaves the value open (out-of-range float→int, shift of a literal by ≥ 128, result outside i128): no abort only
    Free,
}

#[derive(Copy, Clone, PartialEq, Eq, Hash, Debug)]
pub enum Bop {
    Add,
    Sub,
    Mul,
    Div,
    Mod,
    Shl,
    Shr,
    And,
    Or,
    Xor,
    Lt,
    Le,
    Gt,
    Ge,
    Eq,
    Ne,
    LAnd,
    LOr,
}
const ALL_BOP: [Bop; 18] = [
    Bop::Add, Bop::Sub, Bop::Mul, Bop::Div, Bop::Mod, Bop::Shl, Bop::Shr, Bop::And, Bop::Or, Bop::Xor, Bop::Lt, Bop::Le, Bop::Gt, Bop::Ge,
    Bop::Eq, Bop::Ne, Bop::LAnd, Bop::LOr,
];
/// depth-3 subset
const SUB_BOP: [Bop; 10] = [Bop::Add, Bop::Sub, Bop::Mul, Bop::Div, Bop::Mod, Bop::Shl, Bop::Shr, Bop::And, Bop::Lt, Bop::Eq];

impl Bop {
    fn sym(self) -> &'static str {
        match self {
            Bop::Add => "+",
            Bop::Sub => "-",
            Bop::Mul => "*",
            Bop::Div => "/",
            Bop::Mod => "%",
            Bop::Shl => "<<",
            Bop::Shr => ">>",
            Bop::And => "&",
            Bop::Or => "|",
            Bop::Xor => "^",
            Bop::Lt => "<",
            Bop::Le => "<=",
            Bop::Gt => ">",
            Bop::Ge => ">=",
            Bop::Eq => "==",
            Bop::Ne => "!=",
            Bop::LAnd => "&&",
            Bop::LOr => "||",
        }
    }
    /// names follow ir::IntrinsicOp
    fn name(self) -> &'static str {
        match self {
            Bop::Add => "Add",
            Bop::Sub => "Subtract",
            Bop::Mul => "Multiply",
            Bop::Div => "Divide",
            Bop::Mod => "Modulus",
            Bop::Shl => "LeftShift",
            Bop::Shr => "RightShift",
            Bop::And => "BitwiseAnd",
            Bop::Or => "BitwiseOr",
            Bop::Xor => "BitwiseXor",
            Bop::Lt => "LessThan",
            Bop::Le => "LessEqual",
            Bop::Gt => "GreaterThan",
            Bop::Ge => "GreaterEqual",
            Bop::Eq => "Equality",
            Bop::Ne => "Inequality",
            Bop::LAnd => "BooleanAnd",
            Bop::LOr => "BooleanOr",
        }
    }
    fn from_name(s: &str) -> Option<Bop> {
        ALL_BOP.iter().copied().find(|o| o.name() == s)
    }
    fn is_cmp(self) -> bool {
        matches!(self, Bop::Lt | Bop::Le | Bop::Gt | Bop::Ge | Bop::Eq | Bop::Ne)
    }
    fn needs_int(self) -> bool {
        matches!(self, Bop::Shl | Bop::Shr | Bop::And | Bop::Or | Bop::Xor)
    }
    fn is_logic(self) -> bool {
        matches!(self, Bop::LAnd | Bop::LOr)
    }
}

#[derive(Copy, Clone, PartialEq, Eq, Hash, Debug)]
pub enum Uop {
    Plus,
    Minus,
    Not,
    BitNot,
}
const ALL_UOP: [Uop; 4] = [Uop::Plus, Uop::Minus, Uop::Not, Uop::BitNot];
impl Uop {
    fn sym(self) -> &'static str {
        match self {
            Uop::Plus => "+",
            Uop::Minus => "-",
            Uop::Not => "!",
            Uop::BitNot => "~",
        }
    }
    fn name(self) -> &'static str {
        match self {
            Uop::Plus => "Plus",
            Uop::Minus => "Minus",
            Uop::Not => "LogicalNot",
            Uop::BitNot => "BitwiseNot",
        }
    }
    fn from_name(s: &str) -> Option<Uop> {
        ALL_UOP.iter().copied().find(|o| o.name() == s)
    }
}

// ---------------------------------------------------------------------------------------------
// reference model: conversions

/// nearest binary16 (ties to even) of a double, returned as f32
fn round_f16(x: f64) -> f32 {
    if x.is_nan() || x.is_infinite() || x == 0.0 {
        return x as f32;
    }
    let a = x.abs();
    if a >= 65520.0 {
        return f32::INFINITY.copysign(x as f32);
    }
    let exp = ((a.to_bits() >> 52) & 0x7ff) as i32 - 1023;
    let q = if exp < -14 { 2f64.powi(-24) } else { 2f64.powi(exp - 10) };
    let r = (a / q).round_ties_even() * q;
    (r as f32).copysign(x as f32)
}

enum Num {
    I(i128),
    F(f64),
    /// already a binary32 value
    F32(f32),
}

fn num(v: Val) -> Num {
    match v {
        Val::FL(x) | Val::D(x) => Num::F(x),
        Val::H(x) | Val::F(x) => Num::F32(x),
        other => Num::I(other.int().unwrap()),
    }
}

/// HLSL conversion of a value to a type; `hm` = half is a real binary16 (else half is stored as float)
fn conv(v: Val, to: Ty, hm: bool) -> Out {
    if v.ty() == to {
        return Out::V(v);
    }
    let n = num(v);
    let trunc_to = |lo: f64, hi: f64| -> Option<f64> {
        let x = match n {
            Num::F(x) => x,
            Num::F32(x) => x as f64,
            Num::I(_) => unreachable!(),
        };
        if x.is_nan() {
            return None;
        }
        let t = x.trunc();
        if t >= lo && t <= hi { Some(t) } else { None }
    };
    match to {
        Bool => Out::V(Val::B(match n {
            Num::I(i) => i != 0,
            Num::F(x) => x != 0.0,
            Num::F32(x) => x != 0.0,
        })),
        Int | E => {
            let r = match n {
                Num::I(i) => Some(i as i32),
                _ => trunc_to(-2147483648.0, 2147483647.0).map(|t| t as i32),
            };
            match r {
                Some(r) => Out::V(if to == Int { Val::I(r) } else { Val::En(r) }),
                None => Out::Free,
            }
        }
        UInt | U => {
            let r = match n {
                Num::I(i) => Some(i as u32),
                _ => trunc_to(0.0, 4294967295.0).map(|t| t as u32),
            };
            match r {
                Some(r) => Out::V(if to == UInt { Val::Un(r) } else { Val::Eu(r) }),
                None => Out::Free,
            }
        }
        Lit => match n {
            Num::I(i) => Out::V(Val::L(i)),
            _ => match trunc_to(-9.0e18, 9.0e18) {
                Some(t) => Out::V(Val::L(t as i128)),
                None => Out::Free,
            },
        },
        FLit | Double => {
            let r = match n {
                Num::I(i) => i as f64,
                Num::F(x) => x,
                Num::F32(x) => x as f64,
            };
            Out::V(if to == FLit { Val::FL(r) } else { Val::D(r) })
        }
        Float => Out::V(Val::F(match n {
            Num::I(i) => i as f32,
            Num::F(x) => x as f32,
            Num::F32(x) => x,
        })),
        Half => Out::V(Val::H(match n {
            Num::I(i) => {
                if hm {
                    round_f16(i as f64)
                } else {
                    i as f32
                }
            }
            Num::F(x) => {
                if hm {
                    round_f16(x)
                } else {
                    x as f32
                }
            }
            Num::F32(x) => {
                if hm {
                    round_f16(x as f64)
                } else {
                    x
                }
            }
        })),
    }
}

/// implicit conversion permitted by the typer (casting.rs: ImplicitConversion::find for scalars and enums)
fn implicit_ok(from: Ty, to: Ty) -> bool {
    if from == to {
        return true;
    }
    if to.is_enum() {
        return false;
    }
    if from.is_enum() && to == Lit {
        return false;
    }
    true
}

// ---------------------------------------------------------------------------------------------
// reference model: operators on two values of the same type

/// result and "a checked Rust operation would trap here" (scheduling + signature attribution only)
fn apply_bin(op: Bop, a: Val, b: Val) -> (Out, bool) {
    let t = a.ty();
    debug_assert!(t == b.ty());
    let bv = |x: bool| (Out::V(Val::B(x)), false);
    match (a, b) {
        (Val::B(x), Val::B(y)) => match op {
            Bop::LAnd => bv(x && y),
            Bop::LOr => bv(x || y),
            Bop::Eq => bv(x == y),
            Bop::Ne => bv(x != y),
            Bop::Lt => bv(!x & y),
            Bop::Le => bv(x <= y),
            Bop::Gt => bv(x & !y),
            Bop::Ge => bv(x >= y),
            _ => (Out::Free, false),
        },
        (Val::L(x), Val::L(y)) => {
            let ex = |r: Option<i128>| match r {
                Some(r) => (Out::V(Val::L(r)), false),
                None => (Out::Free, true),
            };
            match op {
                Bop::Add => ex(x.checked_add(y)),
                Bop::Sub => ex(x.checked_sub(y)),
                Bop::Mul => ex(x.checked_mul(y)),
                Bop::Div => {
                    if y == 0 {
                        (Out::NotConst, false)
                    } else {
                        match x.checked_div(y) {
                            Some(r) => (Out::V(Val::L(r)), false),
                            None => (Out::Free, false),
                        }
                    }
                }
                Bop::Mod => {
                    if y == 0 {
                        (Out::NotConst, false)
                    } else {
                        match x.checked_rem(y) {
                            Some(r) => (Out::V(Val::L(r)), false),
                            None => (Out::V(Val::L(0)), true),
                        }
                    }
                }
                Bop::Shl => {
                    if !(0..128).contains(&y) {
                        (Out::Free, true)
                    } else {
                        let r = x.wrapping_shl(y as u32);
                        if (r >> y) == x { (Out::V(Val::L(r)), false) } else { (Out::Free, false) }
                    }
                }
                Bop::Shr => {
                    if !(0..128).contains(&y) {
                        (Out::Free, true)
                    } else {
                        (Out::V(Val::L(x >> y)), false)
                    }
                }
                Bop::And => ex(Some(x & y)),
                Bop::Or => ex(Some(x | y)),
                Bop::Xor => ex(Some(x ^ y)),
                Bop::Lt => bv(x < y),
                Bop::Le => bv(x <= y),
                Bop::Gt => bv(x > y),
                Bop::Ge => bv(x >= y),
                Bop::Eq => bv(x == y),
                Bop::Ne => bv(x != y),
                _ => (Out::Free, false),
            }
        }
        (Val::I(x), Val::I(y)) | (Val::En(x), Val::En(y)) => {
            let mk = |r: i32| Out::V(if t == Int { Val::I(r) } else { Val::En(r) });
            match op {
                Bop::Add => (mk(x.wrapping_add(y)), x.checked_add(y).is_none()),
                Bop::Sub => (mk(x.wrapping_sub(y)), x.checked_sub(y).is_none()),
                Bop::Mul => (mk(x.wrapping_mul(y)), x.checked_mul(y).is_none()),
                Bop::Div => {
                    if y == 0 {
                        (Out::NotConst, false)
                    } else if x == i32::MIN && y == -1 {
                        (Out::OrNot(if t == Int { Val::I(i32::MIN) } else { Val::En(i32::MIN) }), false)
                    } else {
                        (mk(x / y), false)
                    }
                }
                Bop::Mod => {
                    if y == 0 {
                        (Out::NotConst, false)
                    } else if x == i32::MIN && y == -1 {
                        (Out::OrNot(if t == Int { Val::I(0) } else { Val::En(0) }), true)
                    } else {
                        (mk(x % y), false)
                    }
                }
                Bop::Shl => (mk(((x as u32) << ((y as u32) & 31)) as i32), !(0..32).contains(&y)),
                Bop::Shr => (mk(x >> ((y as u32) & 31)), !(0..32).contains(&y)),
                Bop::And => (mk(x & y), false),
                Bop::Or => (mk(x | y), false),
                Bop::Xor => (mk(x ^ y), false),
                Bop::Lt => bv(x < y),
                Bop::Le => bv(x <= y),
                Bop::Gt => bv(x > y),
                Bop::Ge => bv(x >= y),
                Bop::Eq => bv(x == y),
                Bop::Ne => bv(x != y),
                _ => (Out::Free, false),
            }
        }
        (Val::Un(x), Val::Un(y)) | (Val::Eu(x), Val::Eu(y)) => {
            let mk = |r: u32| Out::V(if t == UInt { Val::Un(r) } else { Val::Eu(r) });
            match op {
                Bop::Add => (mk(x.wrapping_add(y)), x.checked_add(y).is_none()),
                Bop::Sub => (mk(x.wrapping_sub(y)), x.checked_sub(y).is_none()),
                Bop::Mul => (mk(x.wrapping_mul(y)), x.checked_mul(y).is_none()),
                Bop::Div => {
                    if y == 0 {
                        (Out::NotConst, false)
                    } else {
                        (mk(x / y), false)
                    }
                }
                Bop::Mod => {
                    if y == 0 {
                        (Out::NotConst, false)
                    } else {
                        (mk(x % y), false)
                    }
                }
                Bop::Shl => (mk(x << (y & 31)), y >= 32),
                Bop::Shr => (mk(x >> (y & 31)), y >= 32),
                Bop::And => (mk(x & y), false),
                Bop::Or => (mk(x | y), false),
                Bop::Xor => (mk(x ^ y), false),
                Bop::Lt => bv(x < y),
                Bop::Le => bv(x <= y),
                Bop::Gt => bv(x > y),
                Bop::Ge => bv(x >= y),
                Bop::Eq => bv(x == y),
                Bop::Ne => bv(x != y),
                _ => (Out::Free, false),
            }
        }
        (Val::FL(x), Val::FL(y)) | (Val::D(x), Val::D(y)) => match op {
            Bop::Lt => bv(x < y),
            Bop::Le => bv(x <= y),
            Bop::Gt => bv(x > y),
            Bop::Ge => bv(x >= y),
            Bop::Eq => bv(x == y),
            Bop::Ne => bv(x != y),
            _ => (Out::Free, false),
        },
        (Val::H(x), Val::H(y)) | (Val::F(x), Val::F(y)) => match op {
            Bop::Lt => bv(x < y),
            Bop::Le => bv(x <= y),
            Bop::Gt => bv(x > y),
            Bop::Ge => bv(x >= y),
            Bop::Eq => bv(x == y),
            Bop::Ne => bv(x != y),
            _ => (Out::Free, false),
        },
        _ => (Out::Free, false),
    }
}

fn apply_un(op: Uop, a: Val) -> (Out, bool) {
    match op {
        Uop::Plus => (Out::V(a), false),
        Uop::Minus => match a {
            Val::L(x) => match x.checked_neg() {
                Some(r) => (Out::V(Val::L(r)), false),
                None => (Out::Free, true),
            },
            Val::I(x) => (Out::V(Val::I(x.wrapping_neg())), x == i32::MIN),
            Val::En(x) => (Out::V(Val::En(x.wrapping_neg())), x == i32::MIN),
            Val::Un(x) => (Out::V(Val::Un(x.wrapping_neg())), false),
            Val::Eu(x) => (Out::V(Val::Eu(x.wrapping_neg())), false),
            Val::FL(x) => (Out::V(Val::FL(-x)), false),
            Val::D(x) => (Out::V(Val::D(-x)), false),
            Val::H(x) => (Out::V(Val::H(-x)), false),
            Val::F(x) => (Out::V(Val::F(-x)), false),
            Val::B(_) => (Out::Free, false),
        },
        Uop::Not => match a {
            Val::B(x) => (Out::V(Val::B(!x)), false),
            _ => (Out::Free, false),
        },
        Uop::BitNot => match a {
            Val::L(x) => (Out::V(Val::L(!x)), false),
            Val::I(x) => (Out::V(Val::I(!x)), false),
            Val::En(x) => (Out::V(Val::En(!x)), false),
            Val::Un(x) => (Out::V(Val::Un(!x)), false),
            Val::Eu(x) => (Out::V(Val::Eu(!x)), false),
            _ => (Out::Free, false),
        },
    }
}

// ---------------------------------------------------------------------------------------------
// reference model: expression trees

#[derive(Copy, Clone, Debug)]
pub enum Node {
    Leaf(u16),
    Un(Uop, u32),
    Cast(Ty, u32),
    Bin(Bop, u32, u32),
}

/// everything the reference knows about an expression
#[derive(Copy, Clone, Debug)]
pub struct Info {
    /// static type as the rssl typer assigns it (None = the typer must reject the expression)
    ty: Option<Ty>,
    /// property outcome with half = float (0) and half = binary16 (1)
    out: [Out; 2],
    /// every node is an (operator, operand type) pair evaluate_operator / evaluate_cast implement
    sup: bool,
    /// first node (post-order) where a checked Rust operation would trap: (operator, operand type)
    risk: Option<(&'static str, Ty)>,
    /// root operator and the reference types of its operands (signature attribution)
    root: (&'static str, [Option<Ty>; 2]),
    /// operand type after the typer's promotion (operators only)
    opty: Option<Ty>,
}

const ILL: Info = Info { ty: None, out: [Out::Free, Out::Free], sup: false, risk: None, root: ("ill-typed", [None, None]), opty: None };

fn conv_out(o: Out, to: Ty, hm: bool) -> Out {
    match o {
        Out::V(v) => conv(v, to, hm),
        Out::OrNot(v) => match conv(v, to, hm) {
            Out::V(r) => Out::OrNot(r),
            x => x,
        },
        x => x,
    }
}

/// conversion node (implicit or explicit)
fn conv_info(c: &Info, to: Ty) -> Info {
    let from = c.ty.unwrap();
    if from == to {
        return *c;
    }
    Info {
        ty: Some(to),
        out: [conv_out(c.out[0], to, false), conv_out(c.out[1], to, true)],
        // evaluate_cast has no arm for the literal types as a target
        sup: c.sup && !matches!(to, Lit | FLit),
        risk: c.risk,
        root: ("Cast", [Some(from), Some(to)]),
        opty: None,
    }
}

fn eval_cast(to: Ty, c: &Info) -> Info {
    if c.ty.is_none() {
        return ILL;
    }
    let mut r = conv_info(c, to);
    r.root = ("Cast", [c.ty, Some(to)]);
    r
}

/// operand type and result type of a binary operator (expressions.rs: parse_expr_binop)
fn bin_types(op: Bop, lt: Ty, rt: Ty) -> Option<(Ty, Ty)> {
    if op.is_logic() {
        return Some((Bool, Bool));
    }
    if op.needs_int() && !(lt.is_intlike() && rt.is_intlike()) {
        return None;
    }
    let mut target = if lt.rank() > rt.rank() { lt } else { rt };
    if target == Bool {
        target = Int;
    }
    if !implicit_ok(lt, target) || !implicit_ok(rt, target) {
        return None;
    }
    Some((target, if op.is_cmp() { Bool } else { target }))
}

fn is_false(o: Out) -> bool {
    matches!(o, Out::V(Val::B(false)) | Out::OrNot(Val::B(false)))
}
fn is_true(o: Out) -> bool {
    matches!(o, Out::V(Val::B(true)) | Out::OrNot(Val::B(true)))
}

fn eval_bin(op: Bop, l: &Info, r: &Info) -> Info {
    let (lt, rt) = match (l.ty, r.ty) {
        (Some(a), Some(b)) => (a, b),
        _ => return ILL,
    };
    let (opty, resty) = match bin_types(op, lt, rt) {
        Some(x) => x,
        None => return ILL,
    };
    let lc = conv_info(l, opty);
    let rc = conv_info(r, opty);
    let sup_op = if op.is_logic() || matches!(op, Bop::Eq | Bop::Ne) {
        true
    } else if op.is_cmp() {
        opty != Bool
    } else {
        matches!(opty, Lit | Int | UInt | E | U)
    };
    let mut risk = lc.risk.or(rc.risk);
    let mut out = [Out::Free, Out::Free];
    for m in 0..2 {
        let (a, b) = (lc.out[m], rc.out[m]);
        out[m] = match (a, b) {
            (Out::NotConst, _) => Out::NotConst,
            (_, Out::NotConst) => {
                // C would not evaluate the right operand; rssl evaluates both: either is accepted
                if op == Bop::LAnd && is_false(a) {
                    Out::OrNot(Val::B(false))
                } else if op == Bop::LOr && is_true(a) {
                    Out::OrNot(Val::B(true))
                } else {
                    Out::NotConst
                }
            }
            (Out::Free, _) | (_, Out::Free) => Out::Free,
            (Out::V(x), Out::V(y)) => {
                let (o, trap) = apply_bin(op, x, y);
                if trap && risk.is_none() {
                    risk = Some((op.name(), opty));
                }
                o
            }
            (Out::V(x) | Out::OrNot(x), Out::V(y) | Out::OrNot(y)) => {
                let (o, trap) = apply_bin(op, x, y);
                if trap && risk.is_none() {
                    risk = Some((op.name(), opty));
                }
                match o {
                    Out::V(v) | Out::OrNot(v) => Out::OrNot(v),
                    other => other,
                }
            }
        };
    }
    Info { ty: Some(resty), out, sup: lc.sup && rc.sup && sup_op, risk, root: (op.name(), [Some(lt), Some(rt)]), opty: Some(opty) }
}

fn eval_un(op: Uop, c: &Info) -> Info {
    let ct = match c.ty {
        Some(t) => t,
        None => return ILL,
    };
    // operand type after the typer's implicit cast, result type
    let (opty, resty) = match op {
        Uop::Plus | Uop::Minus => (ct, ct),
        Uop::Not => (Bool, Bool),
        Uop::BitNot => match ct {
            Lit | Int | UInt | E | U => (ct, ct),
            Bool => (Int, Int),
            _ => return ILL,
        },
    };
    let cc = conv_info(c, opty);
    let sup_op = match op {
        Uop::Plus | Uop::Not | Uop::BitNot => true,
        Uop::Minus => matches!(opty, Lit | Int | FLit | Half | Float | Double | E),
    };
    let mut risk = cc.risk;
    let mut out = [Out::Free, Out::Free];
    for m in 0..2 {
        out[m] = match cc.out[m] {
            Out::V(x) => {
                let (o, trap) = apply_un(op, x);
                if trap && risk.is_none() {
                    risk = Some((op.name(), opty));
                }
                o
            }
            Out::OrNot(x) => match apply_un(op, x).0 {
                Out::V(v) => Out::OrNot(v),
                o => o,
            },
            o => o,
        };
    }
    Info { ty: Some(resty), out, sup: cc.sup && sup_op, risk, root: (op.name(), [Some(ct), None]), opty: Some(opty) }
}

/// nodes that may be used as children, with their reference information
pub struct Base {
    leaves: Vec<(&'static str, Val)>,
    nodes: Vec<Node>,
    info: Vec<Info>,
}

impl Base {
    fn new() -> Base {
        let leaves = leaves();
        let mut b = Base { leaves, nodes: Vec::new(), info: Vec::new() };
        for i in 0..b.leaves.len() {
            b.push(Node::Leaf(i as u16));
        }
        b
    }
    fn push(&mut self, n: Node) -> u32 {
        let i = self.eval(&n);
        self.nodes.push(n);
        self.info.push(i);
        (self.nodes.len() - 1) as u32
    }
    fn eval(&self, n: &Node) -> Info {
        match *n {
            Node::Leaf(i) => {
                let v = self.leaves[i as usize].1;
                Info { ty: Some(v.ty()), out: [Out::V(v), Out::V(v)], sup: true, risk: None, root: ("leaf", [Some(v.ty()), None]), opty: None }
            }
            Node::Un(op, a) => eval_un(op, &self.info[a as usize]),
            Node::Cast(t, a) => eval_cast(t, &self.info[a as usize]),
            Node::Bin(op, a, b) => eval_bin(op, &self.info[a as usize], &self.info[b as usize]),
        }
    }
    /// fully parenthesised source text
    fn text(&self, n: &Node, out: &mut String) {
        match *n {
            Node::Leaf(i) => out.push_str(self.leaves[i as usize].0),
            Node::Un(op, a) => {
                out.push('(');
                out.push_str(op.sym());
                self.text(&self.nodes[a as usize], out);
                out.push(')');
            }
            Node::Cast(t, a) => {
                out.push_str("((");
                out.push_str(t.name());
                out.push_str(")(");
                self.text(&self.nodes[a as usize], out);
                out.push_str("))");
            }
            Node::Bin(op, a, b) => {
                out.push('(');
                self.text(&self.nodes[a as usize], out);
                out.push(' ');
                out.push_str(op.sym());
                out.push(' ');
                self.text(&self.nodes[b as usize], out);
                out.push(')');
            }
        }
    }
    fn src(&self, n: &Node) -> String {
        let mut s = String::new();
        self.text(n, &mut s);
        s
    }
    /// prefix serialisation for replays
    fn ser(&self, n: &Node, out: &mut String) {
        if !out.is_empty() {
            out.push(' ');
        }
        match *n {
            Node::Leaf(i) => {
                out.push_str("L:");
                out.push_str(self.leaves[i as usize].0);
            }
            Node::Un(op, a) => {
                out.push_str("U:");
                out.push_str(op.name());
                self.ser(&self.nodes[a as usize], out);
            }
            Node::Cast(t, a) => {
                out.push_str("C:");
                out.push_str(t.name());
                self.ser(&self.nodes[a as usize], out);
            }
            Node::Bin(op, a, b) => {
                out.push_str("B:");
                out.push_str(op.name());
                self.ser(&self.nodes[a as usize], out);
                self.ser(&self.nodes[b as usize], out);
            }
        }
    }
    /// inverse of `ser`: pushes every sub-tree into the base and returns the root
    fn deser(&mut self, toks: &mut std::str::SplitWhitespace) -> Option<Node> {
        let t = toks.next()?;
        let (k, name) = t.split_once(':')?;
        Some(match k {
            "L" => Node::Leaf(self.leaves.iter().position(|l| l.0 == name)? as u16),
            "U" => {
                let a = self.deser(toks)?;
                Node::Un(Uop::from_name(name)?, self.push(a))
            }
            "C" => {
                let a = self.deser(toks)?;
                Node::Cast(Ty::from_name(name)?, self.push(a))
            }
            "B" => {
                let a = self.deser(toks)?;
                let a = self.push(a);
                let b = self.deser(toks)?;
                Node::Bin(Bop::from_name(name)?, a, self.push(b))
            }
            _ => return None,
        })
    }
}

/// declarations every compilation unit starts with
const PRELUDE: &str = "enum E { E0 = 0, E1 = 1, EM1 = -1, E31 = 31, EMAX = 2147483647, EMIN = -2147483648 };\n\
enum U { U0 = 0, U1 = 1, U32 = 32, UMAX = 4294967295 };\n\
static const int I0 = 0; static const int I1 = 1; static const int I2 = 2; static const int IM1 = -1; static const int I31 = 31;\n\
static const int I32 = 32; static const int I33 = 33; static const int IMAX = 2147483647; static const int IMIN = -2147483648;\n\
static const uint GMAX = 4294967295;\n";

fn leaves() -> Vec<(&'static str, Val)> {
    use Val::*;
    vec![
        ("0", L(0)),
        ("1", L(1)),
        ("2", L(2)),
        ("(-1)", L(-1)),
        ("31", L(31)),
        ("32", L(32)),
        ("33", L(33)),
        ("2147483647", L(2147483647)),
        ("2147483648", L(2147483648)),
        ("4294967295", L(4294967295)),
        ("4294967296", L(4294967296)),
        ("9223372036854775808", L(9223372036854775808)),
        ("18446744073709551615", L(18446744073709551615)),
        ("0u", Un(0)),
        ("1u", Un(1)),
        ("2u", Un(2)),
        ("31u", Un(31)),
        ("32u", Un(32)),
        ("33u", Un(33)),
        ("2147483647u", Un(2147483647)),
        ("2147483648u", Un(2147483648)),
        ("4294967295u", Un(4294967295)),
        ("GMAX", Un(4294967295)),
        ("I0", I(0)),
        ("I1", I(1)),
        ("I2", I(2)),
        ("IM1", I(-1)),
        ("I31", I(31)),
        ("I32", I(32)),
        ("I33", I(33)),
        ("IMAX", I(i32::MAX)),
        ("IMIN", I(i32::MIN)),
        ("true", B(true)),
        ("false", B(false)),
        ("0.5", FL(0.5)),
        ("1.5", FL(1.5)),
        ("(-1.5)", FL(-1.5)),
        ("3e9", FL(3e9)),
        ("(-3e9)", FL(-3e9)),
        ("1e-3", FL(1e-3)),
        ("1.5f", F(1.5)),
        ("(-3e9f)", F(-3e9)),
        ("0.5h", H(0.5)),
        ("1e-3L", D(1e-3)),
        ("E0", En(0)),
        ("E1", En(1)),
        ("EM1", En(-1)),
        ("E31", En(31)),
        ("EMAX", En(i32::MAX)),
        ("EMIN", En(i32::MIN)),
        ("U1", Eu(1)),
        ("U32", Eu(32)),
        ("UMAX", Eu(u32::MAX)),
        // sizeof of scalar types and of (const-qualified) scalar operands is a uint constant
        ("sizeof(int)", Un(4)),
        ("sizeof(I1)", Un(4)),
        ("sizeof(GMAX)", Un(4)),
        ("sizeof(const float)", Un(4)),
        ("sizeof(double)", Un(8)),
        ("sizeof(half)", Un(2)),
        ("sizeof(E1)", Un(4)),
        ("sizeof(true)", Un(4)),
    ]
}

/// leaves used on the "other side" at depth 3 and in the quick tier at depth 2
const BOUNDARY_LEAVES: &[&str] = &[
    "0", "(-1)", "32", "2147483648", "18446744073709551615", "1u", "31u", "32u", "4294967295u", "I1", "IM1", "I32", "IMAX", "IMIN", "true", "1.5", "E1",
    "EMIN", "UMAX",
];

// ---------------------------------------------------------------------------------------------
// running the real code

enum Tc {
    Ok(Box<ir::Module>),
    TypeErr(TyperError),
    Syntax(String),
}

fn tc(src: &str) -> Result<Tc, PanicInfo> {
    guard(|| {
        use rssl::text::CompileErrorExt;
        let mut sm = rssl::text::SourceManager::new();
        let toks = match rssl::preprocess::preprocess_fragment(src, rssl::text::FileName("t.rssl".into()), &mut sm) {
            Ok(t) => t,
            Err(e) => return Tc::Syntax(format!("{}", e.display(&sm))),
        };
        let toks = rssl::preprocess::prepare_tokens(&toks);
        let ast = match rssl::parser::parse(&toks) {
            Ok(a) => a,
            Err(e) => return Tc::Syntax(format!("{}", e.display(&sm))),
        };
        match rssl::typer::type_check(&ast) {
            Ok(m) => Tc::Ok(Box::new(m)),
            Err(e) => Tc::TypeErr(e.0),
        }
    })
}

/// what rssl did with one expression in one position
#[derive(Clone, Debug)]
enum Obs {
    Panic(PanicInfo),
    /// rejected for a reason other than "not a constant expression"
    Rejected(String),
    NotConst,
    Value(ir::Constant),
    /// positions that only expose an integer (array length, enum range error, thread group size)
    Int(i128),
    /// assert_eval accepted: the expression equals the reference literal
    Agree,
}

fn err_head(e: &TyperError) -> String {
    let s = format!("{:?}", e);
    s.split('(').next().unwrap_or("").to_string()
}

fn const_int(c: &ir::Constant) -> Option<i128> {
    match c {
        ir::Constant::Bool(b) => Some(*b as i128),
        ir::Constant::IntLiteral(v) => Some(*v),
        ir::Constant::Int32(v) => Some(*v as i128),
        ir::Constant::UInt32(v) => Some(*v as i128),
        ir::Constant::Int64(v) => Some(*v as i128),
        ir::Constant::UInt64(v) => Some(*v as i128),
        ir::Constant::Enum(_, inner) => const_int(inner),
        _ => None,
    }
}

fn f32_same(a: f32, b: f32) -> bool {
    a.to_bits() == b.to_bits() || (a.is_nan() && b.is_nan())
}
fn f64_same(a: f64, b: f64) -> bool {
    a.to_bits() == b.to_bits() || (a.is_nan() && b.is_nan())
}

/// enum ids of E and U in a module built from PRELUDE
fn enum_name(m: &ir::Module, id: ir::EnumId) -> String {
    m.enum_registry.get_enum_definition(id).name.node.clone()
}

fn const_matches(c: &ir::Constant, v: Val, m: Option<&ir::Module>) -> bool {
    use ir::Constant as C;
    match (c, v) {
        (C::Bool(a), Val::B(b)) => *a == b,
        (C::IntLiteral(a), Val::L(b)) => *a == b,
        (C::Int32(a), Val::I(b)) => *a == b,
        (C::UInt32(a), Val::Un(b)) => *a == b,
        (C::FloatLiteral(a), Val::FL(b)) => f64_same(*a, b),
        (C::Float16(a), Val::H(b)) => f32_same(*a, b),
        (C::Float32(a), Val::F(b)) => f32_same(*a, b),
        (C::Float64(a), Val::D(b)) => f64_same(*a, b),
        (C::Enum(id, inner), Val::En(b)) => **inner == C::Int32(b) && m.map(|m| enum_name(m, *id) == "E").unwrap_or(true),
        (C::Enum(id, inner), Val::Eu(b)) => **inner == C::UInt32(b) && m.map(|m| enum_name(m, *id) == "U").unwrap_or(true),
        _ => false,
    }
}

/// a constant with enum ids resolved to names, so that it can outlive its module
fn const_show(c: &ir::Constant, m: &ir::Module) -> String {
    match c {
        ir::Constant::Enum(id, inner) => format!("Enum({}, {:?})", enum_name(m, *id), inner),
        c => format!("{:?}", c),
    }
}

/// an observed value detached from the module: (constant, printable form, enum name if any)
#[derive(Clone, Debug)]
struct Seen {
    c: ir::Constant,
    shown: String,
    enum_ok: bool,
}

fn seen(c: &ir::Constant, m: &ir::Module, want: Option<Ty>) -> Seen {
    let enum_ok = match c {
        ir::Constant::Enum(id, _) => {
            let n = enum_name(m, *id);
            match want {
                Some(E) => n == "E",
                Some(U) => n == "U",
                _ => true,
            }
        }
        _ => true,
    };
    Seen { c: c.clone(), shown: const_show(c, m), enum_ok }
}

/// `static const <decl> cK = <expr>;` for every job, in one compilation unit; bisects when the unit fails
fn run_globals(jobs: &[(Ty, String)], out: &mut Vec<(Obs, Option<Seen>)>, units: &mut u64) {
    if jobs.is_empty() {
        return;
    }
    let mut src = String::with_capacity(PRELUDE.len() + jobs.len() * 64);
    src.push_str(PRELUDE);
    for (k, (t, e)) in jobs.iter().enumerate() {
        src.push_str("static const ");
        src.push_str(t.name());
        src.push_str(&format!(" c{} = {};\n", k, e));
    }
    *units += 1;
    let r = tc(&src);
    match r {
        Ok(Tc::Ok(m)) => {
            let mut found: Vec<Option<(Obs, Option<Seen>)>> = vec![None; jobs.len()];
            for g in m.global_registry.iter() {
                if g.is_intrinsic {
                    continue;
                }
                if let Some(k) = g.name.node.strip_prefix('c').and_then(|s| s.parse::<usize>().ok()) {
                    if k < jobs.len() {
                        found[k] = Some(match &g.constexpr_value {
                            Some(c) => (Obs::Value(c.clone()), Some(seen(c, &m, Some(jobs[k].0)))),
                            None => (Obs::NotConst, None),
                        });
                    }
                }
            }
            for f in found {
                out.push(f.unwrap_or((Obs::Rejected("global-not-found".into()), None)));
            }
        }
        other if jobs.len() == 1 => out.push((
            match other {
                Err(p) => Obs::Panic(p),
                Ok(Tc::TypeErr(TyperError::ExpressionIsNotConstantExpression(..))) => Obs::NotConst,
                Ok(Tc::TypeErr(e)) => Obs::Rejected(err_head(&e)),
                Ok(Tc::Syntax(s)) => Obs::Rejected(format!("syntax: {}", one_line(&s, 80))),
                Ok(Tc::Ok(_)) => unreachable!(),
            },
            None,
        )),
        _ => {
            let mid = jobs.len() / 2;
            run_globals(&jobs[..mid], out, units);
            run_globals(&jobs[mid..], out, units);
        }
    }
}

// ---------------------------------------------------------------------------------------------
// verdicts

fn msg_norm(p: &PanicInfo) -> String {
    let mut s = String::new();
    let mut last = false;
    for c in p.message.chars().take(70) {
        if c == '\n' {
            break;
        }
        if c.is_ascii_digit() {
            if !last {
                s.push('#');
            }
            last = true;
        } else {
            s.push(c);
            last = false;
        }
    }
    s
}

/// the crate-relative source file of a panic (`core` for the standard library: shift overflow is raised there)
fn file_class(p: &PanicInfo) -> String {
    if p.file.starts_with("/rustc/") || p.file.contains("/library/core/") {
        return "core".into();
    }
    match p.file.find("/repo/") {
        Some(i) => p.file[i + 6..].to_string(),
        None => p.file.clone(),
    }
}

fn tys(root: &(&'static str, [Option<Ty>; 2])) -> String {
    match root.1 {
        [Some(a), Some(b)] => format!("{},{}", a.name(), b.name()),
        [Some(a), None] => a.name().to_string(),
        _ => "?".into(),
    }
}

fn show_out(o: &[Out; 2]) -> String {
    let one = |o: &Out| match o {
        Out::V(v) => v.show(),
        Out::NotConst => "not constant".into(),
        Out::OrNot(v) => format!("{} or not constant", v.show()),
        Out::Free => "unspecified (no abort)".into(),
    };
    let a = one(&o[0]);
    let b = one(&o[1]);
    if a == b { a } else { format!("{} [half=float] / {} [half=binary16]", a, b) }
}

struct Case<'a> {
    /// observation channel: global, enum-exact, array, enum, case, template, attr, assert_eval
    position: &'a str,
    /// source of the expression
    expr: &'a str,
    /// reference information of the expression as observed (including the declaration's implicit cast)
    info: &'a Info,
    replay: &'a dyn Fn() -> String,
    /// attribution of a wrong value: (operator, operand types) of the innermost sub-expression that is already wrong on its own
    blame: &'a dyn Fn() -> (&'static str, String),
    /// is the expression already wrong when observed as a plain `static const` initialiser?
    wrong_alone: &'a dyn Fn() -> bool,
    /// the innermost division / modulus by zero of the expression
    zero_origin: &'a dyn Fn() -> (&'static str, String),
}

fn violation(acc: &mut Acc, sig: String, detail: String, case: &Case) {
    acc.violation(Violation { signature: sig, detail, replay: (case.replay)() });
}

/// verdict for an observation that exposes the evaluated constant (or its absence)
fn judge(acc: &mut Acc, case: &Case, obs: &Obs, sn: Option<&Seen>) {
    let info = case.info;
    match obs {
        Obs::Panic(p) => {
            let (op, t) = info.risk.map(|(o, t)| (o, t.name())).unwrap_or((info.root.0, "?"));
            violation(
                acc,
                format!("consteval|panic|{}|{}", file_class(p), msg_norm(p)),
                format!(
                    "[{}] `{}` aborts: {} ({}); first trapping operation by the reference: {} on {}; the property requires {}",
                    case.position, case.expr, p.message, p.file, op, t, show_out(&info.out)
                ),
                case,
            );
        }
        Obs::Rejected(e) => {
            if info.ty.is_some() {
                acc.count(&format!("reference_welltyped_but_rejected|{}|{}", case.position, e));
                if !e.starts_with("syntax") {
                    acc.count("reference_welltyped_but_rejected");
                } else {
                    acc.count("syntax_error_in_generated_text");
                }
            } else {
                acc.count("illtyped_rejected");
            }
        }
        Obs::NotConst => {
            if info.ty.is_none() {
                acc.count("illtyped_by_reference_but_accepted_not_constant");
                return;
            }
            let demands_value = info.out.iter().all(|o| matches!(o, Out::V(_)));
            if !demands_value {
                acc.count("not_constant_as_allowed");
                if info.out.iter().all(|o| matches!(o, Out::NotConst)) {
                    acc.count("div_or_mod_by_zero_reported_not_constant");
                    acc.outcome(&("notconst", info.root.0, tys(&info.root)));
                }
            } else if !info.sup {
                acc.count("unsupported_by_evaluator_not_evaluated");
            } else {
                violation(
                    acc,
                    format!("consteval|refused|{}|{}", info.root.0, tys(&info.root)),
                    format!("[{}] `{}` is reported as not constant although every operator in it is evaluated for other operands; expected {}", case.position, case.expr, show_out(&info.out)),
                    case,
                );
            }
        }
        Obs::Value(c) => {
            if info.ty.is_none() {
                acc.count("illtyped_by_reference_but_evaluated");
                return;
            }
            let enum_ok = sn.map(|s| s.enum_ok).unwrap_or(true);
            let mut ok = false;
            let mut free = false;
            for o in info.out.iter() {
                match o {
                    Out::V(v) | Out::OrNot(v) => ok |= const_matches(c, *v, None) && enum_ok,
                    Out::Free => free = true,
                    Out::NotConst => {}
                }
            }
            let shown = sn.map(|s| s.shown.clone()).unwrap_or_else(|| format!("{:?}", c));
            if ok {
                acc.count("value_agrees");
                acc.outcome(&(info.root.0, tys(&info.root), shown));
            } else if free {
                acc.count("value_unspecified_not_compared");
            } else if info.out.iter().all(|o| matches!(o, Out::NotConst)) {
                let (zop, zty) = (case.zero_origin)();
                violation(
                    acc,
                    format!("consteval|evaluated-div-by-zero|{}|{}", zop, zty),
                    format!("[{}] `{}` divides by zero but evaluates to {}", case.position, case.expr, shown),
                    case,
                );
            } else {
                let (bop, bty) = (case.blame)();
                violation(
                    acc,
                    format!("consteval|wrong-value|{}|{}", bop, bty),
                    format!("[{}] `{}` evaluates to {}, HLSL defines {}", case.position, case.expr, shown, show_out(&info.out)),
                    case,
                );
            }
        }
        Obs::Int(_) | Obs::Agree => unreachable!("integer observations are judged by judge_int"),
    }
}

/// verdict for a position that exposes only the integer it used; `lo..=hi` is what the position can represent
fn judge_int(acc: &mut Acc, case: &Case, obs: &Obs, lo: i128, hi: i128) {
    let info = case.info;
    match obs {
        Obs::Panic(_) | Obs::Rejected(_) | Obs::Value(_) => judge(acc, case, obs, None),
        Obs::Agree => unreachable!(),
        Obs::NotConst => {
            if info.ty.is_none() {
                acc.count("illtyped_by_reference_but_accepted_not_constant");
                return;
            }
            let mut demanded = true;
            for o in info.out.iter() {
                match o {
                    Out::V(v) => demanded &= v.int().map(|n| n >= lo && n <= hi).unwrap_or(false),
                    _ => demanded = false,
                }
            }
            if !demanded {
                acc.count("not_constant_as_allowed");
                if info.out.iter().all(|o| matches!(o, Out::NotConst)) {
                    acc.count("div_or_mod_by_zero_reported_not_constant");
                    acc.outcome(&("notconst", case.position, info.root.0, tys(&info.root)));
                }
            } else if !info.sup {
                acc.count("unsupported_by_evaluator_not_evaluated");
            } else {
                violation(
                    acc,
                    format!("consteval|refused|{}|{}", info.root.0, tys(&info.root)),
                    format!("[{}] `{}` is reported as not constant; expected {}", case.position, case.expr, show_out(&info.out)),
                    case,
                );
            }
        }
        Obs::Int(m) => {
            if info.ty.is_none() {
                acc.count("illtyped_by_reference_but_evaluated");
                return;
            }
            let mut ok = false;
            let mut free = false;
            let mut want: Option<i128> = None;
            for o in info.out.iter() {
                match o {
                    Out::V(v) | Out::OrNot(v) => {
                        want = v.int();
                        ok |= v.int() == Some(*m);
                    }
                    Out::Free => free = true,
                    Out::NotConst => {}
                }
            }
            if ok {
                acc.count("value_agrees");
                acc.outcome(&(case.position, info.root.0, tys(&info.root), *m));
            } else if free {
                acc.count("value_unspecified_not_compared");
            } else if info.out.iter().all(|o| matches!(o, Out::NotConst)) {
                let (zop, zty) = (case.zero_origin)();
                violation(
                    acc,
                    format!("consteval|evaluated-div-by-zero|{}|{}", zop, zty),
                    format!("[{}] `{}` divides by zero but the position uses {}", case.position, case.expr, m),
                    case,
                );
            } else if want.map(|n| n < lo || n > hi).unwrap_or(false) && !(case.wrong_alone)() {
                violation(
                    acc,
                    if want.unwrap() < 0 {
                        format!("position|negative-value-accepted|{}", info.ty.map(|t| t.name()).unwrap_or("?"))
                    } else {
                        format!("position|unrepresentable-value-accepted|{}|{}", case.position, info.ty.map(|t| t.name()).unwrap_or("?"))
                    },
                    format!("[{}] `{}` has the value {} which the position cannot represent, yet it is accepted and {} is used", case.position, case.expr, show_out(&info.out), m),
                    case,
                );
            } else {
                let (bop, bty) = (case.blame)();
                violation(
                    acc,
                    format!("consteval|wrong-value|{}|{}", bop, bty),
                    format!("[{}] `{}` is used as {}, HLSL defines {}", case.position, case.expr, m, show_out(&info.out)),
                    case,
                );
            }
        }
    }
}

// ---------------------------------------------------------------------------------------------
// the syntactic positions

const POSITIONS: [&str; 6] = ["array", "enum", "case", "template", "attr", "assert_eval"];

/// every further attribute / pipeline-property argument the typer evaluates to an unsigned integer of fixed width
/// (`parse_expr_as_u32` for globals and cbuffers, the numthreads y and z arguments, `extract_uint32`, `[unroll(n)]`):
/// (name, declaration with `@E@` for the expression, largest value the position can represent)
const UINT_POSITIONS: [(&str, &str, i128); 12] = [
    ("vk-binding", "[[vk::binding(@E@)]] Texture2D<float4> g_t;\n", u32::MAX as i128),
    ("vk-binding-2a", "[[vk::binding(@E@, 3)]] Texture2D<float4> g_t;\n", u32::MAX as i128),
    ("vk-binding-2b", "[[vk::binding(3, @E@)]] Texture2D<float4> g_t;\n", u32::MAX as i128),
    ("bind-group", "[[rssl::bind_group(@E@)]] Texture2D<float4> g_t;\n", u32::MAX as i128),
    ("cb-vk-binding", "[[vk::binding(@E@)]] cbuffer g_cb { float4 cx; }\n", u32::MAX as i128),
    ("cb-vk-binding-2a", "[[vk::binding(@E@, 3)]] cbuffer g_cb { float4 cx; }\n", u32::MAX as i128),
    ("cb-vk-binding-2b", "[[vk::binding(3, @E@)]] cbuffer g_cb { float4 cx; }\n", u32::MAX as i128),
    ("cb-bind-group", "[[rssl::bind_group(@E@)]] cbuffer g_cb { float4 cx; }\n", u32::MAX as i128),
    ("numthreads-y", "[numthreads(1, @E@, 1)] void cs() {}\nPipeline P { ComputeShader = cs; }\n", u32::MAX as i128),
    ("numthreads-z", "[numthreads(1, 1, @E@)] void cs() {}\nPipeline P { ComputeShader = cs; }\n", u32::MAX as i128),
    ("default-bind-group", "[numthreads(1, 1, 1)] void cs() {}\nPipeline P { ComputeShader = cs; DefaultBindGroup = @E@; }\n", u32::MAX as i128),
    ("unroll", "void fu() { [unroll(@E@)] for (int i = 0; i < 1; ++i) {} }\n", u64::MAX as i128),
];

fn uint_position(pos: &str) -> Option<&'static (&'static str, &'static str, i128)> {
    UINT_POSITIONS.iter().find(|p| p.0 == pos)
}

fn find_unroll(b: &ir::ScopeBlock) -> Option<u64> {
    for st in &b.0 {
        for a in &st.attributes {
            if let ir::StatementAttribute::Unroll(Some(n)) = a {
                return Some(*n);
            }
        }
    }
    None
}

fn find_case_label(b: &ir::ScopeBlock) -> Option<ir::Constant> {
    for st in &b.0 {
        match &st.kind {
            ir::StatementKind::CaseLabel(c) => return Some(c.clone()),
            ir::StatementKind::Switch(_, inner) | ir::StatementKind::Block(inner) => {
                if let Some(c) = find_case_label(inner) {
                    return Some(c);
                }
            }
            _ => {}
        }
    }
    None
}

/// `enum Z { ZA = <expr> };` exposes the exact integer: the retyped value, or the range in the deduction error
fn obs_enum(expr: &str) -> Obs {
    let src = format!("{}enum Z {{ ZA = {} }};\n", PRELUDE, expr);
    match tc(&src) {
        Err(p) => Obs::Panic(p),
        Ok(Tc::Syntax(s)) => Obs::Rejected(format!("syntax: {}", one_line(&s, 80))),
        Ok(Tc::TypeErr(TyperError::ExpressionIsNotConstantExpression(..))) => Obs::NotConst,
        Ok(Tc::TypeErr(TyperError::EnumTypeCanNotBeDeduced(_, min, max))) => Obs::Int(if min < 0 { min } else { max }),
        Ok(Tc::TypeErr(e)) => Obs::Rejected(err_head(&e)),
        Ok(Tc::Ok(m)) => {
            for i in 0..m.enum_registry.get_enum_count() {
                let id = ir::EnumId(i);
                if enum_name(&m, id) == "Z" {
                    if let Some(v) = m.enum_registry.get_values(id).first() {
                        return match const_int(&m.enum_registry.get_enum_value(*v).value) {
                            Some(n) => Obs::Int(n),
                            None => Obs::Rejected("enum-value-not-integer".into()),
                        };
                    }
                }
            }
            Obs::Rejected("enum-not-found".into())
        }
    }
}

/// run `expr` in one of the positions; `rlit` is the reference literal for assert_eval
fn obs_position(pos: &str, expr: &str, tyname: Option<&str>, rlit: &str) -> (Obs, Option<Seen>) {
    let body = match pos {
        "array" => format!("float arr[{}];\n", expr),
        "enum" => return (obs_enum(expr), None),
        "case" => format!("void fc(int x) {{ switch (x) {{ case {}: break; default: break; }} }}\n", expr),
        "template" => format!("template<uint N> void tf() {{}}\nvoid tm() {{ tf<({})>(); }}\n", expr),
        "attr" => format!("[numthreads({}, 1, 1)] void cs() {{}}\nPipeline P {{ ComputeShader = cs; }}\n", expr),
        "assert_eval" => match tyname {
            Some(t) => format!("void fa() {{ assert_eval<{}>({}, {}); }}\n", t, expr, rlit),
            None => format!("void fa() {{ assert_eval({}, {}); }}\n", expr, rlit),
        },
        p => match uint_position(p) {
            Some(u) => u.1.replacen("@E@", expr, 1),
            None => unreachable!(),
        },
    };
    let src = format!("{}{}", PRELUDE, body);
    let m = match tc(&src) {
        Err(p) => return (Obs::Panic(p), None),
        Ok(Tc::Syntax(s)) => return (Obs::Rejected(format!("syntax: {}", one_line(&s, 80))), None),
        Ok(Tc::TypeErr(e)) => {
            return (
                match (pos, &e) {
                    (_, TyperError::ExpressionIsNotConstantExpression(..)) => Obs::NotConst,
                    ("array", TyperError::ArrayDimensionsMustBeConstantExpression(..)) => Obs::NotConst,
                    ("array", TyperError::ArrayDimensionsMustBeNonZero(..)) => Obs::Int(0),
                    ("attr", TyperError::PipelinePropertyRequiresIntegerArgument(..)) => Obs::NotConst,
                    ("numthreads-y" | "numthreads-z" | "default-bind-group", TyperError::PipelinePropertyRequiresIntegerArgument(..)) => Obs::NotConst,
                    ("unroll", TyperError::AttributeUnrollArgumentMustBeIntegerConstant(..)) => Obs::NotConst,
                    ("assert_eval", TyperError::AssertEvalFailed(_, _reference, generated)) => Obs::Value(generated.clone()),
                    _ => Obs::Rejected(err_head(&e)),
                },
                None,
            );
        }
        Ok(Tc::Ok(m)) => m,
    };
    let missing = (Obs::Rejected("observation-not-found".into()), None);
    match pos {
        "array" => {
            for g in m.global_registry.iter() {
                if !g.is_intrinsic && g.name.node == "arr" {
                    let t = m.type_registry.remove_modifier(g.type_id);
                    if let ir::TypeLayer::Array(_, Some(len)) = m.type_registry.get_type_layer(t) {
                        return (Obs::Int(len as i128), None);
                    }
                }
            }
            missing
        }
        "case" => {
            for id in m.function_registry.iter() {
                if m.function_registry.get_function_name(id) == "fc" {
                    if let Some(imp) = m.function_registry.get_function_implementation(id) {
                        if let Some(c) = find_case_label(&imp.scope_block) {
                            let s = seen(&c, &m, None);
                            return (Obs::Value(c), Some(s));
                        }
                    }
                }
            }
            missing
        }
        "template" => {
            for id in m.function_registry.iter() {
                if let Some(inst) = m.function_registry.get_template_instantiation_data(id) {
                    if let Some(ir::TypeOrConstant::Constant(rc)) = inst.template_args.first() {
                        let c = rc.clone().unrestrict();
                        let s = seen(&c, &m, None);
                        return (Obs::Value(c), Some(s));
                    }
                }
            }
            missing
        }
        "attr" => match m.pipelines.first().and_then(|p| p.stages.first()).and_then(|s| s.thread_group_size) {
            Some((x, _, _)) => (Obs::Int(x as i128), None),
            None => missing,
        },
        "assert_eval" => (Obs::Agree, None),
        "vk-binding" | "vk-binding-2a" | "vk-binding-2b" | "bind-group" => {
            for g in m.global_registry.iter() {
                if !g.is_intrinsic && g.name.node == "g_t" {
                    let v = if pos == "vk-binding" || pos == "vk-binding-2a" { g.lang_slot.index } else { g.lang_slot.set };
                    return match v {
                        Some(n) => (Obs::Int(n as i128), None),
                        None => missing,
                    };
                }
            }
            missing
        }
        "cb-vk-binding" | "cb-vk-binding-2a" | "cb-vk-binding-2b" | "cb-bind-group" => {
            for cb in m.cbuffer_registry.iter() {
                if cb.name.node == "g_cb" {
                    let v = if pos == "cb-vk-binding" || pos == "cb-vk-binding-2a" { cb.lang_binding.index } else { cb.lang_binding.set };
                    return match v {
                        Some(n) => (Obs::Int(n as i128), None),
                        None => missing,
                    };
                }
            }
            missing
        }
        "numthreads-y" | "numthreads-z" => match m.pipelines.first().and_then(|p| p.stages.first()).and_then(|s| s.thread_group_size) {
            Some((_, y, z)) => (Obs::Int(if pos == "numthreads-y" { y } else { z } as i128), None),
            None => missing,
        },
        "default-bind-group" => match m.pipelines.first() {
            Some(p) => (Obs::Int(p.default_bind_group_index as i128), None),
            None => missing,
        },
        "unroll" => {
            for id in m.function_registry.iter() {
                if m.function_registry.get_function_name(id) == "fu" {
                    if let Some(imp) = m.function_registry.get_function_implementation(id) {
                        if let Some(n) = find_unroll(&imp.scope_block) {
                            return (Obs::Int(n as i128), None);
                        }
                    }
                }
            }
            missing
        }
        _ => unreachable!(),
    }
}

/// the reference result spelled as a literal of its own type (None: no exact spelling is available)
fn ref_literal(v: Val) -> Option<String> {
    let int_lit = |n: i128| -> Option<String> {
        if n >= 0 && n <= u64::MAX as i128 {
            Some(format!("{}", n))
        } else if n < 0 && -n <= u64::MAX as i128 {
            Some(format!("(-{})", -n))
        } else {
            None
        }
    };
    let dyadic = |x: f64| x.is_finite() && (x * 2.0).fract() == 0.0 && x.abs() < 4.0e9;
    Some(match v {
        Val::B(b) => format!("{}", b),
        Val::L(n) => int_lit(n)?,
        Val::I(n) => format!("((int)({}))", int_lit(n as i128)?),
        Val::Un(n) => format!("{}u", n),
        Val::En(n) => format!("((E)({}))", int_lit(n as i128)?),
        Val::Eu(n) => format!("((U)({}u))", n),
        Val::FL(x) if dyadic(x) => {
            if x < 0.0 || (x == 0.0 && x.is_sign_negative()) {
                format!("(-{:?})", -x)
            } else {
                format!("{:?}", x)
            }
        }
        Val::D(x) if dyadic(x) && !(x == 0.0 && x.is_sign_negative()) => {
            if x < 0.0 { format!("(-{:?}L)", -x) } else { format!("{:?}L", x) }
        }
        Val::F(x) if dyadic(x as f64) && !(x == 0.0 && x.is_sign_negative()) => {
            if x < 0.0 { format!("(-{:?}f)", -x) } else { format!("{:?}f", x) }
        }
        Val::H(x) if dyadic(x as f64) && x.abs() < 2048.0 && !(x == 0.0 && x.is_sign_negative()) => {
            if x < 0.0 { format!("(-{:?}h)", -x) } else { format!("{:?}h", x) }
        }
        _ => return None,
    })
}

// ---------------------------------------------------------------------------------------------
// exploration of one index range of a space

struct Space<'a> {
    name: &'static str,
    base: &'a Base,
    total: u64,
    node_at: &'a (dyn Fn(u64) -> Node + Sync),
    /// literal-typed expressions additionally get the exact (enum position) observation when idx % exact_every == 0
    exact_every: u64,
    /// number of cases in the spaces before this one
    offset: u64,
}

/// declaration type used to observe an expression of this reference type, and the reference information of the declared value
fn decl_of(info: &Info) -> (Ty, Info) {
    match info.ty {
        None => (Int, *info),
        Some(Lit) => {
            // a literal-typed initialiser is observed through its conversion to uint (low 32 bits)
            let mut d = conv_info(info, UInt);
            d.root = info.root;
            (UInt, d)
        }
        Some(FLit) => {
            let mut d = conv_info(info, Double);
            d.root = info.root;
            (Double, d)
        }
        Some(t) => (t, *info),
    }
}

/// does this (sub-)expression, observed on its own, already evaluate to a value the reference excludes?
fn node_wrong(base: &Base, node: &Node) -> bool {
    let info = base.eval(node);
    if info.ty.is_none() {
        return false;
    }
    let (decl, dinfo) = decl_of(&info);
    let mut v = Vec::new();
    let mut units = 0;
    run_globals(&[(decl, base.src(node))], &mut v, &mut units);
    match &v[0].0 {
        Obs::Value(c) => {
            let enum_ok = v[0].1.as_ref().map(|s| s.enum_ok).unwrap_or(true);
            !dinfo.out.iter().any(|o| match o {
                Out::V(x) | Out::OrNot(x) => const_matches(c, *x, None) && enum_ok,
                Out::Free => true,
                Out::NotConst => false,
            })
        }
        _ => false,
    }
}

/// (operator, promoted operand type) of the innermost node the reference marks as a division / modulus by zero
fn zero_origin(base: &Base, node: &Node) -> (&'static str, String) {
    let kids: Vec<u32> = match *node {
        Node::Leaf(_) => vec![],
        Node::Un(_, a) | Node::Cast(_, a) => vec![a],
        Node::Bin(_, a, b) => vec![a, b],
    };
    for k in kids {
        if matches!(base.info[k as usize].out[0], Out::NotConst) {
            return zero_origin(base, &base.nodes[k as usize]);
        }
    }
    let i = base.eval(node);
    (i.root.0, i.opty.map(|t| t.name().to_string()).unwrap_or_else(|| tys(&i.root)))
}

fn blame(base: &Base, node: &Node) -> (&'static str, String) {
    let kids: Vec<u32> = match *node {
        Node::Leaf(_) => vec![],
        Node::Un(_, a) | Node::Cast(_, a) => vec![a],
        Node::Bin(_, a, b) => vec![a, b],
    };
    for k in kids.iter().copied() {
        let kn = base.nodes[k as usize];
        if node_wrong(base, &kn) {
            return blame(base, &kn);
        }
    }
    let i = base.eval(node);
    // the operator's implicit conversion of an operand, observed as the explicit cast
    if let Some(t) = i.opty {
        if CAST_TY.contains(&t) {
            for k in kids.iter() {
                let kt = base.info[*k as usize].ty;
                if kt.is_some() && kt != Some(t) && node_wrong(base, &Node::Cast(t, *k)) {
                    return ("Cast", format!("{},{}", kt.unwrap().name(), t.name()));
                }
            }
        }
    }
    match i.opty {
        Some(t) => (i.root.0, t.name().to_string()),
        None => (i.root.0, tys(&i.root)),
    }
}

struct Item {
    /// global case number (spaces are numbered one after the other, simplest first)
    idx: u64,
    node: Node,
    /// reference information of the initialiser as declared (the declaration's implicit cast included)
    info: Info,
    src: String,
    decl: Ty,
}

fn replay_text(base: &Base, node: &Node, position: &str) -> String {
    let mut t = String::new();
    base.ser(node, &mut t);
    format!("kind: expr\nposition: {}\ntree: {}\nsource: {}\n", position, t, base.src(node))
}

fn judge_items(base: &Base, items: &[Item], batch: usize, acc: &mut Acc) {
    let mut units = 0u64;
    for chunk in items.chunks(batch.max(1)) {
        let jobs: Vec<(Ty, String)> = chunk.iter().map(|it| (it.decl, it.src.clone())).collect();
        let mut obs = Vec::with_capacity(jobs.len());
        run_globals(&jobs, &mut obs, &mut units);
        for (it, (o, sn)) in chunk.iter().zip(obs.iter()) {
            acc.evals += 1;
            acc.cur_index = it.idx;
            let rp = || replay_text(base, &it.node, "global");
            let bl = || blame(base, &it.node);
            let wa = || node_wrong(base, &it.node);
            let zo = || zero_origin(base, &it.node);
            let case = Case { position: "global", expr: &it.src, info: &it.info, replay: &rp, blame: &bl, wrong_alone: &wa, zero_origin: &zo };
            judge(acc, &case, o, sn.as_ref());
        }
    }
    acc.add("compilation_units", units);
}

fn process(sp: &Space, lo: u64, hi: u64, acc: &mut Acc) {
    let mut safe: Vec<Item> = Vec::new();
    let mut risky: Vec<Item> = Vec::new();
    let mut single: Vec<Item> = Vec::new();
    let mut exact: Vec<(u64, Node, Info, String)> = Vec::new();
    for i in lo..hi {
        let node = (sp.node_at)(i);
        let info = sp.base.eval(&node);
        let src = sp.base.src(&node);
        if i % 400009 == 0 {
            acc.sample(obj(vec![("space", sp.name.into()), ("expression", src.as_str().into()), ("reference", show_out(&info.out).into())]));
        }
        match info.ty {
            None => single.push(Item { idx: sp.offset + i, node, info, src, decl: Int }),
            Some(t) => {
                acc.count(&format!("type_{}", t.name()));
                let (decl, dinfo) = if t == Lit {
                    if i % sp.exact_every == 0 {
                        exact.push((sp.offset + i, node, info, src.clone()));
                    }
                    // a literal-typed initialiser is observed through its conversion to uint (low 32 bits)
                    let mut d = conv_info(&info, UInt);
                    d.root = info.root;
                    (UInt, d)
                } else if t == FLit {
                    let mut d = conv_info(&info, Double);
                    d.root = info.root;
                    (Double, d)
                } else {
                    (t, info)
                };
                let it = Item { idx: sp.offset + i, node, info: dinfo, src, decl };
                if info.risk.is_some() { risky.push(it) } else { safe.push(it) }
            }
        }
    }
    judge_items(sp.base, &safe, 128, acc);
    judge_items(sp.base, &risky, 4, acc);
    judge_items(sp.base, &single, 1, acc);
    for (idx, node, info, src) in exact {
        acc.evals += 1;
        acc.cur_index = idx;
        acc.add("compilation_units", 1);
        let o = obs_enum(&src);
        let rp = || replay_text(sp.base, &node, "enum-exact");
        let bl = || blame(sp.base, &node);
        let wa = || node_wrong(sp.base, &node);
        let zo = || zero_origin(sp.base, &node);
        let case = Case { position: "enum-exact", expr: &src, info: &info, replay: &rp, blame: &bl, wrong_alone: &wa, zero_origin: &zo };
        judge_int(acc, &case, &o, i128::MIN, i128::MAX);
    }
}

fn run_space(ctx: &Ctx, rep: &mut Report, sp: &Space) {
    let chunk = if sp.total < 200_000 { 64u64 } else { 256u64 };
    let n = sp.total.div_ceil(chunk);
    let r = run_par(ctx, n, 1, |c, acc| {
        let lo = c * chunk;
        let hi = (lo + chunk).min(sp.total);
        process(sp, lo, hi, acc);
    });
    let completed = r.completed;
    if std::env::var("C13_TIMING").is_ok() {
        eprintln!("timing: {} done at {:.1}s ({} cases)", sp.name, ctx.start.elapsed().as_secs_f64(), sp.total);
    }
    rep.absorb(sp.name, r);
    rep.cov(&format!("space_{}", sp.name), Json::Int(sp.total as i64));
    if !completed {
        rep.exhaustive = false;
    }
}

/// one expression in one syntactic position
fn process_position(base: &Base, node: &Node, pos: &str, acc: &mut Acc) {
    process_position_src(base, node, pos, None, acc)
}

/// `flat`: the expression is written as this text (without the parentheses `Base::src` adds) and `node` is its reading
/// under the C precedence and associativity rules
fn process_position_src(base: &Base, node: &Node, pos: &str, flat: Option<&str>, acc: &mut Acc) {
    let info = base.eval(node);
    let src = match flat {
        Some(f) => f.to_string(),
        None => base.src(node),
    };
    acc.evals += 1;
    acc.add("compilation_units", 1);
    let rp = || match flat {
        Some(f) => format!("kind: flat\nposition: {}\nflat: {}\n{}", pos, f, replay_text(base, node, pos).replacen("kind: expr\n", "", 1)),
        None => replay_text(base, node, pos),
    };
    let bl = || blame(base, node);
    let wa = || node_wrong(base, node);
    let zo = || zero_origin(base, node);
    let case = Case { position: pos, expr: &src, info: &info, replay: &rp, blame: &bl, wrong_alone: &wa, zero_origin: &zo };
    match pos {
        "assert_eval" => {
            let v = match (info.out[0], info.out[1]) {
                (Out::V(a), Out::V(b)) if a.key() == b.key() => a,
                _ => {
                    acc.count("assert_eval_skipped_no_definite_value");
                    return;
                }
            };
            let rlit = match ref_literal(v) {
                Some(r) => r,
                None => {
                    acc.count("assert_eval_skipped_no_exact_literal");
                    return;
                }
            };
            let tyname = if v.ty() == Lit || v.ty() == FLit { None } else { Some(v.ty().name()) };
            let (o, _) = obs_position(pos, &src, tyname, &rlit);
            match &o {
                Obs::Agree => {
                    acc.count("assert_eval_agrees");
                    acc.outcome(&("assert_eval", info.root.0, tys(&info.root), v.key()));
                }
                Obs::Value(generated) if const_matches(generated, v, None) => violation(
                    acc,
                    "position|assert_eval|reference-literal-differs".into(),
                    format!("assert_eval({}, {}) fails although the expression evaluates to {:?}: the reference literal does not denote {}", src, rlit, generated, v.show()),
                    &case,
                ),
                Obs::Rejected(e) if e == "AssertTypeFailed" => {
                    acc.count("reference_type_differs_from_typer");
                    acc.count(&format!("reference_type_differs_from_typer|{}|{}", info.root.0, tys(&info.root)));
                }
                other => judge(acc, &case, other, None),
            }
        }
        "array" => {
            let (o, _) = obs_position(pos, &src, None, "");
            judge_int(acc, &case, &o, 1, u64::MAX as i128);
        }
        "enum" => {
            let (o, _) = obs_position(pos, &src, None, "");
            judge_int(acc, &case, &o, i128::MIN, i128::MAX);
        }
        "attr" => {
            let (o, _) = obs_position(pos, &src, None, "");
            if info.ty.map(|t| t.is_enum()).unwrap_or(false) && matches!(o, Obs::NotConst) {
                // Constant::to_uint64 has no arm for enum constants: numthreads does not admit enum-typed arguments at all
                acc.count("attr_enum_typed_argument_not_admitted");
                return;
            }
            judge_int(acc, &case, &o, 0, u32::MAX as i128);
        }
        "enum-exact" => {
            let o = obs_enum(&src);
            judge_int(acc, &case, &o, i128::MIN, i128::MAX);
        }
        "case" | "template" => {
            let (o, sn) = obs_position(pos, &src, None, "");
            if pos == "template" && info.ty.map(|t| t.is_enum()).unwrap_or(false) && matches!(o, Obs::NotConst) {
                // parse_and_evaluate_constant_expression does not admit enum-typed template arguments at all
                acc.count("template_enum_typed_argument_not_admitted");
                return;
            }
            judge(acc, &case, &o, sn.as_ref());
        }
        "global" => {
            let mut v = Vec::new();
            let mut units = 0;
            let (decl, dinfo) = match info.ty {
                None => (Int, info),
                Some(Lit) => {
                    let mut d = conv_info(&info, UInt);
                    d.root = info.root;
                    (UInt, d)
                }
                Some(FLit) => {
                    let mut d = conv_info(&info, Double);
                    d.root = info.root;
                    (Double, d)
                }
                Some(t) => (t, info),
            };
            run_globals(&[(decl, src.clone())], &mut v, &mut units);
            let case = Case { position: pos, expr: &src, info: &dinfo, replay: &rp, blame: &bl, wrong_alone: &wa, zero_origin: &zo };
            judge(acc, &case, &v[0].0, v[0].1.as_ref());
        }
        "emit-enum" | "emit-case" | "emit-global" | "emit-array" => process_emitted(&case, pos, acc),
        p if uint_position(p).is_some() => {
            let hi = uint_position(p).unwrap().2;
            let (o, _) = obs_position(pos, &src, None, "");
            if info.ty.map(|t| t.is_enum()).unwrap_or(false) && matches!(o, Obs::NotConst) {
                // Constant::to_uint64 has no arm for enum constants: these positions do not admit enum-typed arguments at all
                acc.count("uint_position_enum_typed_argument_not_admitted");
                return;
            }
            judge_int(acc, &case, &o, 0, hi);
        }
        _ => acc.count("unknown_position"),
    }
}

/// C precedence of the binary operators (higher binds tighter); all are left associative
fn flat_prec(op: Bop) -> u8 {
    match op {
        Bop::Mul | Bop::Div | Bop::Mod => 10,
        Bop::Add | Bop::Sub => 9,
        Bop::Shl | Bop::Shr => 8,
        Bop::Lt | Bop::Le | Bop::Gt | Bop::Ge => 7,
        Bop::Eq | Bop::Ne => 6,
        Bop::And => 5,
        Bop::Xor => 4,
        Bop::Or => 3,
        Bop::LAnd => 2,
        Bop::LOr => 1,
    }
}

const EMIT_POSITIONS: [&str; 4] = ["emit-enum", "emit-case", "emit-global", "emit-array"];

/// `-?digits[uUlL]*` -> value
fn parse_emitted_int(t: &str) -> Option<i128> {
    let t = t.trim();
    let (neg, d) = match t.strip_prefix('-') {
        Some(r) => (true, r.trim_start()),
        None => (false, t),
    };
    let digits = d.trim_end_matches(|c| matches!(c, 'u' | 'U' | 'l' | 'L'));
    if digits.is_empty() || !digits.bytes().all(|b| b.is_ascii_digit()) {
        return None;
    }
    let v: i128 = digits.parse().ok()?;
    Some(if neg { -v } else { v })
}

/// the constant the compiler evaluated must come out of both exporters with the value it has (C13: "yields the value HLSL
/// defines"; the exporters print evaluated constants in enum definitions, case labels and folded initialisers)
fn process_emitted(case: &Case, pos: &str, acc: &mut Acc) {
    use crate::util::{Cfg, Mode, compile1};
    let v = match definite(case.info) {
        Some(v) => v,
        None => {
            acc.count("emitted_skipped_no_definite_value");
            return;
        }
    };
    let n = match v.int() {
        Some(n) => n,
        None => return,
    };
    let (src, key, end) = match pos {
        "emit-enum" => (format!("{}enum Q {{ QA = {} }};\nint f() {{ return (int)QA; }}\n", PRELUDE, case.expr), "QA = ", ','),
        "emit-case" => {
            let sw = if matches!(v, Val::Un(_) | Val::Eu(_)) { "uint" } else { "int" };
            (format!("{}int f({} x) {{ switch (x) {{ case {}: return 1; default: return 0; }} }}\n", PRELUDE, sw, case.expr), "case ", ':')
        }
        "emit-array" => {
            // array sizes are positive; the declaration is never instantiated in memory by a source-to-source compiler
            if n < 1 {
                return;
            }
            (format!("{}struct SA {{ float marr[{}]; }};\nfloat f(SA s) {{ return s.marr[0]; }}\n", PRELUDE, case.expr), "marr[", ']')
        }
        _ => {
            let ty = match v {
                Val::Un(_) | Val::Eu(_) => "uint",
                Val::L(x) if x > i32::MAX as i128 => "uint",
                _ => "int",
            };
            (format!("{}static const {} GG = {};\nint f() {{ return (int)GG; }}\n", PRELUDE, ty, case.expr), "GG = ", ';')
        }
    };
    // values a conversion to the 32-bit type of the position may produce from an untyped literal
    let accepted: Vec<i128> = match v {
        Val::L(x) if pos != "emit-array" => vec![x, x as i32 as i128, x as u32 as i128],
        _ => vec![n],
    };
    for cfg in [Cfg::Dx, Cfg::Msl] {
        acc.add("compilation_units", 1);
        match guard(|| compile1(&src, cfg, Mode::NoPipeline)) {
            Err(p) => violation(
                acc,
                format!("emitted|{}|panic|{}|{}", pos, file_class(&p), msg_norm(&p).replace("-#", "#")),
                format!("[{}] compiling `{}` (value {}) for {} aborts: {} ({})", pos, case.expr, n, cfg.name(), p.message, p.file),
                case,
            ),
            Ok(Err(_)) => acc.count("emitted_front_end_rejects"),
            Ok(Ok(ps)) => {
                let text = ps.first().map(|p| String::from_utf8_lossy(&p.data).to_string()).unwrap_or_default();
                let lit = text.find(key).map(|i| &text[i + key.len()..]).and_then(|r| r.find(|c| c == end || c == '\n').map(|j| r[..j].to_string()));
                match lit.as_deref().and_then(parse_emitted_int) {
                    None => acc.count("emitted_not_a_literal"),
                    Some(got) if accepted.contains(&got) => {
                        acc.count("emitted_value_agrees");
                        acc.outcome(&("emitted", pos, cfg.name(), got));
                    }
                    Some(got) => violation(
                        acc,
                        format!("emitted|{}|wrong-value|{}|{}", pos, v.ty().name(), cfg.name()),
                        format!("[{}] `{}` has the value {} but {} output spells it `{}` = {}", pos, case.expr, n, cfg.name(), lit.unwrap_or_default().trim(), got),
                        case,
                    ),
                }
            }
        }
    }
}

/// `enum Q { QA = <leaf>, QB };` — the implicit successor is a constant the compiler computes
fn process_successor(base: &Base, leaf: u16, acc: &mut Acc) {
    let (text, v) = base.leaves[leaf as usize];
    let n = match v.int() {
        Some(n) => n,
        None => return,
    };
    acc.evals += 1;
    let src = format!("{}enum Q {{ QA = {}, QB }};\n", PRELUDE, text);
    let replay = format!("kind: successor\nleaf: {}\n", text);
    // the successor is computed in the type of the previous value
    let fits = match v {
        Val::I(x) | Val::En(x) => x.checked_add(1).is_some(),
        Val::Un(x) | Val::Eu(x) => x.checked_add(1).is_some(),
        _ => true,
    };
    let r = tc(&src);
    match r {
        Err(p) => acc.violation(Violation {
            signature: format!("enum-successor|panic|{}", msg_norm(&p)),
            detail: format!("`enum Q {{ QA = {}, QB }};` aborts while computing QB: {} ({})", text, p.message, p.file),
            replay,
        }),
        Ok(Tc::Ok(m)) => {
            for i in 0..m.enum_registry.get_enum_count() {
                let id = ir::EnumId(i);
                if enum_name(&m, id) == "Q" {
                    let vals = m.enum_registry.get_values(id);
                    if vals.len() == 2 {
                        let got = const_int(&m.enum_registry.get_enum_value(vals[1]).value);
                        if fits && got != Some(n + 1) {
                            acc.violation(Violation {
                                signature: format!("enum-successor|wrong-value|{}", v.ty().name()),
                                detail: format!("`enum Q {{ QA = {}, QB }};` gives QB = {:?}, expected {}", text, got, n + 1),
                                replay: replay.clone(),
                            });
                        } else {
                            acc.count("successor_agrees");
                            acc.outcome(&("successor", got));
                        }
                    }
                }
            }
        }
        Ok(_) => acc.count("successor_rejected"),
    }
}

// ---------------------------------------------------------------------------------------------
// spaces

/// all depth-1 nodes over the leaves, in a fixed order: unary, casts, binary
fn depth1(nleaf: u32) -> Vec<Node> {
    let mut v = Vec::new();
    for op in ALL_UOP {
        for a in 0..nleaf {
            v.push(Node::Un(op, a));
        }
    }
    for t in CAST_TY {
        for a in 0..nleaf {
            v.push(Node::Cast(t, a));
        }
    }
    for op in ALL_BOP {
        for a in 0..nleaf {
            for b in 0..nleaf {
                v.push(Node::Bin(op, a, b));
            }
        }
    }
    v
}

/// the value of a node when the reference fixes it independently of the half mode and rssl evaluates it
fn definite(i: &Info) -> Option<Val> {
    if i.ty.is_none() || !i.sup {
        return None;
    }
    match (i.out[0], i.out[1]) {
        (Out::V(a), Out::V(b)) if a.key() == b.key() => Some(a),
        _ => None,
    }
}

/// node of the "unary / cast over representatives" space
fn unary_at(reps: &[u32], idx: u64) -> Node {
    let nr = reps.len() as u64;
    let k = idx / nr;
    let a = reps[(idx % nr) as usize];
    if (k as usize) < ALL_UOP.len() { Node::Un(ALL_UOP[k as usize], a) } else { Node::Cast(CAST_TY[k as usize - ALL_UOP.len()], a) }
}

/// node of the "binary over representatives × leaves, both sides" space: leaf fastest, then representative, side, operator
fn binary_at(ops: &[Bop], reps: &[u32], lv: &[u32], idx: u64) -> Node {
    let (nl, nr) = (lv.len() as u64, reps.len() as u64);
    let l = lv[(idx % nl) as usize];
    let r = reps[((idx / nl) % nr) as usize];
    let side = (idx / (nl * nr)) % 2;
    let op = ops[(idx / (nl * nr * 2)) as usize];
    if side == 0 { Node::Bin(op, r, l) } else { Node::Bin(op, l, r) }
}

fn thin<T: Copy>(v: &[T], max: usize) -> Vec<T> {
    if v.len() <= max || max == 0 {
        return v.to_vec();
    }
    // every k-th element of the sorted list, first and last kept
    let mut out = Vec::with_capacity(max);
    for i in 0..max {
        out.push(v[i * (v.len() - 1) / (max - 1)]);
    }
    out
}

pub fn run(ctx: &Ctx) -> i32 {
    let mut rep = Report::new("exploration");
    rep.rule = "every generated expression is type-checked by the real rssl typer inside `static const T c = E;` (and, for the position subset, as array size / enum value / case label / template argument / numthreads argument / assert_eval operand; and, for the uint-position subset, as argument of [[vk::binding(e)]], [[vk::binding(e, 3)]], [[vk::binding(3, e)]], [[rssl::bind_group(e)]] on a texture and on a cbuffer, numthreads y and z, DefaultBindGroup, [unroll(e)]); non-trivial = rssl evaluated it to a constant that was compared with the reference evaluator, or reported a division by zero as not constant; distinct = different (root operator, operand types, resulting constant)".into();

    let mut base = Base::new();
    let nleaf = base.leaves.len() as u32;
    let mut offset = 0u64;

    // S0: the leaves themselves
    {
        let node_at = |i: u64| Node::Leaf(i as u16);
        let sp = Space { name: "leaves", base: &base, total: nleaf as u64, node_at: &node_at, exact_every: 1, offset };
        run_space(ctx, &mut rep, &sp);
        offset += sp.total;
    }

    // S1: depth 1, complete
    let d1 = depth1(nleaf);
    let d1_first = base.nodes.len() as u32;
    for n in &d1 {
        base.push(*n);
    }
    let d1_len = d1.len() as u64;
    {
        let b = &base;
        let node_at = move |i: u64| b.nodes[(d1_first as u64 + i) as usize];
        let sp = Space { name: "depth1", base: &base, total: d1_len, node_at: &node_at, exact_every: 1, offset };
        run_space(ctx, &mut rep, &sp);
        offset += sp.total;
    }

    // representatives: one node per distinct definite value of depth ≤ 1 that is not already a leaf value,
    // plus the first "not constant" / "value or not constant" node of every type (children that must poison their parent)
    let mut seen_vals: HashMap<(u8, u128), u32> = HashMap::new();
    let mut reps: Vec<u32> = Vec::new();
    let mut special: Vec<u32> = Vec::new();
    let mut special_seen: Vec<(Ty, u8)> = Vec::new();
    for id in 0..base.nodes.len() as u32 {
        let i = &base.info[id as usize];
        if let Some(v) = definite(i) {
            if !seen_vals.contains_key(&v.key()) {
                seen_vals.insert(v.key(), id);
                if id >= nleaf {
                    reps.push(id);
                }
            }
        } else if let Some(t) = i.ty {
            let kind = match i.out[0] {
                Out::NotConst => 1,
                Out::OrNot(_) => 2,
                _ => 0,
            };
            if kind != 0 && i.sup && !special_seen.contains(&(t, kind)) {
                special_seen.push((t, kind));
                special.push(id);
            }
        }
    }
    rep.cov("distinct_values_depth1", Json::Int(seen_vals.len() as i64));
    rep.cov("representatives_depth1", Json::Int(reps.len() as i64));
    rep.cov("special_children", Json::Int(special.len() as i64));
    let all_leaf_ids: Vec<u32> = (0..nleaf).collect();
    let boundary_ids: Vec<u32> = BOUNDARY_LEAVES.iter().map(|t| base.leaves.iter().position(|l| l.0 == *t).expect("boundary leaf") as u32).collect();

    // S2: depth 2
    let mut reps2: Vec<u32> = thin(&reps, ctx.pick(240, 0));
    reps2.extend(&special);
    let lv2: Vec<u32> = if ctx.quick() { boundary_ids.clone() } else { all_leaf_ids.clone() };
    {
        let total = (ALL_UOP.len() + CAST_TY.len()) as u64 * reps2.len() as u64;
        let r2 = &reps2;
        let node_at = move |i: u64| unary_at(r2, i);
        let sp = Space { name: "depth2_unary", base: &base, total, node_at: &node_at, exact_every: 1, offset };
        run_space(ctx, &mut rep, &sp);
        offset += sp.total;
    }
    let total2 = ALL_BOP.len() as u64 * 2 * reps2.len() as u64 * lv2.len() as u64;
    {
        let (r2, l2) = (&reps2, &lv2);
        let node_at = move |i: u64| binary_at(&ALL_BOP, r2, l2, i);
        let sp = Space { name: "depth2_binary", base: &base, total: total2, node_at: &node_at, exact_every: ctx.pick(1, 1), offset };
        run_space(ctx, &mut rep, &sp);
        offset += sp.total;
    }

    // S2c: both children of depth 1 (one representative per value)
    let mut reps_p: Vec<u32> = thin(&reps, ctx.pick(56, 0));
    reps_p.extend(&special);
    let np = reps_p.len() as u64;
    let total2c = ALL_BOP.len() as u64 * np * np;
    let pair_at = |rp: &[u32], idx: u64| -> Node {
        let n = rp.len() as u64;
        Node::Bin(ALL_BOP[(idx / (n * n)) as usize], rp[((idx / n) % n) as usize], rp[(idx % n) as usize])
    };
    {
        let rp = &reps_p;
        let node_at = move |i: u64| pair_at(rp, i);
        let sp = Space { name: "depth2_pairs", base: &base, total: total2c, node_at: &node_at, exact_every: 1, offset };
        run_space(ctx, &mut rep, &sp);
        offset += sp.total;
    }

    // S3: depth 3 over the integer-like values first reached at depth 2
    let mut new_vals: Vec<((u8, u128), u64)> = Vec::new();
    {
        let mut seen2: HashMap<(u8, u128), u64> = HashMap::new();
        for idx in 0..(total2 + total2c) {
            let n = if idx < total2 { binary_at(&ALL_BOP, &reps2, &lv2, idx) } else { pair_at(&reps_p, idx - total2) };
            let i = base.eval(&n);
            if let Some(v) = definite(&i) {
                if v.ty().is_intlike() && v.ty() != Bool && !seen_vals.contains_key(&v.key()) && !seen2.contains_key(&v.key()) {
                    seen2.insert(v.key(), idx);
                }
            }
        }
        new_vals.extend(seen2.into_iter());
        new_vals.sort();
    }
    rep.cov("distinct_new_values_depth2", Json::Int(new_vals.len() as i64));
    let picked = thin(&new_vals, ctx.pick(120, 2500));
    let mut reps3: Vec<u32> = Vec::new();
    for (_, idx) in &picked {
        let n = if *idx < total2 { binary_at(&ALL_BOP, &reps2, &lv2, *idx) } else { pair_at(&reps_p, *idx - total2) };
        reps3.push(base.push(n));
    }
    {
        let total = SUB_BOP.len() as u64 * 2 * reps3.len() as u64 * boundary_ids.len() as u64;
        let (r3, l3) = (&reps3, &boundary_ids);
        let node_at = move |i: u64| binary_at(&SUB_BOP, r3, l3, i);
        let sp = Space { name: "depth3_binary", base: &base, total, node_at: &node_at, exact_every: 1, offset };
        run_space(ctx, &mut rep, &sp);
        offset += sp.total;
    }

    // P: positions — integer-like depth-≤1 expressions with a fixed outcome
    let mut cand: Vec<u32> = Vec::new();
    for id in 0..(nleaf + d1_len as u32) {
        let i = &base.info[id as usize];
        if let Some(t) = i.ty {
            if t.is_intlike() && i.sup && !matches!(i.out[0], Out::Free) {
                cand.push(id);
            }
        }
    }
    rep.cov("position_candidates", Json::Int(cand.len() as i64));
    let chosen = thin(&cand, ctx.pick(2000, 8000));
    {
        let total = chosen.len() as u64 * POSITIONS.len() as u64;
        let b = &base;
        let r = run_par(ctx, total, 64, |idx, acc| {
            acc.cur_index = offset + idx;
            let id = chosen[(idx / POSITIONS.len() as u64) as usize];
            let pos = POSITIONS[(idx % POSITIONS.len() as u64) as usize];
            process_position(b, &b.nodes[id as usize], pos, acc);
            if idx % 1009 == 0 {
                acc.sample(obj(vec![("space", "positions".into()), ("position", pos.into()), ("expression", b.src(&b.nodes[id as usize]).into())]));
            }
        });
        rep.absorb("positions", r);
    }

    // A: attribute / pipeline-property arguments evaluated to a fixed-width unsigned integer. Arguments: the position
    // candidates above, every distinct depth-≤1 value outside 0..2^31 (unthinned), and one expression per distinct new
    // value of `w op k` / `k op w` (w such a value, k a small leaf): the values around and beyond the 32- and 64-bit boundaries
    {
        let mut wide: Vec<u32> = Vec::new();
        let mut wseen: HashMap<(u8, u128), u32> = HashMap::new();
        for id in &cand {
            if let Some(v) = definite(&base.info[*id as usize]) {
                if let Some(n) = v.int() {
                    if (n < 0 || n >= (1i128 << 31)) && !wseen.contains_key(&v.key()) {
                        wseen.insert(v.key(), *id);
                        wide.push(*id);
                    }
                }
            }
        }
        let small: Vec<u32> = ["0", "1", "2", "31", "32", "(-1)", "1u", "I1"].iter().filter_map(|t| base.leaves.iter().position(|l| l.0 == *t).map(|i| i as u32)).collect();
        // quick: every value within 2 of a power-of-two boundary is kept, the others are thinned evenly
        let near = |id: &u32| -> bool {
            let n = definite(&base.info[*id as usize]).and_then(|v| v.int()).unwrap_or(0);
            [0i128, 1 << 31, 1 << 32, 1 << 63, 1 << 64, -(1 << 31)].iter().any(|b| (n - b).abs() <= 2)
        };
        let mut wide2: Vec<u32> = wide.iter().filter(|id| near(id)).cloned().collect();
        let far: Vec<u32> = wide.iter().filter(|id| !near(id)).cloned().collect();
        wide2.extend(thin(&far, ctx.pick(64, 0)));
        let ops = [Bop::Or, Bop::Add, Bop::Sub, Bop::Xor, Bop::And, Bop::Shl, Bop::Shr, Bop::Mul, Bop::Div, Bop::Mod];
        let mut args: Vec<u32> = chosen.clone();
        for w in &wide {
            if !args.contains(w) {
                args.push(*w);
            }
        }
        let mut deep = 0i64;
        for op in ops {
            for w in &wide2 {
                for k in &small {
                    for n in [Node::Bin(op, *w, *k), Node::Bin(op, *k, *w)] {
                        let i = base.eval(&n);
                        let ok = i.ty.map(|t| t.is_intlike()).unwrap_or(false) && i.sup && !matches!(i.out[0], Out::Free);
                        if !ok {
                            continue;
                        }
                        if let Some(v) = definite(&i) {
                            if wseen.contains_key(&v.key()) || v.int().map(|n| n >= 0 && n < (1i128 << 31)).unwrap_or(true) {
                                continue;
                            }
                            wseen.insert(v.key(), 0);
                            args.push(base.push(n));
                            deep += 1;
                        }
                    }
                }
            }
        }
        rep.cov("uint_position_arguments", Json::Int(args.len() as i64));
        rep.cov("uint_position_wide_values_depth1", Json::Int(wide.len() as i64));
        rep.cov("uint_position_wide_values_depth2", Json::Int(deep));
        let np = UINT_POSITIONS.len() as u64;
        let total = args.len() as u64 * np;
        let off = offset + 20_000_000;
        let b = &base;
        let a = &args;
        let r = run_par(ctx, total, 64, |idx, acc| {
            acc.cur_index = off + idx;
            let id = a[(idx / np) as usize];
            let pos = UINT_POSITIONS[(idx % np) as usize].0;
            process_position(b, &b.nodes[id as usize], pos, acc);
            if idx % 4001 == 0 {
                acc.sample(obj(vec![("space", "uint_positions".into()), ("position", pos.into()), ("expression", b.src(&b.nodes[id as usize]).into())]));
            }
        });
        rep.absorb("uint_positions", r);
    }

    // E: emitted constants — the same candidates printed by both exporters
    {
        let off = offset + chosen.len() as u64 * POSITIONS.len() as u64 + nleaf as u64;
        let total = chosen.len() as u64 * EMIT_POSITIONS.len() as u64;
        let b = &base;
        let r = run_par(ctx, total, 64, |idx, acc| {
            acc.cur_index = off + idx;
            let id = chosen[(idx / EMIT_POSITIONS.len() as u64) as usize];
            let pos = EMIT_POSITIONS[(idx % EMIT_POSITIONS.len() as u64) as usize];
            process_position(b, &b.nodes[id as usize], pos, acc);
        });
        rep.absorb("emitted_constants", r);
    }

    // F: unparenthesised chains `a op1 b op2 c` over literal leaves: the parser's grouping is the C one
    {
        let flat_leaves: Vec<u32> = ["0", "1", "2", "3", "(-1)", "5u", "true"].iter().filter_map(|t| base.leaves.iter().position(|l| l.0 == *t).map(|i| i as u32)).collect();
        let mut index: HashMap<(u8, u32, u32), u32> = HashMap::new();
        for (i, n) in base.nodes.iter().enumerate() {
            if let Node::Bin(op, a, b) = n {
                index.entry((*op as u8, *a, *b)).or_insert(i as u32);
            }
        }
        let (no, nl) = (ALL_BOP.len() as u64, flat_leaves.len() as u64);
        let off = offset + 10_000_000;
        let b = &base;
        let (fl, ix) = (&flat_leaves, &index);
        let r = run_par(ctx, no * no * nl * nl * nl, 256, |idx, acc| {
            acc.cur_index = off + idx;
            let mut d = Vec::new();
            crate::util::decode(idx, &[nl, nl, nl, no, no], &mut d);
            let (op1, op2) = (ALL_BOP[d[4] as usize], ALL_BOP[d[3] as usize]);
            let (x, y, z) = (fl[d[2] as usize], fl[d[1] as usize], fl[d[0] as usize]);
            let left_first = flat_prec(op1) >= flat_prec(op2);
            let node = if left_first {
                match ix.get(&(op1 as u8, x, y)) {
                    Some(i) => Node::Bin(op2, *i, z),
                    None => return,
                }
            } else {
                match ix.get(&(op2 as u8, y, z)) {
                    Some(i) => Node::Bin(op1, x, *i),
                    None => return,
                }
            };
            let flat = format!("{} {} {} {} {}", b.leaves[x as usize].0, op1.sym(), b.leaves[y as usize].0, op2.sym(), b.leaves[z as usize].0);
            process_position_src(b, &node, "global", Some(&flat), acc);
        });
        rep.cov("flat_chain_leaves", Json::Int(nl as i64));
        rep.absorb("flat_operator_chains", r);
    }

    // enum successor
    {
        let b = &base;
        let off = offset + chosen.len() as u64 * POSITIONS.len() as u64;
        let r = run_par(ctx, nleaf as u64, 4, |idx, acc| {
            acc.cur_index = off + idx;
            process_successor(b, idx as u16, acc)
        });
        rep.absorb("enum_successor", r);
    }

    rep.assumptions = vec![
        "typing of an expression (operand promotion order enum < bool < literal int < int < uint < literal float < half < float < double; bool operands of arithmetic become int; shifts and bit operators promote both operands alike) is taken from the rssl typer (expressions.rs, casting.rs), not from the property; the check compares values, not types".into(),
        "the set of (operator, operand type) pairs the evaluator implements is transcribed from evaluator.rs: integer arithmetic/bit/shift on literal int, int, uint and enums; comparisons on every type; logic on bool; unary minus except on uint/bool; every cast except to the literal types. Outside that set 'not constant' is accepted (float arithmetic is never evaluated by rssl and therefore never compared); inside it a value-dependent 'not constant' other than division by zero / INT_MIN÷-1 is reported as consteval|refused".into(),
        "shift counts of int/uint are taken modulo 32; literal-int shifts are exact, with counts outside 0..127 and results outside i128 left unspecified (no abort only)".into(),
        "float→int conversions of NaN or out-of-range values, and every result that depends on them, are not compared (no abort only)".into(),
        "half: rssl stores half constants in binary32; HLSL allows half to be float (default) or binary16 (-enable-16bit-types): a result is accepted when it agrees with either reading applied consistently to the whole expression".into(),
        "`false && (1/0)`-style operands: C would not evaluate the right operand, rssl does: both 'not constant' and the short-circuit value are accepted".into(),
        "depth 2 uses one representative expression per distinct depth-≤1 value (evaluation is compositional: evaluate_constexpr only looks at the values of the operands); depth 3 uses a 10-operator subset, evenly thinned representatives of the integer values first reached at depth 2 and 19 boundary leaves".into(),
        "INT_MIN is spelled as the global `static const int IMIN = -2147483648` / enum value; 64-bit suffixed literals (l, ul) are outside the space (no 64-bit scalar type exists in the typer)".into(),
        "fixed-width unsigned positions (binding / bind group / numthreads / DefaultBindGroup: 32 bits, unroll: 64 bits): the position must use exactly the reference value, or reject the program; a value the position cannot represent (negative, > 2^32-1 resp. > 2^64-1) may only be rejected, never replaced by a truncated value; enum-typed arguments are not admitted by rssl there and are not judged. The pipeline properties WriteMask and MaxAnisotropy (same extract_uint32 routine as DefaultBindGroup) and the vector/matrix dimension template arguments (range 1..4) are not enumerated".into(),
    ];
    finish(ctx, rep)
}

pub fn replay(ctx: &Ctx, body: &str) -> i32 {
    let mut acc = Acc::default();
    let mut kind = "";
    let mut position = "global";
    let mut tree = "";
    let mut leaf = "";
    for line in body.lines() {
        if let Some(v) = line.strip_prefix("kind: ") {
            kind = v.trim();
        } else if let Some(v) = line.strip_prefix("position: ") {
            position = v.trim();
        } else if let Some(v) = line.strip_prefix("tree: ") {
            tree = v.trim();
        } else if let Some(v) = line.strip_prefix("leaf: ") {
            leaf = v.trim();
        }
    }
    let mut base = Base::new();
    match kind {
        "expr" => {
            let mut toks = tree.split_whitespace();
            let node = match base.deser(&mut toks) {
                Some(n) => n,
                None => {
                    eprintln!("machinery error: cannot parse tree {:?}", tree);
                    return 2;
                }
            };
            let info = base.eval(&node);
            println!("expression: {}\nreference: type {:?}, {}, supported={}", base.src(&node), info.ty.map(|t| t.name()), show_out(&info.out), info.sup);
            process_position(&base, &node, position, &mut acc);
        }
        "successor" => match base.leaves.iter().position(|l| l.0 == leaf) {
            Some(i) => process_successor(&base, i as u16, &mut acc),
            None => {
                eprintln!("machinery error: unknown leaf {:?}", leaf);
                return 2;
            }
        },
        "probe" => {
            // development aid: type-check the texts after the first line, separated by ==== lines
            for src in body.split_once('\n').map(|x| x.1).unwrap_or("").split("\n====\n") {
                println!("--- {}", src);
                match tc(&format!("{}{}", PRELUDE, src)) {
                    Err(p) => println!("PANIC {} :: {}", p.file, p.message),
                    Ok(Tc::Syntax(e)) => println!("SYNTAX {}", one_line(&e, 200)),
                    Ok(Tc::TypeErr(e)) => println!("ERR {}", one_line(&format!("{:?}", e), 300)),
                    Ok(Tc::Ok(m)) => {
                        for g in m.global_registry.iter().filter(|g| !g.is_intrinsic) {
                            println!("  global {} = {:?}", g.name.node, g.constexpr_value);
                        }
                    }
                }
            }
            return 0;
        }
        k => {
            eprintln!("machinery error: unknown replay kind {:?}", k);
            return 2;
        }
    }
    for (k, n) in &acc.counters {
        println!("  {}: {}", k, n);
    }
    finish_replay(ctx, &acc)
}


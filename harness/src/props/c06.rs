//! C06 — binding slots are allocated completely, contiguously and without overlap.
//!
//! E2 (explicit-state BFS, hook H4). A *history* is a sequence of global declarations ("letters"). The
//! transition function is the real code: the history is rendered as source text and run through the real
//! `preprocess → parse → type_check → Module::assign_api_bindings(params)` with the allocator hook
//! (`rssl::ir::verif_alloc`) recording `(used_slots, inline_size)` after every root definition.
//!
//! State = (hook snapshot after the last declaration, state of the reference model `Model`).
//!
//! Why merging histories with equal state is sound (read off `ir/src/ir_module.rs`, `assign_api_bindings`):
//! `process_definition(module, decl, params, used_slots, inline_size, default_set)` reads, besides the two
//! maps, only (a) `params` and `default_set` — constant for a whole BFS run (one run per configuration and
//! default group); (b) the *current* declaration: `lang_slot.set` / `lang_binding.set`, `static_sampler`,
//! `type_id` (resolved through `module.type_registry`, which the pass never mutates and whose answer for a
//! declaration depends only on that declaration's own type), and `api_slot` / `api_binding` of the current
//! declaration (asserted to be `None`, true for every fresh declaration). It writes only
//! `api_slot` / `api_binding` / `storage_class` of the current declaration. `flags` are written once before the
//! loop. The closing loop that builds `inline_constant_buffers` is a function of the two final maps only.
//! Hence two histories that end with equal `(used_slots, inline_size)` behave identically on every
//! continuation. (The model state is part of the key too, so a model/implementation divergence is never merged
//! away.)
//!
//! Per transition: prefix determinism, invariants (1)–(7) of DESIGN §5 C06; at every *new* state (and at every
//! transition of the shallow levels) an end-to-end cross-check through `rssl::compile()` for the real target
//! (DX / VK / VK+buffer-address / MSL; no-pipeline mode or a compute pipeline with `DefaultBindGroup`): the hook
//! trace inside `compile` equals the one of the direct call, and `metadata.bind_groups` shows the same numbers.
//!
//! Spelled spaces (flat enumerations, run before the BFS, same oracle `check_history`): the BFS writes every letter in
//! one fixed way (`decl_text`), one declaration per statement. The allocator only sees `lang_slot.set` /
//! `lang_binding.set`, which the type checker assembles from attributes and register annotations, so the property
//! ("resources without an explicit group go to the default group", every range in its own group) also depends on
//! how a declaration is written. Two further dimensions are therefore enumerated (types `Attr`, `Reg`, `Sp`):
//!   * `spelled_single_declarations`: one declaration (alone; thorough also between two plain textures) x kind x
//!     array x explicit group x every sequence of up to 2 (thorough: 3) attributes out of
//!     {`[[rssl::bind_group(G)]]`, `[[vk::binding(I)]]`, `[[vk::binding(I, G)]]`} in every order x register annotation
//!     {none, `register(spaceG)`, `register(tI)`, `register(tI, spaceG)`} (also on cbuffer blocks);
//!   * `spelled_multi_declarator_statements`: one statement with 2..3 (thorough: ..4) declarators of one object kind,
//!     every declarator with its own array length / explicit group / register annotation, optionally under a statement
//!     attribute.
//! Only spellings that say exactly what the letters say are used (`spelling_ok`: every annotation of a declaration
//! that names a group names the same one; no group named for a letter without explicit group), so the expected
//! placement is the one of the letters and no priority rule between conflicting annotations is assumed. The
//! language binding index I never influences api slots (doc comment of `assign_api_bindings`; the property hands
//! out ranges from zero in declaration order).
//!
//! Flat spaces of plainly spelled histories (`flat_spaces`, same oracle):
//!   * `pipeline_shapes`: the default group is a property of the pipeline definition; pipelines with every stage
//!     combination {CS, VS, PS, VS+PS, MS, MS+PS, TS+MS, TS+MS+PS} x `DefaultBindGroup` {not written, 0, 1, 2} x
//!     (written after / before the stage properties) on every class letter alone and all short histories over a small
//!     alphabet;
//!   * `cbuffer_member_counts`: cbuffer blocks with 0..3 members (kinds `cbuffer{N members}`, also letters of the BFS)
//!     at every position of every history of up to 3 (thorough 4) declarations over a 12 letter alphabet, always
//!     end-to-end.
//!
//! Violation signatures (classes):
//!   alloc|range-start|<class>            range does not start at the group's previous counter
//!   alloc|range-length|<class>|<config>  range length != array_len × (2 if metal raw/structured/address else 1)
//!   alloc|no-slot|<class>                a bound resource received no slot range
//!   alloc|overlap, alloc|gap, alloc|order   whole-history formulation of (2) and (3)
//!   alloc|default-group, alloc|default-group|graphics-pipeline, alloc|explicit-group
//!   alloc|non-resource-changed-state|<class>, alloc|foreign-group-changed|<class>
//!   alloc|inline-constants|<what>
//!   alloc|model-disagrees
//!   alloc|metadata-disagrees|<field>|<config>
//!   panic|<file>|<message>               panic inside type_check / assign_api_bindings
//!   machinery|...                        harness problem (prefix divergence, rejected history, trace shape)

use crate::engine::*;
use crate::json::{Json, obj};
use crate::util::{ALL_CFGS, Cfg, Job, Mode, typecheck_src};
use rssl::ir;
use std::collections::{BTreeMap, HashMap};

// -------------------------------------------------------------------------------------------
// alphabet

#[derive(Copy, Clone, PartialEq, Eq, Hash, Debug, PartialOrd, Ord)]
pub enum Class {
    /// `cbuffer X { ... }` block (own code path in the allocator)
    CbufferBlock,
    /// `ConstantBuffer<T>`
    ConstantBufferT,
    /// textures, typed buffers, acceleration structures: one slot per element everywhere
    Texture,
    /// SamplerState / SamplerComparisonState without static sampler initialiser
    Sampler,
    /// ByteAddressBuffer / RWByteAddressBuffer: two slots per element on Metal
    RawBuffer,
    /// StructuredBuffer<T> / RWStructuredBuffer<T>: two slots per element on Metal
    StructuredBuffer,
    /// BufferAddress / RWBufferAddress: two slots per element on Metal, 8 inline bytes with buffer addresses enabled
    BufferAddress,
    /// sampler with a StaticSampler initialiser: no slot when static samplers live in the source (Metal)
    StaticSampler,
    /// plain / static / groupshared global of numeric type: never a slot
    NonResource,
}

impl Class {
    fn name(self) -> &'static str {
        match self {
            Class::CbufferBlock => "cbuffer-block",
            Class::ConstantBufferT => "ConstantBuffer<T>",
            Class::Texture => "texture-or-typed-buffer",
            Class::Sampler => "sampler",
            Class::RawBuffer => "raw-buffer",
            Class::StructuredBuffer => "structured-buffer",
            Class::BufferAddress => "buffer-address",
            Class::StaticSampler => "static-sampler",
            Class::NonResource => "non-resource-global",
        }
    }
}

#[derive(Copy, Clone, PartialEq, Eq, Debug)]
enum Form {
    /// `<ty> name[n];`
    Object,
    /// `cbuffer name { float4 name_m; }`
    Cbuffer,
    /// `<ty> name[n] = StaticSampler { ... };`
    StaticSampler,
    /// `<prefix> float name[n];`
    Numeric,
}

pub struct Kind {
    pub name: &'static str,
    ty: &'static str,
    pub class: Class,
    form: Form,
    /// representative of its allocator class in the class alphabet
    class_rep: bool,
    /// number of members of a `cbuffer` block (0: `cbuffer X { }`); 1 for everything else
    members: u8,
}

const fn k(name: &'static str, ty: &'static str, class: Class, form: Form, class_rep: bool) -> Kind {
    Kind { name, ty, class, form, class_rep, members: 1 }
}

/// `cbuffer` block with `members` members (the allocator hands a block one slot whatever it contains)
const fn kc(name: &'static str, members: u8, class_rep: bool) -> Kind {
    Kind { name, ty: "", class: Class::CbufferBlock, form: Form::Cbuffer, class_rep, members }
}

/// `{ ... }` of a cbuffer block called `name` with `members` members
fn cbuffer_body(name: &str, members: u8) -> String {
    const TYPES: [&str; 3] = ["float4", "float", "uint2"];
    let mut s = String::from("{ ");
    for m in 0..members as usize {
        let suffix = if m == 0 { String::new() } else { m.to_string() };
        s.push_str(&format!("{} {}_m{}; ", TYPES[m % 3], name, suffix));
    }
    s.push('}');
    s
}

/// Every object kind of `ir::ObjectType` that can be declared as a global resource (the `*Mips*` kinds are
/// intermediate types without a spelling, TriangleStream / RayQuery / RayDesc are not resources), plus the
/// `cbuffer` block, static samplers and the three non-resource storage classes.
pub const KINDS: &[Kind] = &[
    k("Buffer", "Buffer<float4>", Class::Texture, Form::Object, false),
    k("RWBuffer", "RWBuffer<float4>", Class::Texture, Form::Object, false),
    k("ByteAddressBuffer", "ByteAddressBuffer", Class::RawBuffer, Form::Object, true),
    k("RWByteAddressBuffer", "RWByteAddressBuffer", Class::RawBuffer, Form::Object, false),
    k("BufferAddress", "BufferAddress", Class::BufferAddress, Form::Object, true),
    k("RWBufferAddress", "RWBufferAddress", Class::BufferAddress, Form::Object, false),
    k("StructuredBuffer", "StructuredBuffer<S>", Class::StructuredBuffer, Form::Object, true),
    k("RWStructuredBuffer", "RWStructuredBuffer<S>", Class::StructuredBuffer, Form::Object, false),
    k("Texture2D", "Texture2D<float4>", Class::Texture, Form::Object, true),
    k("Texture2DArray", "Texture2DArray<float4>", Class::Texture, Form::Object, false),
    k("RWTexture2D", "RWTexture2D<float4>", Class::Texture, Form::Object, false),
    k("RWTexture2DArray", "RWTexture2DArray<float4>", Class::Texture, Form::Object, false),
    k("TextureCube", "TextureCube<float4>", Class::Texture, Form::Object, false),
    k("TextureCubeArray", "TextureCubeArray<float4>", Class::Texture, Form::Object, false),
    k("Texture3D", "Texture3D<float4>", Class::Texture, Form::Object, false),
    k("RWTexture3D", "RWTexture3D<float4>", Class::Texture, Form::Object, false),
    k("RaytracingAccelerationStructure", "RaytracingAccelerationStructure", Class::Texture, Form::Object, false),
    k("SamplerState", "SamplerState", Class::Sampler, Form::Object, true),
    k("SamplerComparisonState", "SamplerComparisonState", Class::Sampler, Form::Object, false),
    k("ConstantBuffer<T>", "ConstantBuffer<S>", Class::ConstantBufferT, Form::Object, true),
    k("cbuffer", "", Class::CbufferBlock, Form::Cbuffer, true),
    k("static SamplerState", "SamplerState", Class::StaticSampler, Form::StaticSampler, true),
    k("static SamplerComparisonState", "SamplerComparisonState", Class::StaticSampler, Form::StaticSampler, false),
    k("plain float", "float", Class::NonResource, Form::Numeric, false),
    k("static float", "static float", Class::NonResource, Form::Numeric, true),
    k("groupshared float", "groupshared float", Class::NonResource, Form::Numeric, false),
    // cbuffer blocks by member count (appended: the letter ids of the kinds above are unchanged); the member-less
    // block is in the class alphabet: it is a bound resource like every other block
    kc("cbuffer{0 members}", 0, true),
    kc("cbuffer{2 members}", 2, false),
    kc("cbuffer{3 members}", 3, false),
];

const ARRAYS: [Option<u32>; 4] = [None, Some(1), Some(2), Some(3)];
const GROUPS: [Option<u32>; 4] = [None, Some(0), Some(1), Some(2)];

/// letter id = kind * 16 + array index * 4 + group index
pub type Letter = u16;

fn l_kind(l: Letter) -> &'static Kind {
    &KINDS[(l / 16) as usize]
}
fn l_array(l: Letter) -> Option<u32> {
    ARRAYS[((l / 4) % 4) as usize]
}
fn l_group(l: Letter) -> Option<u32> {
    GROUPS[(l % 4) as usize]
}
fn l_count(l: Letter) -> u32 {
    l_array(l).unwrap_or(1)
}

fn letter_name(l: Letter) -> String {
    let mut s = l_kind(l).name.to_string();
    if let Some(n) = l_array(l) {
        s.push_str(&format!("[{}]", n));
    }
    match l_group(l) {
        Some(g) => s.push_str(&format!(" group={}", g)),
        None => s.push_str(" group=default"),
    }
    s
}

fn hist_str(h: &[Letter]) -> String {
    h.iter().map(|l| letter_name(*l)).collect::<Vec<_>>().join(" ; ")
}

fn all_letters() -> Vec<Letter> {
    let mut v = Vec::new();
    // simplest first: no array / no group before arrays and groups
    for arr in 0..4u16 {
        for grp in 0..4u16 {
            for kind in 0..KINDS.len() as u16 {
                if KINDS[kind as usize].form == Form::Cbuffer && arr != 0 {
                    continue; // a cbuffer block has no array form
                }
                v.push(kind * 16 + arr * 4 + grp);
            }
        }
    }
    v
}

fn decl_name(i: usize) -> String {
    format!("g_r{}", i)
}

/// One group-annotation syntax for every letter: `[[rssl::bind_group(N)]]` (accepted on every kind of global
/// including cbuffer blocks and non-resource globals; `register(spaceN)` is rejected on non-object types).
fn decl_text(l: Letter, i: usize) -> String {
    let kind = l_kind(l);
    let name = decl_name(i);
    let mut s = String::new();
    // object-typed declarations at odd positions spell their group as `: register(spaceN)` instead (both spellings set
    // the same group; added after a seeded change in the parsing of register(space0) was missed)
    let register_syntax = kind.form == Form::Object && i % 2 == 1;
    if let Some(g) = l_group(l) {
        if !register_syntax {
            s.push_str(&format!("[[rssl::bind_group({})]] ", g));
        }
    }
    let arr = match l_array(l) {
        Some(n) => format!("[{}]", n),
        None => String::new(),
    };
    if register_syntax {
        if let Some(g) = l_group(l) {
            s.push_str(&format!("{} {}{} : register(space{});", kind.ty, name, arr, g));
            return s;
        }
    }
    match kind.form {
        Form::Object | Form::Numeric => s.push_str(&format!("{} {}{};", kind.ty, name, arr)),
        Form::Cbuffer => s.push_str(&format!("cbuffer {} {}", name, cbuffer_body(&name, kind.members))),
        Form::StaticSampler => s.push_str(&format!("{} {}{} = StaticSampler {{ Filter = MIN_MAG_MIP_LINEAR; AddressU = Clamp; }};", kind.ty, name, arr)),
    }
    s
}

// -------------------------------------------------------------------------------------------
// spellings: the same letter (kind, array length, explicit group) written with the other annotation syntaxes the
// language offers, and several declarators in one declaration statement. The oracle never looks at the spelling:
// a spelled history must be allocated exactly like the history of its letters.

/// attribute in front of a declaration statement / cbuffer block
#[derive(Copy, Clone, PartialEq, Eq, Hash, Debug, PartialOrd, Ord)]
pub enum Attr {
    /// `[[rssl::bind_group(G)]]`
    Group,
    /// `[[vk::binding(I)]]`: language binding index only
    Index,
    /// `[[vk::binding(I, G)]]`
    IndexGroup,
}

/// register annotation behind a declarator / cbuffer name
#[derive(Copy, Clone, PartialEq, Eq, Hash, Debug, PartialOrd, Ord, Default)]
pub enum Reg {
    #[default]
    None,
    /// `: register(spaceG)`
    Space,
    /// `: register(tI)`: language register index only (register letter of the kind)
    Slot,
    /// `: register(tI, spaceG)`
    SlotSpace,
}

/// How one declaration of a history is written. G is always the explicit group of the letter (every annotation of
/// one declaration that names a group names the same one, so the explicit group is unambiguous); I is a language
/// binding index (5 + position), which by the documentation of assign_api_bindings has no influence on api slots.
#[derive(Clone, PartialEq, Eq, Hash, Debug, Default)]
pub struct Sp {
    /// attributes of the statement, in source order (empty for a joined declarator: it shares those of the head)
    attrs: Vec<Attr>,
    reg: Reg,
    /// a further declarator of the previous declaration's statement (`Texture2D a, b;`)
    joined: bool,
}

const ATTRS: [Attr; 3] = [Attr::Group, Attr::Index, Attr::IndexGroup];
const REGS: [Reg; 4] = [Reg::None, Reg::Space, Reg::Slot, Reg::SlotSpace];

impl Attr {
    fn name(self) -> &'static str {
        match self {
            Attr::Group => "bind_group(G)",
            Attr::Index => "vk::binding(I)",
            Attr::IndexGroup => "vk::binding(I,G)",
        }
    }
    fn names_group(self) -> bool {
        self != Attr::Index
    }
}

impl Reg {
    fn name(self) -> &'static str {
        match self {
            Reg::None => "none",
            Reg::Space => "register(spaceG)",
            Reg::Slot => "register(tI)",
            Reg::SlotSpace => "register(tI,spaceG)",
        }
    }
    fn names_group(self) -> bool {
        matches!(self, Reg::Space | Reg::SlotSpace)
    }
}

fn sp_name(sp: &Sp) -> String {
    format!("attrs=[{}] reg={} {}", sp.attrs.iter().map(|a| a.name()).collect::<Vec<_>>().join(" "), sp.reg.name(), if sp.joined { "joined" } else { "own-statement" })
}

fn parse_sp(s: &str) -> Option<Sp> {
    let rest = s.trim().strip_prefix("attrs=[")?;
    let close = rest.find(']')?;
    let mut attrs = Vec::new();
    for w in rest[..close].split_whitespace() {
        attrs.push(ATTRS.iter().copied().find(|a| a.name() == w)?);
    }
    let rest = rest[close + 1..].trim().strip_prefix("reg=")?;
    let mut it = rest.split_whitespace();
    let reg = it.next()?;
    let reg = REGS.iter().copied().find(|r| r.name() == reg)?;
    let joined = match it.next()? {
        "joined" => true,
        "own-statement" => false,
        _ => return None,
    };
    Some(Sp { attrs, reg, joined })
}

/// index of the head declarator of the statement declaration `i` belongs to
fn sp_head(sps: &[Sp], i: usize) -> usize {
    let mut h = i;
    while h > 0 && sps[h].joined {
        h -= 1;
    }
    h
}

/// A spelling fits a history when it says exactly what the letters say: a declaration whose letter has no explicit
/// group is annotated with no group anywhere, one with explicit group G names G at least once (own register
/// annotation or an attribute of its statement) and nothing names another group; joined declarators have the kind
/// of their head (one type per statement).
fn spelling_ok(hist: &[Letter], sps: &[Sp]) -> Result<(), String> {
    if hist.len() != sps.len() {
        return Err("one spelling per letter expected".into());
    }
    for i in 0..hist.len() {
        let sp = &sps[i];
        if sp.joined {
            if i == 0 {
                return Err("the first declaration cannot be joined".into());
            }
            if !sp.attrs.is_empty() {
                return Err(format!("declaration {}: a joined declarator has no attributes of its own", i));
            }
            if hist[i] / 16 != hist[i - 1] / 16 || l_kind(hist[i]).form == Form::Cbuffer {
                return Err(format!("declaration {}: joined declarators share the type of their statement", i));
            }
        }
        let h = sp_head(sps, i);
        let attr_group = sps[h].attrs.iter().any(|a| a.names_group());
        if attr_group && (l_group(hist[h]).is_none() || l_group(hist[i]) != l_group(hist[h])) {
            return Err(format!("declaration {}: the attributes of its statement name another group than its letter", i));
        }
        match l_group(hist[i]) {
            None => {
                if attr_group || sp.reg.names_group() {
                    return Err(format!("declaration {}: letter without explicit group spelled with a group", i));
                }
            }
            Some(_) => {
                if !attr_group && !sp.reg.names_group() {
                    return Err(format!("declaration {}: letter with explicit group spelled without one", i));
                }
            }
        }
    }
    Ok(())
}

fn reg_char(kind: &Kind) -> char {
    match kind.class {
        Class::CbufferBlock | Class::ConstantBufferT => 'b',
        Class::Sampler | Class::StaticSampler => 's',
        _ => {
            if kind.name.starts_with("RW") {
                'u'
            } else {
                't'
            }
        }
    }
}

fn lang_index(i: usize) -> usize {
    5 + i
}

fn attrs_text(l: Letter, i: usize, sp: &Sp) -> String {
    let g = l_group(l).unwrap_or(0);
    let mut s = String::new();
    for a in &sp.attrs {
        match a {
            Attr::Group => s.push_str(&format!("[[rssl::bind_group({})]] ", g)),
            Attr::Index => s.push_str(&format!("[[vk::binding({})]] ", lang_index(i))),
            Attr::IndexGroup => s.push_str(&format!("[[vk::binding({}, {})]] ", lang_index(i), g)),
        }
    }
    s
}

fn reg_text(l: Letter, i: usize, sp: &Sp) -> String {
    let g = l_group(l).unwrap_or(0);
    let c = reg_char(l_kind(l));
    match sp.reg {
        Reg::None => String::new(),
        Reg::Space => format!(" : register(space{})", g),
        Reg::Slot => format!(" : register({}{})", c, lang_index(i)),
        Reg::SlotSpace => format!(" : register({}{}, space{})", c, lang_index(i), g),
    }
}

/// `name[n] : register(..) = init` of declaration `i`
fn declarator_text(l: Letter, i: usize, sp: &Sp) -> String {
    let kind = l_kind(l);
    let arr = match l_array(l) {
        Some(n) => format!("[{}]", n),
        None => String::new(),
    };
    let init = if kind.form == Form::StaticSampler { " = StaticSampler { Filter = MIN_MAG_MIP_LINEAR; AddressU = Clamp; }" } else { "" };
    format!("{}{}{}{}", decl_name(i), arr, reg_text(l, i, sp), init)
}

/// the statement that starts at declaration `i` (with all declarators joined to it); returns the next position
fn statement_text(hist: &[Letter], sps: &[Sp], i: usize) -> (String, usize) {
    let l = hist[i];
    let kind = l_kind(l);
    let mut s = attrs_text(l, i, &sps[i]);
    if kind.form == Form::Cbuffer {
        let name = decl_name(i);
        s.push_str(&format!("cbuffer {}{} {}", name, reg_text(l, i, &sps[i]), cbuffer_body(&name, kind.members)));
        return (s, i + 1);
    }
    s.push_str(kind.ty);
    s.push(' ');
    s.push_str(&declarator_text(l, i, &sps[i]));
    let mut j = i + 1;
    while j < hist.len() && sps[j].joined {
        s.push_str(", ");
        s.push_str(&declarator_text(hist[j], j, &sps[j]));
        j += 1;
    }
    s.push(';');
    (s, j)
}

/// text shown for declaration `i` in violation details
fn decl_show(hist: &[Letter], spell: Option<&[Sp]>, i: usize) -> String {
    match spell {
        None => decl_text(hist[i], i),
        Some(sps) => {
            let h = sp_head(sps, i);
            let (text, _) = statement_text(hist, sps, h);
            if text.contains(',') && (h != i || (i + 1 < sps.len() && sps[i + 1].joined)) { format!("{} in `{}`", decl_name(i), text) } else { text }
        }
    }
}

/// default bind group mode: no-pipeline mode (default group 0 by definition) or a compute pipeline with
/// `DefaultBindGroup = n`
#[derive(Copy, Clone, PartialEq, Eq, Hash, Debug, PartialOrd, Ord)]
pub enum Dg {
    NoPipeline,
    Pipe(u32),
    /// a pipeline with the given stages; `dbg`: the `DefaultBindGroup` property (None: not written, the default group
    /// is then 0); `first`: the property is written before the stage properties instead of after them
    Shaped { stages: Stages, dbg: Option<u32>, first: bool },
}

/// stage combinations of a pipeline definition (every combination the type checker accepts out of the five stage
/// properties, as far as a mesh stage comes with the task stage and vertex / mesh are not mixed)
#[derive(Copy, Clone, PartialEq, Eq, Hash, Debug, PartialOrd, Ord)]
pub enum Stages {
    Compute,
    Vertex,
    Pixel,
    VertexPixel,
    Mesh,
    MeshPixel,
    TaskMesh,
    TaskMeshPixel,
}

pub const ALL_STAGES: [Stages; 8] = [Stages::Compute, Stages::Vertex, Stages::Pixel, Stages::VertexPixel, Stages::Mesh, Stages::MeshPixel, Stages::TaskMesh, Stages::TaskMeshPixel];

impl Stages {
    fn name(self) -> &'static str {
        match self {
            Stages::Compute => "CS",
            Stages::Vertex => "VS",
            Stages::Pixel => "PS",
            Stages::VertexPixel => "VS+PS",
            Stages::Mesh => "MS",
            Stages::MeshPixel => "MS+PS",
            Stages::TaskMesh => "TS+MS",
            Stages::TaskMeshPixel => "TS+MS+PS",
        }
    }
    /// (compute, vertex, task, mesh, pixel)
    fn has(self) -> (bool, bool, bool, bool, bool) {
        match self {
            Stages::Compute => (true, false, false, false, false),
            Stages::Vertex => (false, true, false, false, false),
            Stages::Pixel => (false, false, false, false, true),
            Stages::VertexPixel => (false, true, false, false, true),
            Stages::Mesh => (false, false, false, true, false),
            Stages::MeshPixel => (false, false, false, true, true),
            Stages::TaskMesh => (false, false, true, true, false),
            Stages::TaskMeshPixel => (false, false, true, true, true),
        }
    }
    /// entry points (and the types they need) behind the declarations, and the stage properties of the pipeline
    fn text(self) -> (String, String) {
        let (cs, vs, ts, ms, ps) = self.has();
        let (mut code, mut props) = (String::new(), String::new());
        if cs {
            code.push_str("[numthreads(1, 1, 1)]\nvoid CSMAIN() {}\n");
            props.push_str("ComputeShader = CSMAIN; ");
        }
        if vs {
            code.push_str("void VSMAIN(uint vid : SV_VertexID, out float4 o_pos : SV_Position) { o_pos = float4(0, 0, 0, 1); }\n");
            props.push_str("VertexShader = VSMAIN; ");
        }
        if ts {
            code.push_str("struct Payload { uint start_location; };\ngroupshared Payload lds_data;\n");
            code.push_str("[numthreads(4, 1, 1)]\nvoid TSMAIN(uint3 dtid : SV_DispatchThreadID) { lds_data.start_location = dtid.x; DispatchMesh(4u, 1u, 1u, lds_data); }\n");
            props.push_str("TaskShader = TSMAIN; ");
        }
        if ms {
            code.push_str("struct VertexAttributes { float4 position : SV_Position; };\n");
            code.push_str("[numthreads(4, 1, 1)]\n[outputtopology(\"triangle\")]\nvoid MSMAIN(uint3 dtid : SV_DispatchThreadID, ");
            if ts {
                code.push_str("in payload Payload data, ");
            }
            code.push_str("out vertices VertexAttributes o_vertices[4], out indices uint3 o_triangles[4]) { SetMeshOutputCounts(4, 4); VertexAttributes vertex; vertex.position = float4(0, 0, 0, 1); o_vertices[dtid.x] = vertex; o_triangles[dtid.x] = uint3(0, 1, 2); }\n");
            props.push_str("MeshShader = MSMAIN; ");
        }
        if ps {
            code.push_str("float4 PSMAIN(float4 pos : SV_Position) : SV_Target0 { return float4(0, 0, 0, 1); }\n");
            props.push_str("PixelShader = PSMAIN; ");
        }
        (code, props)
    }
}

/// every pipeline form of the pipeline-shape space: stages x DefaultBindGroup {not written, 0, 1, 2} x (written before /
/// after the stage properties), simplest first
pub fn all_shaped() -> Vec<Dg> {
    let mut v = Vec::new();
    for (dbg, first) in [(None, false), (Some(0), false), (Some(1), false), (Some(2), false), (Some(0), true), (Some(1), true), (Some(2), true)] {
        for stages in ALL_STAGES {
            v.push(Dg::Shaped { stages, dbg, first });
        }
    }
    v
}

pub const ALL_DGS: [Dg; 4] = [Dg::NoPipeline, Dg::Pipe(0), Dg::Pipe(1), Dg::Pipe(2)];

impl Dg {
    fn default_group(self) -> u32 {
        match self {
            Dg::NoPipeline => 0,
            Dg::Pipe(n) => n,
            Dg::Shaped { dbg, .. } => dbg.unwrap_or(0),
        }
    }
    fn name(self) -> String {
        match self {
            Dg::NoPipeline => "no-pipeline".to_string(),
            Dg::Pipe(n) => format!("DefaultBindGroup={}", n),
            Dg::Shaped { stages, dbg, first } => format!(
                "pipeline({}) DefaultBindGroup={}{}",
                stages.name(),
                match dbg {
                    Some(n) => n.to_string(),
                    None => "not-written".to_string(),
                },
                if first { " written-first" } else { "" }
            ),
        }
    }
    fn from_name(s: &str) -> Option<Dg> {
        ALL_DGS.iter().copied().chain(all_shaped()).find(|d| d.name() == s)
    }
    /// signature part: which kind of pipeline supplied the default group
    fn class(self) -> &'static str {
        match self {
            Dg::NoPipeline => "no-pipeline",
            Dg::Pipe(_) => "compute-pipeline",
            Dg::Shaped { stages: Stages::Compute, .. } => "compute-pipeline",
            Dg::Shaped { .. } => "graphics-pipeline",
        }
    }
}

pub fn render(hist: &[Letter], dg: Dg) -> String {
    render_sp(hist, None, dg)
}

/// `spell` = None: the default spelling of `decl_text`; otherwise one `Sp` per letter (must satisfy `spelling_ok`)
pub fn render_sp(hist: &[Letter], spell: Option<&[Sp]>, dg: Dg) -> String {
    let mut s = String::from("struct S { float4 v; };\n");
    match spell {
        None => {
            for (i, l) in hist.iter().enumerate() {
                s.push_str(&decl_text(*l, i));
                s.push('\n');
            }
        }
        Some(sps) => {
            let mut i = 0;
            while i < hist.len() {
                let (text, next) = statement_text(hist, sps, i);
                s.push_str(&text);
                s.push('\n');
                i = next;
            }
        }
    }
    if let Dg::Shaped { stages, dbg, first } = dg {
        let (code, props) = stages.text();
        s.push_str(&code);
        let prop = match dbg {
            Some(n) => format!("DefaultBindGroup = {}; ", n),
            None => String::new(),
        };
        if first {
            s.push_str(&format!("Pipeline P {{ {}{}}}\n", prop, props));
        } else {
            s.push_str(&format!("Pipeline P {{ {}{}}}\n", props, prop));
        }
        return s;
    }
    s.push_str("[numthreads(1, 1, 1)]\nvoid CSMAIN() {}\n");
    if let Dg::Pipe(n) = dg {
        s.push_str(&format!("Pipeline P {{ ComputeShader = CSMAIN; DefaultBindGroup = {}; }}\n", n));
    }
    s
}

// -------------------------------------------------------------------------------------------
// configurations: our transcription of src/compile.rs:88-104; the end-to-end cross-check verifies that
// `rssl::compile` produces the same hook trace with its own parameters

#[derive(Copy, Clone, Debug)]
struct Par {
    support_buffer_address: bool,
    metal_slot_layout: bool,
    static_samplers_have_slots: bool,
}

fn par_of(cfg: Cfg) -> Par {
    match cfg {
        Cfg::Dx | Cfg::Vk => Par { support_buffer_address: false, metal_slot_layout: false, static_samplers_have_slots: true },
        Cfg::VkBa => Par { support_buffer_address: true, metal_slot_layout: false, static_samplers_have_slots: true },
        Cfg::Msl => Par { support_buffer_address: false, metal_slot_layout: true, static_samplers_have_slots: false },
    }
}

fn real_params(cfg: Cfg) -> rssl::AssignBindingsParams {
    match cfg {
        Cfg::Dx => rssl::AssignBindingsParams::default(),
        Cfg::Vk => rssl::AssignBindingsParams { require_slot_type: false, support_buffer_address: false, metal_slot_layout: false, static_samplers_have_slots: true },
        Cfg::VkBa => rssl::AssignBindingsParams { require_slot_type: false, support_buffer_address: true, metal_slot_layout: false, static_samplers_have_slots: true },
        Cfg::Msl => rssl::AssignBindingsParams { require_slot_type: false, support_buffer_address: false, metal_slot_layout: true, static_samplers_have_slots: false },
    }
}

// -------------------------------------------------------------------------------------------
// reference model: per-group bump counters + per-group inline byte counters

#[derive(Clone, PartialEq, Eq, Hash, Debug, Default)]
pub struct Model {
    slots: BTreeMap<u32, u32>,
    inline: BTreeMap<u32, u32>,
}

#[derive(Copy, Clone, PartialEq, Eq, Debug)]
pub enum Place {
    Nothing,
    Slots { start: u32, len: u32 },
    Inline { offset: u32 },
}

#[derive(Copy, Clone, Debug)]
pub struct Expect {
    group: u32,
    place: Place,
}

impl Model {
    fn step(&mut self, l: Letter, par: Par, default_group: u32) -> Expect {
        let kind = l_kind(l);
        let group = l_group(l).unwrap_or(default_group);
        let takes_nothing = match kind.class {
            Class::NonResource => true,
            Class::StaticSampler => !par.static_samplers_have_slots,
            _ => false,
        };
        if takes_nothing {
            return Expect { group, place: Place::Nothing };
        }
        if kind.class == Class::BufferAddress && par.support_buffer_address && l_array(l).is_none() {
            let e = self.inline.entry(group).or_insert(0);
            let offset = *e;
            *e += 8;
            return Expect { group, place: Place::Inline { offset } };
        }
        let per_element = match kind.class {
            Class::RawBuffer | Class::StructuredBuffer | Class::BufferAddress if par.metal_slot_layout => 2,
            _ => 1,
        };
        let len = l_count(l) * per_element;
        let e = self.slots.entry(group).or_insert(0);
        let start = *e;
        *e += len;
        Expect { group, place: Place::Slots { start, len } }
    }
    fn snapshot(&self) -> Snapshot {
        (self.slots.iter().map(|(a, b)| (*a, *b)).collect(), self.inline.iter().map(|(a, b)| (*a, *b)).collect())
    }
}

// -------------------------------------------------------------------------------------------
// running the real code

/// (sorted (group, next free slot), sorted (group, inline bytes)) — hook H4
pub type Snapshot = (Vec<(u32, u32)>, Vec<(u32, u32)>);

fn snap_get(v: &[(u32, u32)], g: u32) -> Option<u32> {
    v.iter().find(|(k, _)| *k == g).map(|(_, c)| *c)
}

#[derive(Copy, Clone, PartialEq, Eq, Debug)]
pub enum Loc {
    Index(u32),
    Inline(u32),
}

pub struct DeclObs {
    name: String,
    /// (set, location) written by the allocator
    api: Option<(u32, Loc)>,
    /// index into root_definitions (= index of the hook snapshot taken after it)
    root_index: usize,
}

pub struct Direct {
    trace: Vec<Snapshot>,
    decls: Vec<DeclObs>,
    n_roots: usize,
    /// (set, api_location, size_in_bytes), sorted
    inline_buffers: Vec<(u32, u32, u32)>,
}

fn loc_of(b: &ir::ApiBinding) -> (u32, Loc) {
    (
        b.set,
        match b.location {
            ir::ApiLocation::Index(i) => Loc::Index(i),
            ir::ApiLocation::InlineConstant(o) => Loc::Inline(o),
        },
    )
}

/// preprocess → parse → type_check → (select_pipeline) → assign_api_bindings with the hook trace on
pub fn run_direct(text: &str, cfg: Cfg, dg: Dg) -> Result<Result<Direct, String>, PanicInfo> {
    guard(|| {
        let module = typecheck_src(text)?;
        let module = match dg {
            Dg::NoPipeline => module,
            _ => module.select_pipeline("P").ok_or_else(|| "pipeline P not found".to_string())?,
        };
        let params = real_params(cfg);
        rssl::ir::verif_alloc::start_trace();
        let module = module.assign_api_bindings(&params);
        let trace = rssl::ir::verif_alloc::take_trace();
        let mut decls = Vec::new();
        for (i, rd) in module.root_definitions.iter().enumerate() {
            match rd {
                ir::RootDefinition::GlobalVariable(id) => {
                    let g = &module.global_registry[id.0 as usize];
                    if !g.name.node.starts_with("g_r") {
                        continue; // a global of the entry point text (groupshared payload of the task stage): a root definition that must change nothing
                    }
                    decls.push(DeclObs { name: g.name.node.clone(), api: g.api_slot.as_ref().map(loc_of), root_index: i });
                }
                ir::RootDefinition::ConstantBuffer(id) => {
                    let c = &module.cbuffer_registry[id.0 as usize];
                    decls.push(DeclObs { name: c.name.node.clone(), api: c.api_binding.as_ref().map(loc_of), root_index: i });
                }
                _ => {}
            }
        }
        let mut inline_buffers: Vec<(u32, u32, u32)> = module.inline_constant_buffers.iter().map(|b| (b.set, b.api_location, b.size_in_bytes)).collect();
        inline_buffers.sort();
        Ok(Direct { trace, decls, n_roots: module.root_definitions.len(), inline_buffers })
    })
}

// -------------------------------------------------------------------------------------------
// oracle

#[derive(Clone, PartialEq, Eq, Hash, Debug)]
pub struct Key {
    hook: Snapshot,
    model: Model,
}

pub enum Checked {
    /// keys of the states after every letter of the history
    Live(Vec<Key>),
    Violated,
    /// the type checker rejected the source and the caller said that this is acceptable (`Opt::reject_ok`)
    Rejected,
}

/// options of `check_history`
#[derive(Copy, Clone, Default)]
pub struct Opt<'a> {
    /// the keys stored when the prefix was explored (prefix determinism)
    prefix: Option<&'a [Key]>,
    /// also cross-check through `rssl::compile`
    e2e: bool,
    /// how the letters are written (None: default spelling)
    spell: Option<&'a [Sp]>,
    /// a rejection by the type checker is counted, not reported (spellings of non-object declarations)
    reject_ok: bool,
}

fn viol(sig: String, detail: String, hist: &[Letter], cfg: Cfg, dg: Dg, opt: &Opt) -> Violation {
    let mut replay = String::from("kind: history\n");
    replay.push_str(&format!("config: {}\n", cfg.name()));
    replay.push_str(&format!("default_group: {}\n", dg.name()));
    replay.push_str(&format!("e2e: {}\n", if opt.e2e { "yes" } else { "no" }));
    for (i, l) in hist.iter().enumerate() {
        replay.push_str(&format!("letter: {}\n", letter_name(*l)));
        if let Some(sps) = opt.spell {
            replay.push_str(&format!("spell: {}\n", sp_name(&sps[i])));
        }
    }
    replay.push_str("source:\n");
    replay.push_str(&render_sp(hist, opt.spell, dg));
    Violation { signature: sig, detail, replay }
}

struct Cx<'a> {
    hist: &'a [Letter],
    cfg: Cfg,
    dg: Dg,
    opt: Opt<'a>,
}

impl<'a> Cx<'a> {
    fn v(&self, acc: &mut Acc, sig: String, detail: String) {
        let spelled = if self.opt.spell.is_some() { " (spelled, see source)" } else { "" };
        let detail = format!("[{} / {}] history [{}]{}: {}", self.cfg.name(), self.dg.name(), hist_str(self.hist), spelled, detail);
        acc.violation(viol(sig, detail, self.hist, self.cfg, self.dg, &self.opt));
    }
}

/// Check one history with the real allocator against invariants (1)–(7).
pub fn check_history(hist: &[Letter], cfg: Cfg, dg: Dg, acc: &mut Acc, opt: Opt) -> Checked {
    acc.evals += 1;
    let cx = Cx { hist, cfg, dg, opt };
    let (prefix, e2e) = (opt.prefix, opt.e2e);
    let par = par_of(cfg);
    let default_group = dg.default_group();
    let text = render_sp(hist, opt.spell, dg);
    let d = match run_direct(&text, cfg, dg) {
        Err(p) => {
            cx.v(acc, p.signature(), format!("type_check / assign_api_bindings panicked: {}", p.message));
            return Checked::Violated;
        }
        Ok(Err(e)) => {
            if opt.reject_ok {
                let k = hist.iter().map(|l| l_kind(*l)).find(|k| matches!(k.form, Form::StaticSampler | Form::Numeric)).map(|k| k.name).unwrap_or("?");
                acc.count(&format!("spelling_rejected|{}|{}", k, err_class(&e)));
                return Checked::Rejected;
            }
            if opt.spell.is_some() {
                // the property says how accepted declarations are allocated, not which annotation spellings must be
                // accepted: a rejected spelling is outside its domain; counted so that vacuity stays visible
                acc.count(&format!("spelled_history_rejected(not compared)|{}", err_class(&e)));
                return Checked::Rejected;
            }
            cx.v(acc, "machinery|history-rejected".into(), format!("a history of individually accepted declarations was rejected: {}", one_line(&e, 200)));
            return Checked::Violated;
        }
        Ok(Ok(d)) => d,
    };
    // shape of the trace: one snapshot per root definition; root definitions = struct S, the declarations, CSMAIN
    // (the stage texts of the pipeline-shape space bring 1..6 root definitions instead of the one CSMAIN)
    let roots_ok = match dg {
        Dg::Shaped { .. } => d.n_roots >= hist.len() + 2 && d.n_roots <= hist.len() + 7,
        _ => d.n_roots == hist.len() + 2,
    };
    if d.trace.len() != d.n_roots || d.decls.len() != hist.len() || !roots_ok {
        cx.v(acc, "machinery|trace-shape".into(), format!("{} snapshots, {} root definitions, {} declarations found for {} letters", d.trace.len(), d.n_roots, d.decls.len(), hist.len()));
        return Checked::Violated;
    }
    let empty: Snapshot = (Vec::new(), Vec::new());
    let before = |root_index: usize| -> &Snapshot { if root_index == 0 { &empty } else { &d.trace[root_index - 1] } };
    // (5) for the non-declarations: struct S in front and the entry point at the end change nothing
    for ri in 0..d.n_roots {
        if d.decls.iter().any(|o| o.root_index == ri) {
            continue;
        }
        if &d.trace[ri] != before(ri) {
            cx.v(acc, "alloc|non-resource-changed-state|struct-or-function".into(), format!("root definition {} (not a global) changed the allocator state from {:?} to {:?}", ri, before(ri), d.trace[ri]));
            return Checked::Violated;
        }
    }

    let mut model = Model::default();
    let mut keys: Vec<Key> = Vec::with_capacity(hist.len());
    let mut expects: Vec<Expect> = Vec::with_capacity(hist.len());
    for (i, l) in hist.iter().enumerate() {
        let kind = l_kind(*l);
        let class = kind.class.name();
        let obs = &d.decls[i];
        let prev = before(obs.root_index);
        let cur = &d.trace[obs.root_index];
        let exp = model.step(*l, par, default_group);
        expects.push(exp);
        let what = format!("declaration {} `{}`", i, decl_show(hist, opt.spell, i));
        if obs.name != decl_name(i) {
            cx.v(acc, "machinery|trace-shape".into(), format!("{} found as {:?}", what, obs.name));
            return Checked::Violated;
        }
        match exp.place {
            Place::Nothing => {
                // (5)
                if obs.api.is_some() || cur != prev {
                    cx.v(acc, format!("alloc|non-resource-changed-state|{}", class), format!("{} must take nothing, got api binding {:?}, allocator state {:?} -> {:?}", what, obs.api, prev, cur));
                    return Checked::Violated;
                }
            }
            Place::Slots { len, .. } => {
                let (set, start) = match obs.api {
                    Some((set, Loc::Index(s))) => (set, s),
                    Some((_, Loc::Inline(_))) => {
                        cx.v(acc, "alloc|inline-constants|unexpected-inline-placement".into(), format!("{} was placed in the inline constant block: {:?}", what, obs.api));
                        return Checked::Violated;
                    }
                    None => {
                        cx.v(acc, format!("alloc|no-slot|{}", class), format!("{} is a bound resource but received no slot range", what));
                        return Checked::Violated;
                    }
                };
                // (4)
                if set != exp.group {
                    let sig = if l_group(*l).is_none() { default_group_sig(dg) } else { "alloc|explicit-group" };
                    cx.v(acc, sig.into(), format!("{} landed in group {}, expected group {} (default group of the pipeline is {})", what, set, exp.group, default_group));
                    return Checked::Violated;
                }
                // (1) start = the group's previous counter (the real one, from the hook)
                let prev_counter = snap_get(&prev.0, set).unwrap_or(0);
                if start != prev_counter {
                    cx.v(acc, format!("alloc|range-start|{}", class), format!("{} starts at slot {}, the previous counter of group {} is {}", what, start, set, prev_counter));
                    return Checked::Violated;
                }
                // (1) length
                let new_counter = snap_get(&cur.0, set).unwrap_or(0);
                if new_counter < start || new_counter - start != len {
                    cx.v(
                        acc,
                        format!("alloc|range-length|{}|{}", class, cfg.name()),
                        format!("{} starts at slot {} and the counter of group {} moved {} -> {}: range length {} instead of {}", what, start, set, prev_counter, new_counter, new_counter as i64 - start as i64, len),
                    );
                    return Checked::Violated;
                }
                // nothing else moved
                let others_same = prev.0.iter().filter(|(g, _)| *g != set).eq(cur.0.iter().filter(|(g, _)| *g != set)) && prev.1 == cur.1;
                if !others_same {
                    cx.v(acc, format!("alloc|foreign-group-changed|{}", class), format!("{} in group {} also changed other counters: {:?} -> {:?}", what, set, prev, cur));
                    return Checked::Violated;
                }
            }
            Place::Inline { .. } => {
                // (6) per step
                let (set, off) = match obs.api {
                    Some((set, Loc::Inline(o))) => (set, o),
                    other => {
                        cx.v(acc, "alloc|inline-constants|not-placed-inline".into(), format!("{} must take 8 bytes of the inline constant block with buffer addresses enabled, got {:?}", what, other));
                        return Checked::Violated;
                    }
                };
                if set != exp.group {
                    let sig = if l_group(*l).is_none() { default_group_sig(dg) } else { "alloc|explicit-group" };
                    cx.v(acc, sig.into(), format!("{} landed in group {}, expected group {} (default group of the pipeline is {})", what, set, exp.group, default_group));
                    return Checked::Violated;
                }
                let prev_size = snap_get(&prev.1, set).unwrap_or(0);
                if off != prev_size {
                    cx.v(acc, "alloc|inline-constants|offset".into(), format!("{} got offset {}, the previous inline size of group {} is {}", what, off, set, prev_size));
                    return Checked::Violated;
                }
                let new_size = snap_get(&cur.1, set).unwrap_or(0);
                if new_size != off + 8 {
                    cx.v(acc, "alloc|inline-constants|size-step".into(), format!("{} at offset {}: inline size of group {} moved {} -> {}, expected +8", what, off, set, prev_size, new_size));
                    return Checked::Violated;
                }
                let others_same = prev.1.iter().filter(|(g, _)| *g != set).eq(cur.1.iter().filter(|(g, _)| *g != set)) && prev.0 == cur.0;
                if !others_same {
                    cx.v(acc, "alloc|inline-constants|took-a-slot".into(), format!("{} must only grow the inline block of group {}: {:?} -> {:?}", what, set, prev, cur));
                    return Checked::Violated;
                }
            }
        }
        // (7) agreement with the model
        if *cur != model.snapshot() {
            cx.v(acc, "alloc|model-disagrees".into(), format!("after {}: allocator state {:?}, model {:?}", what, cur, model.snapshot()));
            return Checked::Violated;
        }
        let key = Key { hook: cur.clone(), model: model.clone() };
        if let Some(ps) = prefix {
            if i < ps.len() && ps[i] != key {
                cx.v(acc, "machinery|prefix-divergence".into(), format!("state after {} differs from the state recorded when the prefix was explored", what));
                return Checked::Violated;
            }
        }
        keys.push(key);
    }

    let mut ok = true;
    let last = d.trace.last().cloned().unwrap_or_default();

    // (2) (3) whole-history formulation, from the slots written into the declarations and the lengths the
    // property prescribes: per group, in declaration order, ranges ascend, are pairwise disjoint and tile [0, counter)
    {
        let mut per_group: BTreeMap<u32, Vec<(u32, u32, usize)>> = BTreeMap::new();
        for (i, o) in d.decls.iter().enumerate() {
            if let (Some((set, Loc::Index(s))), Place::Slots { len, .. }) = (o.api, expects[i].place) {
                per_group.entry(set).or_default().push((s, len, i));
            }
        }
        for (g, c) in &last.0 {
            per_group.entry(*g).or_default();
            let _ = c;
        }
        'groups: for (g, ranges) in &per_group {
            for w in ranges.windows(2) {
                if w[1].0 < w[0].0 {
                    cx.v(acc, "alloc|order".into(), format!("group {}: declaration {} got slot {} after declaration {} got slot {}", g, w[1].2, w[1].0, w[0].2, w[0].0));
                    ok = false;
                    continue 'groups;
                }
            }
            for a in 0..ranges.len() {
                for b in a + 1..ranges.len() {
                    let (s1, l1, i1) = ranges[a];
                    let (s2, l2, i2) = ranges[b];
                    if s1 < s2 + l2 && s2 < s1 + l1 {
                        cx.v(acc, "alloc|overlap".into(), format!("group {}: declaration {} has [{}, {}) and declaration {} has [{}, {})", g, i1, s1, s1 + l1, i2, s2, s2 + l2));
                        ok = false;
                        continue 'groups;
                    }
                }
            }
            let counter = snap_get(&last.0, *g).unwrap_or(0);
            let mut sorted: Vec<(u32, u32)> = ranges.iter().map(|r| (r.0, r.1)).collect();
            sorted.sort();
            let mut next = 0;
            for (s, l) in &sorted {
                if *s != next {
                    break;
                }
                next = s + l;
            }
            let total: u32 = sorted.iter().map(|r| r.1).sum();
            if next != counter || total != counter {
                cx.v(acc, "alloc|gap".into(), format!("group {}: ranges {:?} do not tile [0, {})", g, sorted, counter));
                ok = false;
            }
        }
    }

    // (6) whole history: one inline constant block per group with addresses, size = 8·count, slot = final counter
    {
        let mut offsets: BTreeMap<u32, Vec<u32>> = BTreeMap::new();
        for o in &d.decls {
            if let Some((set, Loc::Inline(off))) = o.api {
                offsets.entry(set).or_default().push(off);
            }
        }
        let mut expected_blocks: Vec<(u32, u32, u32)> = Vec::new();
        for (g, offs) in &offsets {
            let mut s = offs.clone();
            s.sort();
            s.dedup();
            if s.len() != offs.len() {
                cx.v(acc, "alloc|inline-constants|offsets-not-distinct".into(), format!("group {}: offsets {:?}", g, offs));
                ok = false;
            }
            expected_blocks.push((*g, snap_get(&last.0, *g).unwrap_or(0), 8 * offs.len() as u32));
        }
        if ok && expected_blocks != d.inline_buffers {
            let what = if expected_blocks.len() != d.inline_buffers.len() || expected_blocks.iter().zip(&d.inline_buffers).any(|(a, b)| a.0 != b.0) {
                "blocks"
            } else if expected_blocks.iter().zip(&d.inline_buffers).any(|(a, b)| a.2 != b.2) {
                "size"
            } else {
                "api-location"
            };
            cx.v(
                acc,
                format!("alloc|inline-constants|{}", what),
                format!("inline constant blocks (group, slot, bytes) are {:?}; expected {:?} (slot = final counter of the group, bytes = 8 × addresses)", d.inline_buffers, expected_blocks),
            );
            ok = false;
        }
        if !par.support_buffer_address && (!d.inline_buffers.is_empty() || !last.1.is_empty()) {
            cx.v(acc, "alloc|inline-constants|present-without-buffer-addresses".into(), format!("inline blocks {:?} / inline sizes {:?} although buffer addresses are disabled", d.inline_buffers, last.1));
            ok = false;
        }
    }

    if !ok {
        return Checked::Violated;
    }
    if e2e && !e2e_check(&cx, &text, &d, acc) {
        return Checked::Violated;
    }
    Checked::Live(keys)
}

/// `alloc|default-group` for the modes that existed first (no-pipeline, compute pipeline), a class of its own for
/// graphics pipelines
fn default_group_sig(dg: Dg) -> &'static str {
    if dg.class() == "graphics-pipeline" { "alloc|default-group|graphics-pipeline" } else { "alloc|default-group" }
}

fn err_class(e: &str) -> String {
    // the message without the location prefix and without digits/names of our declarations
    let line = e.lines().next().unwrap_or("");
    let msg = match line.find("error: ") {
        Some(p) => &line[p..],
        None => line,
    };
    let mut out = String::new();
    let mut last_hash = false;
    for c in msg.chars().take(80) {
        if c.is_ascii_digit() {
            if !last_hash {
                out.push('#');
            }
            last_hash = true;
        } else {
            out.push(c);
            last_hash = false;
        }
    }
    out
}

/// End-to-end: the same history through `rssl::compile` for the real target. Returns false on violation.
fn e2e_check(cx: &Cx, text: &str, d: &Direct, acc: &mut Acc) -> bool {
    let cfg = cx.cfg;
    let mode = match cx.dg {
        Dg::NoPipeline => Mode::NoPipeline,
        _ => Mode::Named("P".into()),
    };
    let files = [("main.rssl", text)];
    let job = Job { files: &files, entry: "main.rssl", defines: &[], cfg, mode, validate_layout: false };
    rssl::ir::verif_alloc::start_trace();
    let r = guard(|| job.run());
    let trace = rssl::ir::verif_alloc::take_trace();
    let pipelines = match r {
        Err(p) => {
            // a crash of an exporter is C08's business; the allocation could not be cross-checked
            acc.count(&format!("e2e_not_crosschecked|{}|{}", cfg.name(), p.signature()));
            acc.count("e2e_not_crosschecked_total");
            return true;
        }
        Ok(Err(e)) => {
            acc.count(&format!("e2e_not_crosschecked|{}|{}", cfg.name(), err_class(&e)));
            acc.count("e2e_not_crosschecked_total");
            return true;
        }
        Ok(Ok(p)) => p,
    };
    let fld = |f: &str| format!("alloc|metadata-disagrees|{}|{}", f, cfg.name());
    if pipelines.len() != 1 {
        cx.v(acc, fld("pipeline-count"), format!("compile returned {} pipelines", pipelines.len()));
        return false;
    }
    if trace != d.trace {
        cx.v(acc, fld("hook-trace"), format!("allocator trace inside compile() {:?} differs from the trace of the direct call with our copy of the target's parameters {:?}", trace, d.trace));
        return false;
    }
    let md = &pipelines[0].metadata;
    // expected listing per group from the allocator's own output
    let mut expected: BTreeMap<u32, Vec<(String, Loc, u32)>> = BTreeMap::new();
    for (i, o) in d.decls.iter().enumerate() {
        if let Some((set, loc)) = o.api {
            expected.entry(set).or_default().push((o.name.clone(), loc, l_count(cx.hist[i])));
        }
    }
    let ngroups = md.bind_groups.len() as u32;
    for (g, list) in &expected {
        if *g >= ngroups {
            cx.v(acc, fld("group-missing"), format!("metadata has {} bind groups, group {} with {:?} is missing", ngroups, g, list));
            return false;
        }
    }
    for (g, bg) in md.bind_groups.iter().enumerate() {
        let g = g as u32;
        let none = Vec::new();
        let list = expected.get(&g).unwrap_or(&none);
        if bg.bindings.len() != list.len() {
            cx.v(
                acc,
                fld("binding-count"),
                format!("group {} lists {} bindings {:?}, the allocator bound {} declarations {:?}", g, bg.bindings.len(), bg.bindings.iter().map(|b| b.name.as_str()).collect::<Vec<_>>(), list.len(), list),
            );
            return false;
        }
        for (name, loc, count) in list {
            let b = match bg.bindings.iter().find(|b| b.name == *name) {
                Some(b) => b,
                None => {
                    cx.v(acc, fld("binding-missing"), format!("group {} does not list {}", g, name));
                    return false;
                }
            };
            let got = match b.api_binding {
                rssl::ApiLocation::Index(i) => Loc::Index(i),
                rssl::ApiLocation::InlineConstant(o) => Loc::Inline(o),
            };
            if got != *loc {
                cx.v(acc, fld("api_binding"), format!("group {} binding {}: metadata says {:?}, the allocator assigned {:?}", g, name, got, loc));
                return false;
            }
            if b.descriptor_count != Some(*count) {
                cx.v(acc, fld("descriptor_count"), format!("group {} binding {}: descriptor_count {:?}, declared element count {}", g, name, b.descriptor_count, count));
                return false;
            }
        }
        let exp_inline = d.inline_buffers.iter().find(|b| b.0 == g).map(|b| (b.1, b.2));
        let got_inline = bg.inline_constants.as_ref().map(|b| (b.api_location, b.size_in_bytes));
        if exp_inline != got_inline {
            cx.v(acc, fld("inline_constants"), format!("group {}: metadata inline constants (slot, bytes) {:?}, allocator {:?}", g, got_inline, exp_inline));
            return false;
        }
    }
    acc.count("e2e_crosschecked");
    acc.add("e2e_bindings_compared", expected.values().map(|v| v.len() as u64).sum());
    true
}

// -------------------------------------------------------------------------------------------
// driver

/// one BFS per (target configuration, default bind group mode); all runs advance level by level in lockstep so
/// that every level is one parallel enumeration over all runs
struct Run {
    cfg: Cfg,
    dg: Dg,
    tag: String,
    full: Vec<Letter>,
    classes: Vec<Letter>,
    seen: HashMap<Key, u32>,
    frontier: Vec<(Vec<Letter>, Vec<Key>)>,
    transitions: u64,
    merged: u64,
    max_depth: usize,
    complete: bool,
    states_per_depth: Vec<u64>,
    /// this run stops after this depth (quick tier: the reduced DefaultBindGroup = 0 / 2 runs)
    depth_cap: usize,
}

/// locate global index `idx` in the concatenation of per-run work lists
fn locate(offsets: &[u64], idx: u64) -> (usize, u64) {
    let r = offsets.partition_point(|o| *o <= idx) - 1;
    (r, idx - offsets[r])
}

fn bfs_all(ctx: &Ctx, rep: &mut Report, runs: &mut Vec<Run>, full_upto: usize, max_depth: usize, e2e_all_depth: usize, index_start: u64) {
    // violations are ordered by a case index that grows with the depth, so the reported example is the shortest
    let mut index_base = index_start;
    for depth in 1..=max_depth {
        for r in runs.iter_mut() {
            if depth > r.depth_cap {
                r.frontier.clear();
            }
        }
        if runs.iter().all(|r| r.frontier.is_empty()) {
            break;
        }
        if ctx.out_of_time() {
            for r in runs.iter_mut() {
                r.complete = false;
            }
            rep.caps_hit.push(format!("BFS stopped before depth {} (time budget)", depth));
            break;
        }
        // transitions into depth <= full_upto use the full alphabet, deeper ones the class alphabet
        let use_full = depth <= full_upto;
        let e2e_inline = depth <= e2e_all_depth;
        let mut offsets: Vec<u64> = Vec::with_capacity(runs.len() + 1);
        let mut total = 0u64;
        for r in runs.iter() {
            offsets.push(total);
            let nl = if use_full { r.full.len() } else { r.classes.len() } as u64;
            total += r.frontier.len() as u64 * nl;
        }
        let results: Vec<std::sync::Mutex<Vec<(Vec<Letter>, Vec<Key>)>>> = runs.iter().map(|_| std::sync::Mutex::new(Vec::new())).collect();
        let rr: &Vec<Run> = runs;
        let pr = run_par(ctx, total, 64, |idx, acc| {
            acc.cur_index = index_base + idx;
            let (ri, local) = locate(&offsets, idx);
            let r = &rr[ri];
            let alphabet: &[Letter] = if use_full { &r.full } else { &r.classes };
            let nl = alphabet.len() as u64;
            let (h, ks) = &r.frontier[(local / nl) as usize];
            let a = alphabet[(local % nl) as usize];
            let mut h2 = h.clone();
            h2.push(a);
            acc.count(&r.tag);
            if let Checked::Live(keys) = check_history(&h2, r.cfg, r.dg, acc, Opt { prefix: Some(ks), e2e: e2e_inline, ..Opt::default() }) {
                results[ri].lock().unwrap().push((h2, keys));
            }
        });
        let level_complete = pr.completed;
        index_base += total;
        for r in runs.iter_mut() {
            r.transitions += pr.acc.counters.get(&r.tag).copied().unwrap_or(0);
            if !level_complete {
                r.complete = false;
            }
        }
        rep.absorb(&format!("bfs_depth_{}", depth), pr);
        for r in runs.iter() {
            rep.acc.counters.remove(&r.tag);
        }
        for (r, res) in runs.iter_mut().zip(results) {
            let mut res = res.into_inner().unwrap();
            res.sort_by(|a, b| a.0.cmp(&b.0)); // deterministic representative: first history in letter order
            let mut next = Vec::new();
            for (h, ks) in res {
                let key = ks.last().unwrap().clone();
                match r.seen.get_mut(&key) {
                    Some(n) => {
                        *n += 1;
                        r.merged += 1;
                    }
                    None => {
                        r.seen.insert(key, 1);
                        next.push((h, ks));
                    }
                }
            }
            r.states_per_depth.push(next.len() as u64);
            if !next.is_empty() {
                r.max_depth = depth;
            }
            r.frontier = next;
        }
        if !level_complete {
            break; // an incomplete level must not be extended (the set of explored cases would depend on timing)
        }
        // end-to-end cross-check at every new state (already done inline on the shallow levels)
        if !e2e_inline {
            let mut offsets: Vec<u64> = Vec::with_capacity(runs.len() + 1);
            let mut total = 0u64;
            for r in runs.iter() {
                offsets.push(total);
                total += r.frontier.len() as u64;
            }
            let rr: &Vec<Run> = runs;
            let pr = run_par(ctx, total, 16, |idx, acc| {
                let (ri, local) = locate(&offsets, idx);
                let r = &rr[ri];
                let (h, ks) = &r.frontier[local as usize];
                let mut scratch = Acc::default();
                scratch.cur_index = index_base + idx;
                // re-run with the end-to-end part on; the direct part was validated in the transition pass
                let _ = check_history(h, r.cfg, r.dg, &mut scratch, Opt { prefix: Some(ks), e2e: true, ..Opt::default() });
                scratch.evals = 0;
                acc.merge(scratch);
            });
            if !pr.completed {
                for r in runs.iter_mut() {
                    r.complete = false;
                }
            }
            rep.absorb(&format!("e2e_new_states_depth_{}", depth), pr);
            index_base += total;
        }
    }
}

// -------------------------------------------------------------------------------------------
// spelled spaces (flat enumerations; same oracle as the BFS)

struct SpCase {
    hist: Vec<Letter>,
    sps: Vec<Sp>,
    reject_ok: bool,
}

fn kind_ix(name: &str) -> u16 {
    KINDS.iter().position(|k| k.name == name).expect("kind") as u16
}

fn mk_letter(kind: u16, arr: u16, grp: u16) -> Letter {
    kind * 16 + arr * 4 + grp
}

/// all attribute sequences of length 0..=max_len, shortest first
fn attr_seqs(max_len: usize) -> Vec<Vec<Attr>> {
    let mut out: Vec<Vec<Attr>> = vec![vec![]];
    let mut level: Vec<Vec<Attr>> = vec![vec![]];
    for _ in 0..max_len {
        let mut next = Vec::new();
        for s in &level {
            for a in ATTRS {
                let mut t = s.clone();
                t.push(a);
                next.push(t);
            }
        }
        out.extend(next.iter().cloned());
        level = next;
    }
    out
}

/// put a plain default-group Texture2D in front of and behind the case (its ranges must shift / stay accordingly)
fn between_textures(hist: Vec<Letter>, sps: Vec<Sp>) -> (Vec<Letter>, Vec<Sp>) {
    let tex = mk_letter(kind_ix("Texture2D"), 0, 0);
    let mut h = vec![tex];
    h.extend(hist);
    h.push(tex);
    let mut p = vec![Sp::default()];
    p.extend(sps);
    p.push(Sp::default());
    (h, p)
}

/// one declaration in its own statement: kinds x array lengths x explicit group x every attribute sequence of
/// `seqs` x every register annotation form, as far as the spelling says what the letter says (`spelling_ok`)
fn single_cases(kinds: &[u16], arrs: &[u16], seqs: &[Vec<Attr>], between: bool, out: &mut Vec<SpCase>) {
    for seq in seqs {
        for reg in REGS {
            for grp in 0..4u16 {
                for arr in arrs {
                    for kind in kinds {
                        let form = KINDS[*kind as usize].form;
                        if form == Form::Cbuffer && *arr != 0 {
                            continue;
                        }
                        let hist = vec![mk_letter(*kind, *arr, grp)];
                        let sps = vec![Sp { attrs: seq.clone(), reg, joined: false }];
                        if spelling_ok(&hist, &sps).is_err() {
                            continue;
                        }
                        // register annotations are refused on non-object types and binding indices on static samplers
                        let reject_ok = matches!(form, Form::StaticSampler | Form::Numeric);
                        let (hist, sps) = if between { between_textures(hist, sps) } else { (hist, sps) };
                        out.push(SpCase { hist, sps, reject_ok });
                    }
                }
            }
        }
    }
}

/// one statement with `n` declarators of one object kind: statement attributes `attr_opts` x per declarator
/// (array length of `arrs`) x (explicit group none,0,1,2) x (register annotation of `regs`), as far as `spelling_ok`
fn statement_cases(kinds: &[u16], n: usize, arrs: &[u16], regs: &[Reg], attr_opts: &[Vec<Attr>], between: bool, out: &mut Vec<SpCase>) {
    // per-declarator choices, simplest first
    let mut choices: Vec<(u16, u16, Reg)> = Vec::new();
    for reg in regs {
        for grp in 0..4u16 {
            for arr in arrs {
                choices.push((*arr, grp, *reg));
            }
        }
    }
    let radices: Vec<u64> = vec![choices.len() as u64; n];
    let total: u64 = radices.iter().product();
    let mut digits = Vec::new();
    for attrs in attr_opts {
        for idx in 0..total {
            crate::util::decode(idx, &radices, &mut digits);
            for kind in kinds {
                assert!(KINDS[*kind as usize].form == Form::Object);
                let mut hist = Vec::with_capacity(n);
                let mut sps = Vec::with_capacity(n);
                for (j, d) in digits.iter().enumerate() {
                    let (arr, grp, reg) = choices[*d as usize];
                    hist.push(mk_letter(*kind, arr, grp));
                    sps.push(Sp { attrs: if j == 0 { attrs.clone() } else { vec![] }, reg, joined: j > 0 });
                }
                if spelling_ok(&hist, &sps).is_err() {
                    continue;
                }
                let (hist, sps) = if between { between_textures(hist, sps) } else { (hist, sps) };
                out.push(SpCase { hist, sps, reject_ok: false });
            }
        }
    }
}

fn run_spelled(ctx: &Ctx, rep: &mut Report, name: &str, cases: &[SpCase], index_base: u64) -> u64 {
    let dgs: Vec<Dg> = if ctx.quick() { vec![Dg::NoPipeline, Dg::Pipe(1)] } else { ALL_DGS.to_vec() };
    let per = (ALL_CFGS.len() * dgs.len()) as u64;
    let total = cases.len() as u64 * per;
    let quick = ctx.quick();
    let pr = run_par(ctx, total, 64, |idx, acc| {
        acc.cur_index = index_base + idx;
        let c = &cases[(idx / per) as usize];
        let k = (idx % per) as usize;
        let cfg = ALL_CFGS[k / dgs.len()];
        let dg = dgs[k % dgs.len()];
        // end-to-end through rssl::compile: always in the thorough tier, for the pipeline mode in the quick tier
        let e2e = !quick || dg != Dg::NoPipeline;
        match check_history(&c.hist, cfg, dg, acc, Opt { prefix: None, e2e, spell: Some(&c.sps), reject_ok: c.reject_ok }) {
            Checked::Live(keys) => {
                acc.count(&format!("{}_allocated_as_their_letters", name));
                if let Some(k) = keys.last() {
                    acc.outcome(&(cfg, dg, k));
                }
            }
            Checked::Rejected => acc.count(&format!("{}_rejected_by_type_checker", name)),
            Checked::Violated => {}
        }
    });
    rep.absorb(name, pr);
    rep.cov(&format!("{}_sources", name), Json::Int(cases.len() as i64));
    total
}

/// The spelled spaces. Returns the number of case indices used.
fn spelled_spaces(ctx: &Ctx, rep: &mut Report) -> u64 {
    let all_kinds: Vec<u16> = (0..KINDS.len() as u16).collect();
    // class representatives + one read-write kind (register letter u)
    let rep_kinds: Vec<u16> = all_kinds.iter().copied().filter(|k| KINDS[*k as usize].class_rep || KINDS[*k as usize].name == "RWTexture2D").collect();
    let obj_kinds: Vec<u16> = all_kinds.iter().copied().filter(|k| KINDS[*k as usize].form == Form::Object).collect();
    let rep_obj_kinds: Vec<u16> = obj_kinds.iter().copied().filter(|k| KINDS[*k as usize].class_rep).collect();
    let none2 = [0u16, 2u16]; // no array, [2]
    let none = [0u16];
    let no_attrs: Vec<Vec<Attr>> = vec![vec![]];
    let space_only = [Reg::None, Reg::Space];
    let mut base = 0u64;

    // S1: one declaration, every way of writing its group / a language binding index
    let mut cases = Vec::new();
    let seqs2 = attr_seqs(2);
    if ctx.quick() {
        single_cases(&rep_kinds, &none2, &seqs2, false, &mut cases);
    } else {
        single_cases(&all_kinds, &none2, &seqs2, false, &mut cases);
        single_cases(&all_kinds, &none2, &seqs2, true, &mut cases);
        let seqs3: Vec<Vec<Attr>> = attr_seqs(3).into_iter().filter(|s| s.len() == 3).collect();
        single_cases(&rep_kinds, &none, &seqs3, false, &mut cases);
    }
    base += run_spelled(ctx, rep, "spelled_single_declarations", &cases, base);

    // S2: several declarators in one statement
    let mut cases = Vec::new();
    if ctx.quick() {
        statement_cases(&rep_obj_kinds, 2, &none2, &REGS, &no_attrs, false, &mut cases);
        statement_cases(&rep_obj_kinds, 2, &none, &REGS, &[vec![Attr::Group], vec![Attr::Index]], false, &mut cases);
        statement_cases(&rep_obj_kinds, 3, &none, &space_only, &no_attrs, false, &mut cases);
    } else {
        statement_cases(&obj_kinds, 2, &none2, &REGS, &no_attrs, false, &mut cases);
        statement_cases(&rep_obj_kinds, 2, &none2, &REGS, &[vec![Attr::Group], vec![Attr::Index], vec![Attr::IndexGroup]], false, &mut cases);
        statement_cases(&rep_obj_kinds, 2, &none, &REGS, &no_attrs, true, &mut cases);
        statement_cases(&rep_obj_kinds, 3, &none, &REGS, &no_attrs, false, &mut cases);
        statement_cases(&rep_obj_kinds, 3, &none2, &space_only, &no_attrs, false, &mut cases);
        statement_cases(&rep_obj_kinds, 4, &none, &space_only, &no_attrs, false, &mut cases);
    }
    base += run_spelled(ctx, rep, "spelled_multi_declarator_statements", &cases, base);
    base
}

// -------------------------------------------------------------------------------------------
// flat spaces of plainly spelled histories (same oracle as the BFS): pipeline shapes and cbuffer member counts

/// all histories of length 1..=max_len over `alphabet`, shortest first
fn all_histories(alphabet: &[Letter], max_len: usize, out: &mut Vec<Vec<Letter>>) {
    let mut level: Vec<Vec<Letter>> = vec![vec![]];
    for _ in 0..max_len {
        let mut next = Vec::with_capacity(level.len() * alphabet.len());
        for h in &level {
            for a in alphabet {
                let mut t = h.clone();
                t.push(*a);
                next.push(t);
            }
        }
        out.extend(next.iter().cloned());
        level = next;
    }
}

/// histories x target configurations x `dgs`; end-to-end through rssl::compile for histories of up to `e2e_len` letters
fn run_flat(ctx: &Ctx, rep: &mut Report, name: &str, hists: &[Vec<Letter>], dgs: &[Dg], e2e_len: usize, index_base: u64) -> u64 {
    let per = (ALL_CFGS.len() * dgs.len()) as u64;
    let total = hists.len() as u64 * per;
    let pr = run_par(ctx, total, 64, |idx, acc| {
        acc.cur_index = index_base + idx;
        let h = &hists[(idx / per) as usize];
        let k = (idx % per) as usize;
        let dg = dgs[k / ALL_CFGS.len()];
        let cfg = ALL_CFGS[k % ALL_CFGS.len()];
        let e2e = h.len() <= e2e_len;
        if let Checked::Live(keys) = check_history(h, cfg, dg, acc, Opt { prefix: None, e2e, ..Opt::default() }) {
            acc.count(&format!("{}_allocated_as_the_model", name));
            if let Some(k) = keys.last() {
                acc.outcome(&(cfg, dg, k));
            }
        }
    });
    rep.absorb(name, pr);
    rep.cov(&format!("{}_histories", name), Json::Int(hists.len() as i64));
    rep.cov(&format!("{}_pipeline_forms", name), Json::Int(dgs.len() as i64));
    total
}

/// The two flat spaces. Returns the next free case index.
fn flat_spaces(ctx: &Ctx, rep: &mut Report, classes: &[Letter], index_base: u64) -> u64 {
    let mut base = index_base;
    let by_name = |names: &[&str], groups: &[u16]| -> Vec<Letter> {
        let mut v = Vec::new();
        for g in groups {
            for n in names {
                v.push(mk_letter(kind_ix(n), 0, *g));
            }
        }
        v
    };

    // P: pipeline shapes. The default group comes from the pipeline definition, whatever stages it has and wherever
    // the property is written: every class letter alone + all histories of 2 (thorough 3) declarations over a small
    // alphabet (one-slot / inline-address / cbuffer-block kinds x group {default, 0, 2})
    let small = by_name(&["Texture2D", "BufferAddress", "cbuffer"], &[0, 1, 3]);
    // (quick: the class letters without array length)
    let quick = ctx.quick();
    let mut hists: Vec<Vec<Letter>> = classes.iter().filter(|l| !quick || l_array(**l).is_none()).map(|l| vec![*l]).collect();
    let mut longer = Vec::new();
    all_histories(&small, ctx.pick(2usize, 3usize), &mut longer);
    hists.extend(longer.into_iter().filter(|h| h.len() >= 2));
    // quick: the property is written in front of the stage properties for DefaultBindGroup = 2 only
    let shaped: Vec<Dg> = all_shaped().into_iter().filter(|d| !quick || !matches!(d, Dg::Shaped { first: true, dbg: Some(0) | Some(1), .. })).collect();
    base += run_flat(ctx, rep, "pipeline_shapes", &hists, &shaped, 1, base);

    // M: cbuffer blocks by member count {0, 1, 2, 3} at every position of every history of up to 3 (thorough 4)
    // declarations over {the four blocks x group {default, 1}, Texture2D, ByteAddressBuffer, BufferAddress, Texture2D
    // in group 1}, always end-to-end (the Metal exporter rewrites cbuffer blocks after the allocation)
    // (quick: 9 letters, without the block of 3 members and the texture in group 1)
    let mut alphabet = by_name(&["cbuffer{0 members}", "cbuffer", "cbuffer{2 members}", "Texture2D", "ByteAddressBuffer", "BufferAddress"], &[0]);
    alphabet.extend(by_name(&["cbuffer{0 members}", "cbuffer", "cbuffer{2 members}"], &[2]));
    if !quick {
        alphabet.extend(by_name(&["cbuffer{3 members}"], &[0, 2]));
        alphabet.extend(by_name(&["Texture2D"], &[2]));
    }
    let mut hists = Vec::new();
    let max_len = ctx.pick(3usize, 4usize);
    all_histories(&alphabet, max_len, &mut hists);
    let is_block = |l: &Letter| l_kind(*l).form == Form::Cbuffer;
    hists.retain(|h| h.iter().any(is_block));
    let dgs: Vec<Dg> = if ctx.quick() { vec![Dg::NoPipeline, Dg::Pipe(1)] } else { vec![Dg::NoPipeline, Dg::Pipe(1), Dg::Shaped { stages: Stages::VertexPixel, dbg: Some(2), first: false }] };
    base += run_flat(ctx, rep, "cbuffer_member_counts", &hists, &dgs, max_len, base);
    base
}

/// probe every letter alone: the alphabet consists of the declarations the type checker accepts
fn probe_letters(rep: &mut Report) -> Result<Vec<Letter>, String> {
    let mut accepted = Vec::new();
    let mut rejected: Vec<Json> = Vec::new();
    for l in all_letters() {
        let text = render(&[l], Dg::Pipe(0));
        match guard(|| typecheck_src(&text)) {
            Ok(Ok(_)) => accepted.push(l),
            Ok(Err(e)) => rejected.push(obj(vec![("letter", letter_name(l).into()), ("reason", err_class(&e).into())])),
            Err(p) => rejected.push(obj(vec![("letter", letter_name(l).into()), ("reason", p.signature().into())])),
        }
    }
    // every kind must be present at least in its simplest form, otherwise the check would be silently vacuous
    for (ki, kind) in KINDS.iter().enumerate() {
        if !accepted.contains(&(ki as u16 * 16)) {
            return Err(format!("kind {:?} is not accepted by the type checker in its simplest form `{}`", kind.name, decl_text(ki as u16 * 16, 0)));
        }
    }
    rep.cov("letters_full_alphabet", Json::Int(accepted.len() as i64));
    rep.cov("letters_rejected_by_type_checker", Json::Arr(rejected));
    Ok(accepted)
}

pub fn run(ctx: &Ctx) -> i32 {
    let mut rep = Report::new("model_checking");
    rep.rule = "E2: BFS over histories of global declarations with the real type_check + assign_api_bindings as transition function; a state is (allocator maps used_slots/inline_size from hook H4, reference-model counters) per (target configuration, default bind group mode); distinct non-trivial = distinct canonical states. Before the BFS two flat spaces of histories of 1..4 declarations written with every other annotation syntax / as declarators of one statement go through the same oracle (their final states count as outcomes in the same way)".into();

    let full = match probe_letters(&mut rep) {
        Ok(f) => f,
        Err(e) => {
            eprintln!("machinery error: {}", e);
            return 2;
        }
    };
    let classes: Vec<Letter> = full.iter().copied().filter(|l| l_kind(*l).class_rep && l_array(*l) != Some(1)).collect();
    rep.cov("letters_class_alphabet", Json::Int(classes.len() as i64));
    rep.cov("kinds", Json::Arr(KINDS.iter().map(|k| Json::from(format!("{} ({})", k.name, k.class.name()))).collect()));

    // transitions into depth <= full_upto use the full alphabet (so every kind is tried as the outgoing step of
    // every state reached within full_upto - 1 declarations), deeper levels the class alphabet
    let full_upto = ctx.pick(2usize, 3usize);
    let max_depth = ctx.pick(4usize, 6usize);
    let e2e_all_depth = ctx.pick(1usize, 2usize);
    rep.cov("bfs_full_alphabet_for_transitions_into_depth_up_to", Json::Int(full_upto as i64));
    rep.cov("bfs_max_depth_bound", Json::Int(max_depth as i64));
    rep.cov("e2e_on_every_transition_up_to_depth", Json::Int(e2e_all_depth as i64));

    let mut runs: Vec<Run> = Vec::new();
    for cfg in ALL_CFGS {
        for dg in ALL_DGS {
            // quick tier: no-pipeline mode and DefaultBindGroup = 1 with the full alphabet; DefaultBindGroup = 0 and 2
            // (an explicit zero is not the same input as no property) with the class alphabet at every depth
            let reduced = ctx.quick() && matches!(dg, Dg::Pipe(0) | Dg::Pipe(2));
            let root = Key { hook: (Vec::new(), Vec::new()), model: Model::default() };
            let mut seen = HashMap::new();
            seen.insert(root, 1);
            runs.push(Run {
                cfg,
                dg,
                tag: format!("transitions|{}|{}", cfg.name(), dg.name()),
                full: if reduced { classes.clone() } else { full.clone() },
                classes: classes.clone(),
                seen,
                frontier: vec![(vec![], vec![])],
                transitions: 0,
                merged: 0,
                max_depth: 0,
                complete: true,
                states_per_depth: vec![1],
                depth_cap: if reduced { 2 } else { usize::MAX },
            });
        }
    }
    // the spelled spaces first: they consist of histories of 1..4 declarations
    let index_start = spelled_spaces(ctx, &mut rep);
    let index_start = flat_spaces(ctx, &mut rep, &classes, index_start);
    bfs_all(ctx, &mut rep, &mut runs, full_upto, max_depth, e2e_all_depth, index_start);

    let mut per_config: Vec<Json> = Vec::new();
    let (mut states, mut transitions, mut merged, mut multi, mut maxd) = (0u64, 0u64, 0u64, 0u64, 0usize);
    let mut complete = true;
    for r in &runs {
        let st_states = r.seen.len() as u64;
        let st_multi = r.seen.values().filter(|n| **n >= 2).count() as u64;
        for key in r.seen.keys() {
            rep.acc.nontrivial.insert(hash_of(&(r.cfg, r.dg, key)));
        }
        states += st_states;
        transitions += r.transitions;
        merged += r.merged;
        multi += st_multi;
        maxd = maxd.max(r.max_depth);
        complete &= r.complete;
        per_config.push(obj(vec![
            ("config", r.cfg.name().into()),
            ("default_group", r.dg.name().into()),
            ("states", st_states.into()),
            ("transitions", r.transitions.into()),
            ("max_depth", r.max_depth.into()),
            ("merged_transitions", r.merged.into()),
            ("states_reached_by_2_or_more_histories", st_multi.into()),
            ("new_states_per_depth", Json::Arr(r.states_per_depth.iter().map(|n| Json::Int(*n as i64)).collect())),
            ("complete", r.complete.into()),
        ]));
    }

    rep.cov("states", Json::Int(states as i64));
    rep.cov("transitions", Json::Int(transitions as i64));
    rep.cov("traces_validated_against_impl", Json::Int(transitions as i64));
    rep.cov("bfs_max_depth", Json::Int(maxd as i64));
    rep.cov("bfs_complete_to_depth", Json::Bool(complete));
    rep.cov("states_reached_by_2_or_more_histories", Json::Int(multi as i64));
    rep.cov("merged_transitions", Json::Int(merged as i64));
    rep.cov("per_config", Json::Arr(per_config));
    if !complete {
        rep.exhaustive = false;
    }
    // a few written-out histories
    for (i, h) in [vec![2 * 16 + 2 * 4, 8 * 16], vec![4 * 16 + 2, 5 * 16 + 2, 8 * 16 + 3 * 4 + 2], vec![20 * 16 + 3, 21 * 16, 24 * 16, 6 * 16 + 3 * 4]].iter().enumerate() {
        rep.acc.samples.push((i as u64, obj(vec![("space", "bfs-history".into()), ("history", hist_str(h).into()), ("source", render(h, Dg::Pipe(1)).into())])));
    }
    {
        let tex = kind_ix("Texture2D");
        let raw = kind_ix("RWByteAddressBuffer");
        let cb = kind_ix("cbuffer");
        let spelled: Vec<(Vec<Letter>, Vec<Sp>)> = vec![
            (vec![mk_letter(tex, 2, 3)], vec![Sp { attrs: vec![Attr::Group, Attr::Index], reg: Reg::None, joined: false }]),
            (vec![mk_letter(cb, 0, 1)], vec![Sp { attrs: vec![Attr::Index], reg: Reg::SlotSpace, joined: false }]),
            (
                vec![mk_letter(raw, 0, 2), mk_letter(raw, 0, 0), mk_letter(raw, 2, 0)],
                vec![Sp { attrs: vec![], reg: Reg::SlotSpace, joined: false }, Sp { attrs: vec![], reg: Reg::None, joined: true }, Sp { attrs: vec![], reg: Reg::Slot, joined: true }],
            ),
        ];
        for (i, (h, p)) in spelled.iter().enumerate() {
            if spelling_ok(h, p).is_ok() {
                rep.acc.samples.push((100 + i as u64, obj(vec![("space", "spelled".into()), ("history", hist_str(h).into()), ("source", render_sp(h, Some(p), Dg::Pipe(1)).into())])));
            }
        }
    }
    rep.assumptions = vec![
        "the BFS key contains the complete state assign_api_bindings carries between declarations (used_slots, inline_size; hook H4) plus the reference-model state; process_definition reads nothing else besides the current declaration, the constant parameters and the default group, so merged states have identical futures".into(),
        "alphabet = every declarable bindable kind of ir::ObjectType (20: the *Mips* kinds have no spelling; TriangleStream, RayQuery, RayDesc are not resources) + cbuffer block + static samplers + plain/static/groupshared float, x array {none,1,2,3} x group {default,0,1,2}; letters the type checker rejects when declared alone are listed in letters_rejected_by_type_checker and left out".into(),
        "two group annotation syntaxes: [[rssl::bind_group(N)]] (accepted on every kind) and, for object-typed declarations at odd positions, `: register(spaceN)`; groups >= 3, array lengths > 3 and unbounded arrays are outside the explored space".into(),
        "arrays of buffer addresses with buffer addresses enabled are bound resources that the 'instead takes 8 bytes' clause (non-array addresses only) does not cover: by the first sentence of the property they are expected to take N ordinary slots (this is what the allocator does: is_buffer_address is false for an array type)".into(),
        "two slots per element on Metal are expected for ByteAddressBuffer, RWByteAddressBuffer, StructuredBuffer, RWStructuredBuffer, BufferAddress, RWBufferAddress and for nothing else".into(),
        "the four AssignBindingsParams configurations are transcribed from src/compile.rs; the end-to-end cross-check compares the hook trace inside rssl::compile with the trace of the direct call, so a drift of the transcription is reported as alloc|metadata-disagrees|hook-trace".into(),
        "end-to-end: histories for which rssl::compile returns an error or an exporter panics are counted (e2e_not_crosschecked|...) and not compared; exporter crashes belong to C08".into(),
        "default group: no-pipeline mode (0 by definition) and a compute pipeline with DefaultBindGroup = 0, 1, 2 (BFS, spelled spaces); pipeline_shapes: pipelines with stages {CS, VS, PS, VS+PS, MS, MS+PS, TS+MS, TS+MS+PS} x DefaultBindGroup {not written (default group 0), 0, 1, 2} x property written after / before the stage properties, on every class letter alone (end-to-end) and every history of 2 (thorough 3) declarations over {Texture2D, BufferAddress, cbuffer} x group {default, 0, 2}; entry points do not reference the resources (assign_api_bindings binds every global of the module); other pipeline properties (render target formats, blend states, ...) are not written".into(),
        "cbuffer blocks have 0, 1, 2 or 3 members (`cbuffer X { }` is a bound resource like every other block: one slot); the BFS alphabets contain all four, cbuffer_member_counts checks them end-to-end at every position of histories of up to 3 (thorough 4) declarations; end-to-end the metadata of every target must list exactly the declarations the allocator bound, so a pass behind the allocator that drops a binding shows as alloc|metadata-disagrees|binding-count".into(),
        "spelled spaces: attributes {[[rssl::bind_group(G)]], [[vk::binding(I)]], [[vk::binding(I, G)]]} in sequences of up to 2 (thorough 3) in every order, register annotations {none, register(spaceG), register(xI), register(xI, spaceG)} with the register letter of the kind, 1..3 (thorough 4) declarators per statement; only consistent spellings (every annotation of a declaration that names a group names the group of its letter, none names one for a letter without explicit group), so no priority between conflicting annotations is assumed; single-bracket attributes, repeated register annotations on one declarator and conflicting groups are outside the explored space".into(),
        "the language binding index I (= 5 + position) must not influence api slots: the property hands out ranges from zero in declaration order and assign_api_bindings documents that api slots are independent of language registers".into(),
        "spelled single declarations of static samplers and non-resource globals that the type checker rejects (binding index on a static sampler, register() on a numeric type) are counted (spelling_rejected|...) and skipped; a rejection of a spelled object declaration / cbuffer block / multi-declarator statement is outside the property's domain and counted (spelled_history_rejected(not compared)|...)".into(),
    ];
    finish(ctx, rep)
}

fn parse_letter(s: &str) -> Option<Letter> {
    all_letters().into_iter().find(|l| letter_name(*l) == s)
}

pub fn replay(ctx: &Ctx, body: &str) -> i32 {
    let mut lines = body.lines();
    if lines.next().map(|l| l.trim()) != Some("kind: history") {
        eprintln!("machinery error: unknown replay kind");
        return 2;
    }
    let mut cfg = None;
    let mut dg = None;
    let mut e2e = false;
    let mut hist = Vec::new();
    let mut sps: Vec<Sp> = Vec::new();
    for line in lines {
        if let Some(v) = line.strip_prefix("config: ") {
            cfg = Cfg::from_name(v.trim());
        } else if let Some(v) = line.strip_prefix("default_group: ") {
            dg = Dg::from_name(v.trim());
        } else if let Some(v) = line.strip_prefix("e2e: ") {
            e2e = v.trim() == "yes";
        } else if let Some(v) = line.strip_prefix("letter: ") {
            match parse_letter(v.trim()) {
                Some(l) => hist.push(l),
                None => {
                    eprintln!("machinery error: unknown letter {:?}", v);
                    return 2;
                }
            }
        } else if let Some(v) = line.strip_prefix("spell: ") {
            match parse_sp(v) {
                Some(sp) => sps.push(sp),
                None => {
                    eprintln!("machinery error: unknown spelling {:?}", v);
                    return 2;
                }
            }
        } else if line.starts_with("source:") {
            break;
        }
    }
    let spell: Option<&[Sp]> = if sps.is_empty() { None } else { Some(&sps) };
    if let Some(sps) = spell {
        if let Err(e) = spelling_ok(&hist, sps) {
            eprintln!("machinery error: spelling does not fit the letters: {}", e);
            return 2;
        }
    }
    let (cfg, dg) = match (cfg, dg) {
        (Some(c), Some(d)) => (c, d),
        _ => {
            eprintln!("machinery error: replay lacks config / default_group");
            return 2;
        }
    };
    let mut acc = Acc::default();
    let mut acc2 = Acc::default();
    let opt = Opt { prefix: None, e2e, spell, reject_ok: false };
    let _ = check_history(&hist, cfg, dg, &mut acc, opt);
    let _ = check_history(&hist, cfg, dg, &mut acc2, opt);
    if acc.viol.keys().collect::<Vec<_>>() != acc2.viol.keys().collect::<Vec<_>>() {
        eprintln!("machinery error: replay is not deterministic");
        return 2;
    }
    finish_replay(ctx, &acc)
}

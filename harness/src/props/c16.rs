//! C16 — overload resolution is order-independent and prefers exact matches.
//!
//! Bounded exhaustive exploration of the real type checker (`rssl::typer::type_check`) over overload sets
//! of 1–5 candidates with 1–3 parameters (DESIGN.md §5 C16). Every call site is a real rssl function that
//! calls a real overload set; the verdict of a site is *observed*:
//!   * `Ok(module)`  → the resolved callee is read from the IR (`ir::Expression::Call(FunctionId, ..)` →
//!     `function_registry.get_function_signature(id).param_types`) and identified by its parameter types;
//!   * `Err(TyperExternalError(FunctionArgumentTypeMismatch(.., ambiguous), _))` → `ambiguous` / `no match`.
//! The 1-parameter spaces are observed a second time through the source-level channel the property names:
//! every overload returns a distinct struct type `R<i>` and the call is wrapped in `assert_type<R<i>>(f(arg))`.
//!
//! Oracles:
//!   1. order independence: the verdict is the same for every layout of the declarations (every permutation, and
//!      in the form spaces one differently named declaration at every position of the order);
//!   2. exact match: the unique candidate whose parameter types equal the argument types is selected;
//!   2b. documented priority (one `in` parameter, plain free functions): "converts better" for ONE argument is the
//!      "Overload priority" table documented at the top of typer/src/casting.rs (transcribed in `doc_tier`), ties
//!      broken by the VectorRank documented on the enum (same dimension, scalar expanded, vector truncated); the
//!      verdict of every one-parameter set must be the one this reference gives (viability itself is measured,
//!      not modelled). This ties the measured relation used by oracle 3 to the documented one;
//!   3. non-domination: "converts better" is the compiler's own 1-parameter behaviour
//!      (single candidate → viability, pair of candidates → preference; checked against the documented table by
//!      2b); the candidate selected for a multi-parameter / multi-candidate call must not be dominated by another
//!      viable candidate.
//! Sanity axioms on the measured 1-parameter relation are checked before it is used.
//!
//! Mixed viability (phase 1b): sets of 3-5 candidates with 2-3 parameters in which some candidates can not take the
//! arguments at all (`out` parameter of another type / bound to an r-value or literal, a vector that would have to be
//! widened, another number of parameters) next to viable candidates of different scalar kinds, every permutation. The
//! verdict compared by oracle 1 includes the KIND of a rejection (ambiguous vs unmatched); a difference in only that
//! kind has its own signature class `overload|order-dependent-rejection-kind|..`.
//!
//! Argument expressions and declaration styles (phase 1c, section "phase 1c" below): every spelling of a literal of one
//! class (radix × value around every bit position), every swizzle of a vector as an argument, and every placement of
//! prototypes / definitions / the call for candidates with and without a trailing default parameter. Oracle there:
//! "the verdict depends only on the set of visible candidates and the argument types" - equal types, equal verdict.
//!
//! Declaration forms: free functions (all spaces), methods of a struct called as `s.f(x)`, methods called
//! unqualified from a sibling method (`Form`); the IR shows the resolved callee in all three.
//!
//! Scheduling only (never verdicts): accepted call sites are batched many per compilation unit (one test
//! function per site, one privately named overload set `f<i>` per declaration order) and bisected when the
//! unit fails; sites that are expected to be rejected are compiled alone (a rejected call costs one
//! type_check, there is no way around that). The expectation comes from the measured 1-parameter relation
//! (a Pareto rule) or from the verdict of the first permutation; a wrong expectation costs time, nothing else.
//! `--replay` re-runs one (candidate set, argument tuple) case over all declaration orders, measuring the part
//! of the 1-parameter relation it needs on demand, and prints the observed verdict per order.

use crate::engine::*;
use crate::json::{Json, obj};
use rssl::ir;
use rssl::text::{FileName, SourceManager};
use rssl::typer::TyperError;
use std::sync::atomic::{AtomicU8, Ordering};

// ---------------------------------------------------------------------------------------------
// the type / parameter / argument alphabets

const SC: [&str; 6] = ["bool", "int", "uint", "half", "float", "double"];
const DIMS: [u8; 4] = [1, 2, 3, 4];
const NTY: usize = 24;
/// parameter code: ty * 2 + out, ty = scalar * 4 + dim_index
type P = u8;
const NP: usize = 48;
/// argument code: 0..24 l-value of type ty, 24..48 r-value of type ty, 48 untyped int literal, 49 untyped float literal
type A = u8;
const NA: usize = 50;
const A_LIT_INT: A = 48;
const A_LIT_FLOAT: A = 49;

type Sig = Vec<P>;

fn ty_name(ty: u8) -> String {
    let d = DIMS[(ty % 4) as usize];
    let s = SC[(ty / 4) as usize];
    if d == 1 { s.to_string() } else { format!("{}{}", s, d) }
}
fn ty_of(scalar: usize, dim: u8) -> u8 {
    (scalar * 4 + DIMS.iter().position(|d| *d == dim).unwrap()) as u8
}
fn p_code(ty: u8, out: bool) -> P {
    ty * 2 + out as u8
}
fn p_ty(p: P) -> u8 {
    p >> 1
}
fn p_out(p: P) -> bool {
    p & 1 == 1
}
fn p_show(p: P) -> String {
    if p_out(p) { format!("out {}", ty_name(p_ty(p))) } else { ty_name(p_ty(p)) }
}
fn sig_show(s: &[P]) -> String {
    format!("f({})", s.iter().map(|p| p_show(*p)).collect::<Vec<_>>().join(", "))
}
fn set_show(set: &[Sig]) -> String {
    set.iter().map(|s| sig_show(s)).collect::<Vec<_>>().join(" ")
}
fn a_ty(a: A) -> Option<u8> {
    if a < 24 {
        Some(a)
    } else if a < 48 {
        Some(a - 24)
    } else {
        None
    }
}
fn a_lvalue(a: A) -> bool {
    a < 24
}
fn a_show(a: A) -> String {
    match a {
        A_LIT_INT => "lit:0".to_string(),
        A_LIT_FLOAT => "lit:0.0".to_string(),
        a if a < 24 => format!("L:{}", ty_name(a)),
        a => format!("R:{}", ty_name(a - 24)),
    }
}
fn args_show(args: &[A]) -> String {
    args.iter().map(|a| a_show(*a)).collect::<Vec<_>>().join(",")
}
fn parse_ty(s: &str) -> Option<u8> {
    (0..NTY as u8).find(|t| ty_name(*t) == s)
}
fn parse_param(s: &str) -> Option<P> {
    let s = s.trim();
    match s.strip_prefix("out ") {
        Some(t) => parse_ty(t.trim()).map(|t| p_code(t, true)),
        None => parse_ty(s).map(|t| p_code(t, false)),
    }
}
fn parse_arg(s: &str) -> Option<A> {
    let s = s.trim();
    match s {
        "lit:0" => Some(A_LIT_INT),
        "lit:0.0" => Some(A_LIT_FLOAT),
        _ => {
            if let Some(t) = s.strip_prefix("L:") {
                parse_ty(t)
            } else if let Some(t) = s.strip_prefix("R:") {
                parse_ty(t).map(|t| t + 24)
            } else {
                None
            }
        }
    }
}

/// all permutations of 0..n in lexicographic order (identity first)
fn perms_of(n: usize) -> Vec<Vec<u8>> {
    fn rec(cur: &mut Vec<u8>, used: &mut Vec<bool>, n: usize, out: &mut Vec<Vec<u8>>) {
        if cur.len() == n {
            out.push(cur.clone());
            return;
        }
        for i in 0..n {
            if !used[i] {
                used[i] = true;
                cur.push(i as u8);
                rec(cur, used, n, out);
                cur.pop();
                used[i] = false;
            }
        }
    }
    let mut out = Vec::new();
    rec(&mut Vec::new(), &mut vec![false; n], n, &mut out);
    out
}

/// all k-subsets of 0..n in lexicographic order
fn subsets(n: usize, k: usize) -> Vec<Vec<usize>> {
    fn rec(start: usize, n: usize, k: usize, cur: &mut Vec<usize>, out: &mut Vec<Vec<usize>>) {
        if cur.len() == k {
            out.push(cur.clone());
            return;
        }
        for i in start..n {
            cur.push(i);
            rec(i + 1, n, k, cur, out);
            cur.pop();
        }
    }
    let mut out = Vec::new();
    rec(0, n, k, &mut Vec::new(), &mut out);
    out
}

// ---------------------------------------------------------------------------------------------
// program generation

/// How the overload set is declared and called.
///   * `Free`: free functions `f<i>(..)`, called from a free test function;
///   * `Method`: methods of a struct `S<i>`, called as `s.f<i>(..)` from a free test function;
///   * `MethodInternal`: methods of a struct `S<i>`, called unqualified from a sibling method of the same struct
///     (the sibling is the differently named member of the layout: it is declared before, between or after the
///     overloads it calls).
#[derive(Copy, Clone, PartialEq, Eq, Debug, Hash)]
enum Form {
    Free,
    Method,
    MethodInternal,
}

impl Form {
    fn tag(self) -> &'static str {
        match self {
            Form::Free => "free",
            Form::Method => "method",
            Form::MethodInternal => "method-internal",
        }
    }
    fn parse(s: &str) -> Option<Form> {
        [Form::Free, Form::Method, Form::MethodInternal].into_iter().find(|f| f.tag() == s)
    }
    fn rank(self) -> usize {
        self as usize
    }
}

/// A layout is a declaration order: candidate indices, optionally with one `GAP` = a declaration with another
/// name (`void g<i>() {}`) at that position.
const GAP: u8 = 255;

/// all declaration layouts of `n` candidates: every permutation (identity first), and with `gaps` every position
/// 0..=n of one differently named declaration
fn layouts_of(n: usize, gaps: bool) -> Vec<Vec<u8>> {
    let mut out = Vec::new();
    for perm in perms_of(n) {
        if !gaps {
            out.push(perm);
        } else {
            for pos in 0..=n {
                let mut l = perm.clone();
                l.insert(pos, GAP);
                out.push(l);
            }
        }
    }
    out
}

fn layout_show(set: &[Sig], layout: &[u8]) -> String {
    layout.iter().map(|c| if *c == GAP { "<other>".to_string() } else { sig_show(&set[*c as usize]) }).collect::<Vec<_>>().join("; ")
}

/// Declarations of the overload set `f<fi>` in the order `layout` (the members of `S<fi>` for the method forms).
/// `witness`: every candidate returns its own struct type `R<canonical index>`.
/// `gap`: the text of the differently named declaration(s) at the `GAP` position (default `void g<fi>() {}`).
fn emit_decls(s: &mut String, fi: usize, set: &[Sig], layout: &[u8], witness: bool, gap: Option<&str>) {
    use std::fmt::Write;
    for &ci in layout {
        if ci == GAP {
            match gap {
                Some(text) => s.push_str(text),
                None => {
                    let _ = writeln!(s, "void g{}() {{}}", fi);
                }
            }
            continue;
        }
        let cand = &set[ci as usize];
        if witness {
            let _ = write!(s, "R{} f{}(", ci, fi);
        } else {
            let _ = write!(s, "void f{}(", fi);
        }
        for (i, p) in cand.iter().enumerate() {
            if i > 0 {
                s.push_str(", ");
            }
            let _ = write!(s, "{} p{}", p_show(*p), i);
        }
        if witness {
            let _ = writeln!(s, ") {{ R{} r; return r; }}", ci);
        } else {
            s.push_str(") {}\n");
        }
    }
}

/// The test function `t<k>` whose last statement is the call `f<fi>(args)` (`s.f<fi>(args)` for `Form::Method`);
/// `witness = Some(r)`: the call is wrapped in `assert_type<R<r>>( .. )`.
fn emit_test(s: &mut String, helpers: &mut u32, form: Form, k: usize, fi: usize, args: &[A], witness: Option<u8>) {
    use std::fmt::Write;
    let _ = write!(s, "void t{}() {{ ", k);
    if form == Form::Method {
        let _ = write!(s, "S{} s; ", fi);
    }
    for (i, a) in args.iter().enumerate() {
        if a_lvalue(*a) {
            let _ = write!(s, "{} a{}; ", ty_name(*a), i);
        }
    }
    if let Some(r) = witness {
        let _ = write!(s, "assert_type<R{}>(", r);
    }
    if form == Form::Method {
        s.push_str("s.");
    }
    let _ = write!(s, "f{}(", fi);
    for (i, a) in args.iter().enumerate() {
        if i > 0 {
            s.push_str(", ");
        }
        match *a {
            A_LIT_INT => s.push('0'),
            A_LIT_FLOAT => s.push_str("0.0"),
            a if a < 24 => {
                let _ = write!(s, "a{}", i);
            }
            a => {
                *helpers |= 1 << (a - 24);
                let _ = write!(s, "r_{}()", ty_name(a - 24));
            }
        }
    }
    s.push(')');
    if witness.is_some() {
        s.push(')');
    }
    s.push_str("; }\n");
}

fn unit_prefix(helpers: u32, witness_structs: usize) -> String {
    let mut s = String::new();
    for i in 0..witness_structs {
        s.push_str(&format!("struct R{} {{}};\n", i));
    }
    for t in 0..NTY as u8 {
        if helpers & (1 << t) != 0 {
            let n = ty_name(t);
            s.push_str(&format!("{} r_{}();\n", n, n));
        }
    }
    s
}

/// One compilation unit for `sites` = (layout index, tuple index): per layout (in order of first use) the privately
/// named overload set followed by the test functions of its sites (inside the struct for `Form::MethodInternal`).
/// `witness[k]` = the candidate whose return type site k asserts.
fn build_unit(form: Form, set: &[Sig], layouts: &[Vec<u8>], tuples: &[Vec<A>], sites: &[(usize, usize)], witness: Option<&[u8]>) -> String {
    let mut helpers = 0u32;
    let mut order: Vec<usize> = Vec::new();
    let mut tests: Vec<String> = Vec::new();
    for (k, (pi, ti)) in sites.iter().enumerate() {
        let slot = match order.iter().position(|p| p == pi) {
            Some(s) => s,
            None => {
                order.push(*pi);
                tests.push(String::new());
                order.len() - 1
            }
        };
        emit_test(&mut tests[slot], &mut helpers, form, k, *pi, &tuples[*ti], witness.map(|w| w[k]));
    }
    let mut body = String::new();
    for (slot, pi) in order.iter().enumerate() {
        match form {
            Form::Free => {
                emit_decls(&mut body, *pi, set, &layouts[*pi], witness.is_some(), None);
                body.push_str(&tests[slot]);
            }
            Form::Method => {
                body.push_str(&format!("struct S{} {{\n", pi));
                emit_decls(&mut body, *pi, set, &layouts[*pi], witness.is_some(), None);
                body.push_str("};\n");
                body.push_str(&tests[slot]);
            }
            Form::MethodInternal => {
                // the calling methods are the differently named members: they sit at the GAP position of the layout
                // (before, between or after the overloads they call); without a GAP they follow the overloads
                body.push_str(&format!("struct S{} {{\n", pi));
                if layouts[*pi].contains(&GAP) {
                    emit_decls(&mut body, *pi, set, &layouts[*pi], witness.is_some(), Some(&tests[slot]));
                } else {
                    emit_decls(&mut body, *pi, set, &layouts[*pi], witness.is_some(), None);
                    body.push_str(&tests[slot]);
                }
                body.push_str("};\n");
            }
        }
    }
    format!("{}{}", unit_prefix(helpers, if witness.is_some() { set.len() } else { 0 }), body)
}

/// the stand-alone program of one site (used in findings and replays)
fn program_text(form: Form, set: &[Sig], layout: &[u8], args: &[A], witness: Option<u8>) -> String {
    let w = witness.map(|c| vec![c]);
    build_unit(form, set, &[layout.to_vec()], &[args.to_vec()], &[(0, 0)], w.as_deref())
}

// ---------------------------------------------------------------------------------------------
// observation

#[derive(Clone, PartialEq, Eq, Debug)]
enum UnitErr {
    Ambiguous,
    NoMatch,
    /// any other diagnostic: (TyperError variant name or stage, rendered first line)
    Other(String, String),
}

fn variant_name(e: &TyperError) -> String {
    let d = format!("{:?}", e);
    d.chars().take_while(|c| c.is_ascii_alphanumeric() || *c == '_').collect()
}

fn type_check_unit(src: &str) -> Result<Result<ir::Module, UnitErr>, PanicInfo> {
    guard(|| {
        use rssl::text::CompileErrorExt;
        let mut sm = SourceManager::new();
        let toks = match rssl::preprocess::preprocess_fragment(src, FileName("t.rssl".to_string()), &mut sm) {
            Ok(t) => t,
            Err(e) => return Err(UnitErr::Other("preprocess".into(), format!("{}", e.display(&sm)))),
        };
        let toks = rssl::preprocess::prepare_tokens(&toks);
        let ast = match rssl::parser::parse(&toks) {
            Ok(a) => a,
            Err(e) => return Err(UnitErr::Other("parse".into(), format!("{}", e.display(&sm)))),
        };
        match rssl::typer::type_check(&ast) {
            Ok(m) => Ok(m),
            Err(e) => match &e.0 {
                TyperError::FunctionArgumentTypeMismatch(_, _, _, ambiguous) => Err(if *ambiguous { UnitErr::Ambiguous } else { UnitErr::NoMatch }),
                other => {
                    let name = variant_name(other);
                    let text = format!("{}", e.display(&sm));
                    Err(UnitErr::Other(name, text.lines().next().unwrap_or("").to_string()))
                }
            },
        }
    })
}

fn decode_param(m: &ir::Module, pt: &ir::ParamType) -> Option<P> {
    let scalar = |st: ir::ScalarType| -> Option<usize> {
        Some(match st {
            ir::ScalarType::Bool => 0,
            ir::ScalarType::Int32 => 1,
            ir::ScalarType::UInt32 => 2,
            ir::ScalarType::Float16 => 3,
            ir::ScalarType::Float32 => 4,
            ir::ScalarType::Float64 => 5,
            _ => return None,
        })
    };
    let ty = match m.type_registry.get_type_layer(pt.type_id) {
        ir::TypeLayer::Scalar(st) => ty_of(scalar(st)?, 1),
        ir::TypeLayer::Vector(inner, n) if (2..=4).contains(&n) => match m.type_registry.get_type_layer(inner) {
            ir::TypeLayer::Scalar(st) => ty_of(scalar(st)?, n as u8),
            _ => return None,
        },
        _ => return None,
    };
    let out = match pt.input_modifier {
        ir::InputModifier::In => false,
        ir::InputModifier::Out => true,
        ir::InputModifier::InOut => return None,
    };
    Some(p_code(ty, out))
}

/// For every test function `t<k>` (k < n): the parameter types of the function its call statement resolved to,
/// read from the IR. `Err(text)` if the IR does not have the expected shape.
fn read_unit(m: &ir::Module, form: Form, callee_of: &[usize]) -> Vec<Result<Sig, String>> {
    let n = callee_of.len();
    let mut out: Vec<Result<Sig, String>> = (0..n).map(|_| Err("test function not found in the IR".to_string())).collect();
    let mut ids: Vec<ir::FunctionId> = Vec::new();
    for def in &m.root_definitions {
        match def {
            ir::RootDefinition::Function(id) if form != Form::MethodInternal => ids.push(*id),
            ir::RootDefinition::Struct(sid) if form == Form::MethodInternal => ids.extend(m.struct_registry[sid.0 as usize].methods.iter().copied()),
            _ => {}
        }
    }
    let want = match form {
        Form::Free => ir::CallType::FreeFunction,
        Form::Method => ir::CallType::MethodExternal,
        Form::MethodInternal => ir::CallType::MethodInternal,
    };
    for id in ids {
        let name = m.function_registry.get_function_name(id);
        let k: usize = match name.strip_prefix('t').and_then(|r| r.parse().ok()) {
            Some(k) if k < n => k,
            _ => continue,
        };
        let imp = match m.function_registry.get_function_implementation(id) {
            Some(i) => i,
            None => continue,
        };
        let last = match imp.scope_block.0.last() {
            Some(s) => s,
            None => continue,
        };
        out[k] = match &last.kind {
            ir::StatementKind::Expression(ir::Expression::Call(callee, ct, _)) if *ct == want => {
                let cname = m.function_registry.get_function_name(*callee);
                if cname != format!("f{}", callee_of[k]) {
                    Err(format!("call resolved to a function named {}", cname))
                } else {
                    let sig = m.function_registry.get_function_signature(*callee);
                    let ps: Option<Sig> = sig.param_types.iter().map(|pt| decode_param(m, pt)).collect();
                    ps.ok_or_else(|| "callee has a parameter type outside the enumerated alphabet".to_string())
                }
            }
            other => Err(format!("statement is not a {} call: {:?}", form.tag(), other)),
        };
    }
    out
}

/// verdict of one call site
#[derive(Copy, Clone, PartialEq, Eq, Debug, Hash)]
enum V {
    /// selected candidate, canonical index into the set
    Sel(u8),
    Amb,
    NoMatch,
    /// something else happened; a violation has been recorded
    Bad,
}

fn v_show(v: V, set: &[Sig]) -> String {
    match v {
        V::Sel(c) => format!("selects {}", sig_show(&set[c as usize])),
        V::Amb => "rejected as ambiguous".to_string(),
        V::NoMatch => "rejected as unmatched".to_string(),
        V::Bad => "unexpected result".to_string(),
    }
}

// ---------------------------------------------------------------------------------------------
// the measured 1-parameter relation

const E_FIRST: u8 = 0;
const E_SECOND: u8 = 1;
const E_AMB: u8 = 2;
const E_NOMATCH: u8 = 3;
const E_BAD: u8 = 4;
const E_UNKNOWN: u8 = 255;

#[derive(Copy, Clone, PartialEq, Eq, Debug)]
enum Rel {
    Better,
    Worse,
    Tie,
    Unknown,
}

struct Base {
    /// [a * NP + t] : 1 viable, 0 not viable, E_UNKNOWN
    viable: Vec<AtomicU8>,
    /// [(a * NP + t1) * NP + t2], t1 < t2 : E_*
    pref: Vec<AtomicU8>,
    /// replay mode: measure missing entries on demand
    lazy: bool,
}

impl Base {
    fn new(lazy: bool) -> Base {
        Base {
            viable: (0..NA * NP).map(|_| AtomicU8::new(E_UNKNOWN)).collect(),
            pref: (0..NA * NP * NP).map(|_| AtomicU8::new(E_UNKNOWN)).collect(),
            lazy,
        }
    }
    fn viable(&self, a: A, t: P) -> Option<bool> {
        let slot = &self.viable[a as usize * NP + t as usize];
        let mut e = slot.load(Ordering::Relaxed);
        if e == E_UNKNOWN && self.lazy {
            let set = vec![vec![t]];
            e = match observe_alone(Form::Free, &set, &[0], &[a], None) {
                Ok(V::Sel(_)) => 1,
                Ok(V::NoMatch) => 0,
                _ => E_BAD,
            };
            slot.store(e, Ordering::Relaxed);
        }
        match e {
            1 => Some(true),
            0 => Some(false),
            _ => None,
        }
    }
    fn pref_entry(&self, a: A, lo: P, hi: P) -> u8 {
        let slot = &self.pref[(a as usize * NP + lo as usize) * NP + hi as usize];
        let mut e = slot.load(Ordering::Relaxed);
        if e == E_UNKNOWN && self.lazy {
            let set = vec![vec![lo], vec![hi]];
            e = match observe_alone(Form::Free, &set, &[0, 1], &[a], None) {
                Ok(V::Sel(0)) => E_FIRST,
                Ok(V::Sel(_)) => E_SECOND,
                Ok(V::Amb) => E_AMB,
                Ok(V::NoMatch) => E_NOMATCH,
                _ => E_BAD,
            };
            slot.store(e, Ordering::Relaxed);
        }
        e
    }
    /// how does converting an argument `a` to parameter type `x` compare with converting it to `y`,
    /// according to the compiler's own choice between {f(x), f(y)}
    fn rel(&self, a: A, x: P, y: P) -> Rel {
        if x == y {
            return Rel::Tie;
        }
        let (lo, hi) = if x < y { (x, y) } else { (y, x) };
        match self.pref_entry(a, lo, hi) {
            E_FIRST => {
                if x == lo {
                    Rel::Better
                } else {
                    Rel::Worse
                }
            }
            E_SECOND => {
                if x == hi {
                    Rel::Better
                } else {
                    Rel::Worse
                }
            }
            E_AMB => Rel::Tie,
            _ => Rel::Unknown,
        }
    }
    fn cand_viable(&self, cand: &[P], args: &[A]) -> Option<bool> {
        // a candidate of another arity can not take the arguments (there are no default arguments in the space)
        if cand.len() != args.len() {
            return Some(false);
        }
        let mut all = true;
        for (p, a) in cand.iter().zip(args) {
            match self.viable(*a, *p) {
                Some(true) => {}
                Some(false) => all = false,
                None => return None,
            }
        }
        Some(all)
    }
    /// does candidate `d` dominate candidate `c` for `args`: converts no argument worse and at least one better
    fn dominates(&self, d: &[P], c: &[P], args: &[A]) -> Option<bool> {
        let mut some_better = false;
        for i in 0..args.len() {
            match self.rel(args[i], d[i], c[i]) {
                Rel::Better => some_better = true,
                Rel::Tie => {}
                Rel::Worse => return Some(false),
                Rel::Unknown => return None,
            }
        }
        Some(some_better)
    }
    /// Scheduling expectation only: is the call expected to be accepted? (Pareto rule over the measured relation)
    fn expect_accept(&self, set: &[Sig], args: &[A], use_pref: bool) -> bool {
        let viable: Vec<&Sig> = set.iter().filter(|c| self.cand_viable(c, args) == Some(true)).collect();
        if viable.is_empty() {
            return false;
        }
        if viable.len() == 1 {
            return true;
        }
        if !use_pref {
            return false;
        }
        let mut winners = 0;
        for c in &viable {
            if viable.iter().all(|d| std::ptr::eq(*d, *c) || self.dominates(c, d, args) == Some(true)) {
                winners += 1;
            }
        }
        winners == 1
    }
}

// ---------------------------------------------------------------------------------------------
// resolving sites: batch, bisect, alone

struct Env<'a> {
    base: &'a Base,
    /// second witness through assert_type (1-parameter spaces)
    witness: bool,
    /// name of the space for counters
    space: &'static str,
    batch: usize,
    /// every `crosscheck`-th batched site is also compiled alone (0 = never)
    crosscheck: u64,
    /// the pair table of `base` is complete and may be consulted (false while it is being measured)
    use_pref: bool,
    /// development aid (C16_PROBE=cpu): CPU time spent in type_check, never part of a verdict
    probe_cpu: bool,
    /// how the overload set is declared and called
    form: Form,
    /// the declaration layouts also place one differently named declaration at every position
    gaps: bool,
    /// compare the verdicts of one-parameter sets with the documented priority table (needs complete viability)
    doc: bool,
}

impl<'a> Env<'a> {
    /// the same environment for another declaration form; the documented-priority oracle is about the ranking, not
    /// about the form, and stays with the plain free-function spaces (one finding per root cause)
    fn with(&self, form: Form, gaps: bool, witness: bool) -> Env<'a> {
        Env { base: self.base, witness, space: self.space, batch: self.batch, crosscheck: self.crosscheck, use_pref: self.use_pref, probe_cpu: self.probe_cpu, form, gaps, doc: false }
    }
    /// suffix of the signatures of this form ("" for plain free functions, so that those stay as they were)
    fn sig_tag(&self) -> String {
        match (self.form, self.gaps) {
            (Form::Free, false) => String::new(),
            (Form::Free, true) => "|free-interleaved".to_string(),
            (f, _) => format!("|{}", f.tag()),
        }
    }
}

fn case_replay(set: &[Sig], args: &[A]) -> String {
    case_replay_in(Form::Free, false, set, args)
}

fn case_replay_in(form: Form, gaps: bool, set: &[Sig], args: &[A]) -> String {
    let cands: Vec<String> = set.iter().map(|s| s.iter().map(|p| p_show(*p)).collect::<Vec<_>>().join(",")).collect();
    format!("kind: case\nform: {}\ngaps: {}\ncands: {}\nargs: {}\n", form.tag(), gaps as u8, cands.join(" | "), args_show(args))
}

/// compile one site alone (no accumulator: used by the lazy base and by replays)
fn observe_alone(form: Form, set: &[Sig], perm: &[u8], args: &[A], witness: Option<u8>) -> Result<V, String> {
    let src = program_text(form, set, perm, args, witness);
    match type_check_unit(&src) {
        Err(p) => Err(p.signature()),
        Ok(Err(UnitErr::Ambiguous)) => Ok(V::Amb),
        Ok(Err(UnitErr::NoMatch)) => Ok(V::NoMatch),
        Ok(Err(UnitErr::Other(name, text))) => Err(format!("{}: {}", name, text)),
        Ok(Ok(m)) => match read_unit(&m, form, &[0]).pop().unwrap() {
            Ok(sig) => match set.iter().position(|s| *s == sig) {
                Some(c) => Ok(V::Sel(c as u8)),
                None => Err(format!("resolved to {} which is not a declared candidate", sig_show(&sig))),
            },
            Err(t) => Err(t),
        },
    }
}

struct Resolver<'a> {
    set: &'a [Sig],
    perms: &'a [Vec<u8>],
    tuples: &'a [Vec<A>],
}

impl<'a> Resolver<'a> {
    /// Observe the verdicts of `sites` = (permutation index, tuple index). One compilation unit; split on failure.
    fn resolve(&self, env: &Env, sites: &[(usize, usize)], out: &mut [V], acc: &mut Acc) {
        if sites.is_empty() {
            return;
        }
        let src = build_unit(env.form, self.set, self.perms, self.tuples, sites, None);
        acc.count("type_checks");
        let t0 = if env.probe_cpu { thread_cpu_s() } else { 0.0 };
        let r = type_check_unit(&src);
        if env.probe_cpu {
            let us = ((thread_cpu_s() - t0) * 1e6) as u64;
            acc.add(if sites.len() == 1 { "probe_cpu_us_single_site_units" } else { "probe_cpu_us_batched_units" }, us);
            acc.add(if sites.len() == 1 { "probe_n_single_site_units" } else { "probe_n_batched_units" }, 1);
            acc.add(if sites.len() == 1 { "probe_sites_single" } else { "probe_sites_batched" }, sites.len() as u64);
        }
        match r {
            Ok(Ok(m)) => {
                acc.count(if sites.len() == 1 { "single_site_units_accepted" } else { "units_accepted" });
                let callee_of: Vec<usize> = sites.iter().map(|(pi, _)| *pi).collect();
                let calls = read_unit(&m, env.form, &callee_of);
                for ((pi, ti), call) in sites.iter().zip(calls) {
                    let slot = pi * self.tuples.len() + ti;
                    out[slot] = match call {
                        Ok(sig) => match self.set.iter().position(|s| *s == sig) {
                            Some(c) => V::Sel(c as u8),
                            None => {
                                self.bad(env, *pi, *ti, "overload|selected-not-a-candidate", format!("call resolved to {} which is not in the declared set", sig_show(&sig)), acc);
                                V::Bad
                            }
                        },
                        Err(t) => {
                            self.bad(env, *pi, *ti, "overload|ir-shape", t, acc);
                            V::Bad
                        }
                    };
                }
            }
            other => {
                if sites.len() > 1 {
                    acc.count("bisections");
                    let mid = sites.len() / 2;
                    self.resolve(env, &sites[..mid], out, acc);
                    self.resolve(env, &sites[mid..], out, acc);
                    return;
                }
                let (pi, ti) = sites[0];
                let slot = pi * self.tuples.len() + ti;
                out[slot] = match other {
                    Ok(Err(UnitErr::Ambiguous)) => V::Amb,
                    Ok(Err(UnitErr::NoMatch)) => V::NoMatch,
                    Ok(Err(UnitErr::Other(name, text))) => {
                        self.bad(env, pi, ti, &format!("overload|unexpected-error|{}", name), text, acc);
                        V::Bad
                    }
                    Err(p) => {
                        self.bad(env, pi, ti, &p.signature(), format!("type_check panicked: {}", p.message), acc);
                        V::Bad
                    }
                    Ok(Ok(_)) => unreachable!(),
                };
            }
        }
    }

    fn bad(&self, env: &Env, pi: usize, ti: usize, sig: &str, text: String, acc: &mut Acc) {
        let args = &self.tuples[ti];
        acc.violation(Violation {
            signature: format!("{}{}", sig, env.sig_tag()),
            detail: format!("{} — program:\n{}", text, program_text(env.form, self.set, &self.perms[pi], args, None)),
            replay: case_replay_in(env.form, env.gaps, self.set, args),
        });
    }

    /// second witness: every accepted site again with `assert_type<R<selected>>(call)`; must type check
    fn witness(&self, env: &Env, sites: &[(usize, usize)], verdicts: &[V], acc: &mut Acc) {
        if sites.is_empty() {
            return;
        }
        let selected: Vec<u8> = sites
            .iter()
            .map(|(pi, ti)| match verdicts[pi * self.tuples.len() + ti] {
                V::Sel(c) => c,
                _ => unreachable!(),
            })
            .collect();
        let src = build_unit(env.form, self.set, self.perms, self.tuples, sites, Some(&selected));
        acc.count("type_checks");
        match type_check_unit(&src) {
            Ok(Ok(_)) => acc.add("witness_assert_type_agrees", sites.len() as u64),
            other => {
                if sites.len() > 1 {
                    let mid = sites.len() / 2;
                    self.witness(env, &sites[..mid], verdicts, acc);
                    self.witness(env, &sites[mid..], verdicts, acc);
                    return;
                }
                let (pi, ti) = sites[0];
                let args = &self.tuples[ti];
                let c = match verdicts[pi * self.tuples.len() + ti] {
                    V::Sel(c) => c,
                    _ => unreachable!(),
                };
                let what = match other {
                    Ok(Err(e)) => format!("{:?}", e),
                    Err(p) => format!("panic {}", p.message),
                    Ok(Ok(_)) => unreachable!(),
                };
                acc.violation(Violation {
                    signature: format!("overload|witness-disagrees{}", env.sig_tag()),
                    detail: format!(
                        "the IR says the call resolves to {} but the same program with assert_type<R{}> is rejected ({}):\n{}",
                        sig_show(&self.set[c as usize]),
                        c,
                        what,
                        program_text(env.form, self.set, &self.perms[pi], args, Some(c))
                    ),
                    replay: case_replay_in(env.form, env.gaps, self.set, args),
                });
            }
        }
    }
}

// ---------------------------------------------------------------------------------------------
// the documented priority of one conversion (reference model for "converts better")

/// Source kind of an argument for the documented table: 0..6 = bool,int,uint,half,float,double, 6 = untyped int
/// literal; the untyped float literal has no row in the documented table.
fn doc_src(a: A) -> Option<(usize, u8)> {
    match a {
        A_LIT_INT => Some((6, 1)),
        A_LIT_FLOAT => None,
        a => {
            let t = a_ty(a).unwrap();
            Some(((t / 4) as usize, DIMS[(t % 4) as usize]))
        }
    }
}

fn doc_src_show(a: A) -> String {
    match doc_src(a) {
        Some((6, _)) => "int-literal".to_string(),
        Some((s, _)) => SC[s].to_string(),
        None => "float-literal".to_string(),
    }
}

/// The "Overload priority" table at the top of typer/src/casting.rs, transcribed row by row: the position of the
/// group that contains `dst` in the row of `src` (0 = first choice).
///   bool                 bool     -> uint/int/half/float/double
///   int                  int      -> uint                  -> bool -> half/float/double
///   untyped int literal:             uint/int              -> bool -> half/float/double
///   uint                 uint     -> int                   -> bool -> half/float/double
///   half:                half     -> float    -> double            -> bool/int/uint
///   float:               float    -> double                        -> bool/int/uint/half
///   double:              double                                    -> bool/int/uint/float/half
fn doc_tier(src: usize, dst: usize) -> u8 {
    const B: usize = 0;
    const I: usize = 1;
    const U: usize = 2;
    const H: usize = 3;
    const F: usize = 4;
    const D: usize = 5;
    let rows: [&[&[usize]]; 7] = [
        &[&[B], &[U, I, H, F, D]],
        &[&[I], &[U], &[B], &[H, F, D]],
        &[&[U], &[I], &[B], &[H, F, D]],
        &[&[H], &[F], &[D], &[B, I, U]],
        &[&[F], &[D], &[B, I, U, H]],
        &[&[D], &[B, I, U, F, H]],
        &[&[U, I], &[B], &[H, F, D]],
    ];
    rows[src].iter().position(|g| g.contains(&dst)).unwrap() as u8
}

/// The VectorRank documented on the enum in casting.rs: 0 same dimension, 1 scalar expanded to a vector,
/// 2 later elements culled; None: no such conversion.
fn doc_vector_rank(from: u8, to: u8) -> Option<u8> {
    if from == to {
        Some(0)
    } else if from == 1 {
        Some(1)
    } else if to < from {
        Some(2)
    } else {
        None
    }
}

/// documented quality of converting argument `a` to the `in` parameter `p`: (numeric priority, vector rank), smaller is better
fn doc_key(a: A, p: P) -> Option<(u8, u8)> {
    if p_out(p) {
        return None;
    }
    let (src, from) = doc_src(a)?;
    let t = p_ty(p);
    let v = doc_vector_rank(from, DIMS[(t % 4) as usize])?;
    Some((doc_tier(src, (t / 4) as usize), v))
}

/// The verdict of a one-parameter call by the documented priority: among the candidates that are viable (measured on
/// single candidates, not modelled) the one with the best numeric priority, ties broken by the vector rank, is
/// selected; several equally good ones are ambiguous. None: outside the documented table.
fn doc_model(base: &Base, set: &[Sig], a: A) -> Option<V> {
    let mut best: Option<(u8, u8)> = None;
    let mut winners: Vec<u8> = Vec::new();
    for (ci, c) in set.iter().enumerate() {
        if c.len() != 1 || p_out(c[0]) {
            return None;
        }
        if !base.viable(a, c[0])? {
            continue;
        }
        let k = doc_key(a, c[0])?;
        match best {
            Some(b) if k > b => {}
            Some(b) if k == b => winners.push(ci as u8),
            _ => {
                best = Some(k);
                winners = vec![ci as u8];
            }
        }
    }
    Some(match winners.len() {
        0 => V::NoMatch,
        1 => V::Sel(winners[0]),
        _ => V::Amb,
    })
}

/// candidates whose parameter types equal the argument types exactly (and whose in/out fits the value category)
fn exact_candidates(set: &[Sig], args: &[A]) -> Vec<usize> {
    let mut out = Vec::new();
    'c: for (ci, c) in set.iter().enumerate() {
        if c.len() != args.len() {
            continue;
        }
        for (p, a) in c.iter().zip(args) {
            match a_ty(*a) {
                Some(t) if t == p_ty(*p) && (!p_out(*p) || a_lvalue(*a)) => {}
                _ => continue 'c,
            }
        }
        out.push(ci);
    }
    out
}

/// Explore one candidate set: every argument tuple × every declaration order; apply the oracles.
/// Returns the verdicts of the identity permutation.
fn process_set(env: &Env, set: &[Sig], tuples: &[Vec<A>], acc: &mut Acc) -> Vec<V> {
    let perms = layouts_of(set.len(), env.gaps);
    let nt = tuples.len();
    // the number of arguments of the calls (= the number of parameters of every candidate, except in the mixed-arity sets)
    let nparams = tuples.first().map(|t| t.len()).unwrap_or(set[0].len());
    let mixed_arity = set.iter().any(|c| c.len() != set[0].len());
    let tag = if mixed_arity { format!("|mixed-arity{}", env.sig_tag()) } else { env.sig_tag() };
    // findings keep the example with the lowest index per signature: rank simpler sets first across all spaces
    acc.cur_index = ((((env.form.rank() * 2 + env.gaps as usize) * 64 + nparams * 8 + set.len()) as u64) << 40) | (acc.cur_index & ((1 << 40) - 1));
    let rs = Resolver { set, perms: &perms, tuples };
    let mut verdicts = vec![V::Bad; perms.len() * nt];

    // identity permutation: expectation from the measured relation
    let mut batch: Vec<(usize, usize)> = Vec::new();
    let mut batched_sites: Vec<(usize, usize)> = Vec::new();
    for ti in 0..nt {
        if env.base.expect_accept(set, &tuples[ti], env.use_pref) {
            batch.push((0, ti));
        } else {
            rs.resolve(env, &[(0, ti)], &mut verdicts, acc);
        }
    }
    for chunk in batch.chunks(env.batch) {
        rs.resolve(env, chunk, &mut verdicts, acc);
    }
    batched_sites.extend(batch.iter().copied());
    // other permutations: expectation = verdict of the identity permutation
    batch.clear();
    for pi in 1..perms.len() {
        for ti in 0..nt {
            if let V::Sel(_) = verdicts[ti] {
                batch.push((pi, ti));
            } else {
                rs.resolve(env, &[(pi, ti)], &mut verdicts, acc);
            }
        }
    }
    for chunk in batch.chunks(env.batch) {
        rs.resolve(env, chunk, &mut verdicts, acc);
    }
    batched_sites.extend(batch.iter().copied());

    // the batching assumption (a site's verdict does not depend on unrelated declarations) is cross-checked
    if env.crosscheck > 0 {
        for (pi, ti) in &batched_sites {
            let h = hash_of(&(set, &tuples[*ti], *pi));
            if h % env.crosscheck == 0 {
                acc.count("type_checks");
                acc.count("batched_sites_rechecked_alone");
                let alone = observe_alone(env.form, set, &perms[*pi], &tuples[*ti], None).unwrap_or(V::Bad);
                let got = verdicts[pi * nt + ti];
                if alone != got && got != V::Bad {
                    acc.violation(Violation {
                        signature: format!("overload|verdict-depends-on-unrelated-declarations{}", tag),
                        detail: format!(
                            "set {} args {}: compiled alone the call {}, in a unit with other unrelated overload sets it {}",
                            set_show(set),
                            args_show(&tuples[*ti]),
                            v_show(alone, set),
                            v_show(got, set)
                        ),
                        replay: case_replay_in(env.form, env.gaps, set, &tuples[*ti]),
                    });
                }
            }
        }
    }

    // oracles
    let mut witness_sites: Vec<(usize, usize)> = Vec::new();
    for ti in 0..nt {
        let args = &tuples[ti];
        acc.evals += perms.len() as u64;
        let v0 = verdicts[ti];
        acc.count(match v0 {
            V::Sel(_) => "sites_selected",
            V::Amb => "sites_ambiguous",
            V::NoMatch => "sites_unmatched",
            V::Bad => "sites_bad",
        });
        // 1. order independence
        for pi in 1..perms.len() {
            let v = verdicts[pi * nt + ti];
            if v != v0 && v != V::Bad && v0 != V::Bad {
                let order = |p: &[u8]| layout_show(set, p);
                // both orders reject the call but one calls it ambiguous, the other unmatched: its own (narrower) class
                let class = if matches!(v, V::Amb | V::NoMatch) && matches!(v0, V::Amb | V::NoMatch) { "order-dependent-rejection-kind" } else { "order-dependent" };
                acc.violation(Violation {
                    signature: format!("overload|{}|{}-param{}", class, nparams, tag),
                    detail: format!(
                        "args ({}): declared as [{}] the call {}, declared as [{}] it {} — program (second order):\n{}",
                        args_show(args),
                        order(&perms[0]),
                        v_show(v0, set),
                        order(&perms[pi]),
                        v_show(v, set),
                        program_text(env.form, set, &perms[pi], args, None)
                    ),
                    replay: case_replay_in(env.form, env.gaps, set, args),
                });
                break;
            }
        }
        // 2. exact match
        let exact = exact_candidates(set, args);
        if exact.len() == 1 {
            acc.count("exact_match_cases");
            let e = exact[0] as u8;
            for pi in 0..perms.len() {
                let v = verdicts[pi * nt + ti];
                if v != V::Sel(e) && v != V::Bad {
                    acc.violation(Violation {
                        signature: format!("overload|exact-match-not-selected{}", tag),
                        detail: format!(
                            "args ({}): {} matches the argument types exactly but the call {} — program:\n{}",
                            args_show(args),
                            sig_show(&set[e as usize]),
                            v_show(v, set),
                            program_text(env.form, set, &perms[pi], args, Some(e))
                        ),
                        replay: case_replay_in(env.form, env.gaps, set, args),
                    });
                    break;
                }
            }
        } else if exact.len() > 1 {
            acc.count("exact_match_excluded_in_out_twins");
        }
        // 2b. documented priority (one parameter): the verdict is the one the documented priority table gives
        if env.doc && nparams == 1 {
            match doc_model(env.base, set, args[0]) {
                Some(expected) => {
                    acc.count("documented_priority_cases");
                    for pi in 0..perms.len() {
                        let v = verdicts[pi * nt + ti];
                        if v != expected && v != V::Bad && !(matches!(v, V::Sel(_)) && matches!(expected, V::Sel(_))) {
                            // the property only forbids selecting a dominated candidate: a call the compiler rejects as
                            // ambiguous / unmatched, or resolves where the table leaves two candidates incomparable, is a
                            // ranking the property leaves free; counted, not a violation
                            acc.count(match (v, expected) {
                                (V::Amb, _) => "documented_priority_deviation|rejected-as-ambiguous(informational)",
                                (V::NoMatch, _) => "documented_priority_deviation|rejected-as-unmatched(informational)",
                                _ => "documented_priority_deviation|resolved-where-the-table-is-incomparable(informational)",
                            });
                            break;
                        }
                        if v != expected && v != V::Bad {
                            // the selected candidate is dominated by the one the documented table ranks strictly better;
                            // the class is (source scalar kind, documented outcome): the table cell that is not honoured
                            let show = |v: V| match v {
                                V::Sel(c) => format!("selects {}", SC[(p_ty(set[c as usize][0]) / 4) as usize]),
                                V::Amb => "ambiguous".to_string(),
                                V::NoMatch => "unmatched".to_string(),
                                V::Bad => "bad".to_string(),
                            };
                            acc.violation(Violation {
                                signature: format!("overload|documented-priority|{}|expected {}{}", doc_src_show(args[0]), show(expected), tag),
                                detail: format!(
                                    "args ({}): by the priority table documented in typer/src/casting.rs (numeric priority, then same dimension < scalar expanded < vector truncated) the call {}, but it {} — program:\n{}",
                                    args_show(args),
                                    v_show(expected, set),
                                    v_show(v, set),
                                    program_text(env.form, set, &perms[pi], args, None)
                                ),
                                replay: case_replay_in(env.form, env.gaps, set, args),
                            });
                            break;
                        }
                    }
                }
                None => acc.count("documented_priority_not_applicable"),
            }
        }
        // 3. non-domination (for every distinct selected candidate over the permutations)
        let mut seen: Vec<u8> = Vec::new();
        let mut any_viable = false;
        let mut viability_known = true;
        for c in set {
            match env.base.cand_viable(c, args) {
                Some(true) => any_viable = true,
                Some(false) => {}
                None => viability_known = false,
            }
        }
        for pi in 0..perms.len() {
            let c = match verdicts[pi * nt + ti] {
                V::Sel(c) => c,
                _ => continue,
            };
            if seen.contains(&c) {
                continue;
            }
            seen.push(c);
            let cs = &set[c as usize];
            if set.len() > 1 || nparams > 1 {
                if env.base.cand_viable(cs, args) == Some(false) {
                    acc.violation(Violation {
                        signature: format!("overload|axiom|selected-not-viable-alone{}", tag),
                        detail: format!(
                            "args ({}): set [{}] selects {} although some argument is rejected by a single candidate with that parameter type",
                            args_show(args),
                            set_show(set),
                            sig_show(cs)
                        ),
                        replay: case_replay_in(env.form, env.gaps, set, args),
                    });
                }
            }
            for (di, d) in set.iter().enumerate() {
                // the pairs of one-parameter candidates *define* the relation
                if !env.use_pref || cs.len() != args.len() {
                    break;
                }
                if di == c as usize || env.base.cand_viable(d, args) != Some(true) {
                    continue;
                }
                match env.base.dominates(d, cs, args) {
                    Some(true) => {
                        acc.violation(Violation {
                            signature: format!("overload|dominated-selected{}", tag),
                            detail: format!(
                                "args ({}): the call selects {} although the viable candidate {} converts no argument worse and at least one better (by the compiler's own one-parameter choices) — program:\n{}",
                                args_show(args),
                                sig_show(cs),
                                sig_show(d),
                                program_text(env.form, set, &perms[pi], args, Some(c))
                            ),
                            replay: case_replay_in(env.form, env.gaps, set, args),
                        });
                    }
                    Some(_) => acc.count("domination_comparisons"),
                    None => acc.count("domination_comparisons_skipped_relation_unknown"),
                }
            }
        }
        // informational: rejected although viable candidates exist / although one candidate dominates all others
        if env.use_pref && viability_known && matches!(v0, V::Amb | V::NoMatch) && any_viable {
            if v0 == V::NoMatch {
                acc.count("info_unmatched_although_viable_candidates_exist");
            }
            let viable: Vec<&Sig> = set.iter().filter(|c| env.base.cand_viable(c, args) == Some(true)).collect();
            // non-vacuity of the mixed-viability spaces: a rejected call with several viable candidates next to at least
            // one candidate that can not take the arguments (its position in the order must not matter)
            if viable.len() > 1 && viable.len() < set.len() {
                acc.count(if v0 == V::NoMatch { "info_unmatched_with_several_viable_and_some_non_viable_candidates" } else { "info_ambiguous_with_several_viable_and_some_non_viable_candidates" });
            }
            if viable.len() > 1 && viable.iter().any(|c| viable.iter().all(|d| std::ptr::eq(*d, *c) || env.base.dominates(c, d, args) == Some(true))) {
                acc.count("info_rejected_although_one_candidate_dominates_all");
            }
        }
        if let V::Sel(c) = v0 {
            if env.form == Form::Free && !env.gaps {
                acc.outcome(&(args, &set[c as usize]));
            } else {
                acc.outcome(&(env.form, env.gaps, args, &set[c as usize]));
            }
        }
        if env.witness {
            for pi in 0..perms.len() {
                if let V::Sel(_) = verdicts[pi * nt + ti] {
                    witness_sites.push((pi, ti));
                }
            }
        }
    }
    if env.witness && !witness_sites.is_empty() {
        for chunk in witness_sites.chunks(env.batch) {
            rs.witness(env, chunk, &verdicts, acc);
        }
        // non-vacuity of the witness: asserting another candidate's return type must fail with AssertTypeFailed
        if set.len() > 1 {
            let (pi, ti) = witness_sites[0];
            let c = match verdicts[pi * nt + ti] {
                V::Sel(c) => c,
                _ => unreachable!(),
            };
            let wrong = (c + 1) % set.len() as u8;
            let src = program_text(env.form, set, &perms[pi], &tuples[ti], Some(wrong));
            acc.count("type_checks");
            match type_check_unit(&src) {
                Ok(Err(UnitErr::Other(name, _))) if name == "AssertTypeFailed" => acc.count("witness_wrong_type_rejected"),
                other => {
                    let what = match other {
                        Ok(Ok(_)) => "accepted".to_string(),
                        Ok(Err(e)) => format!("{:?}", e),
                        Err(p) => format!("panic {}", p.message),
                    };
                    acc.violation(Violation {
                        signature: format!("overload|witness-vacuous{}", tag),
                        detail: format!("assert_type with the return type of a candidate that was not selected did not fail with AssertTypeFailed ({}):\n{}", what, src),
                        replay: case_replay_in(env.form, env.gaps, set, &tuples[ti]),
                    });
                }
            }
        }
    }
    let _ = env.space;
    verdicts.truncate(nt);
    verdicts
}

// ---------------------------------------------------------------------------------------------
// phase 1c: dimensions of the ARGUMENT EXPRESSION and of the DECLARATION that the alphabets above do not have
//
// The statement says the verdict of a call "depends only on the set of visible candidates and the argument types".
// The spaces above write every argument in exactly one way (`0`, `0.0`, a local variable, a call of a helper) and
// declare every candidate in exactly one way (one definition). Three seeded changes that were missed showed what that
// leaves out; each became a dimension that is enumerated completely within a stated bound:
//   * literal spelling: an untyped integer literal is an untyped integer literal whatever its radix and value (rssl's
//     lexer gives every unsuffixed integer literal the token LiteralInt, every `u`-suffixed one LiteralIntUnsigned32,
//     ..): all spellings of one literal class must give the verdict of the simplest spelling of that class;
//   * swizzle arguments: `v.<swizzle>` for every swizzle of length 1-4 is an argument of type <kind><length>, an
//     l-value when `v` is one and no component is named twice, a value otherwise (documented on
//     ir::get_swizzle_value_type): the verdict must be the one of a plain variable / helper call of that type;
//   * prototypes and trailing default parameters: a candidate is visible from its first declaration on, whether that
//     is a prototype or a definition; the verdict of a call must be the same for every declaration style of every
//     candidate (definition only; prototype + definition, the default value on the prototype or on both), every
//     interleaving of the declarations and every position of the call after which all candidates are visible.

#[derive(Clone, PartialEq, Eq, Debug, Hash)]
enum XV {
    Sel(Sig),
    Amb,
    NoMatch,
}

fn xv_show(v: &XV) -> String {
    match v {
        XV::Sel(s) => format!("selects {}", sig_show(s)),
        XV::Amb => "is rejected as ambiguous".to_string(),
        XV::NoMatch => "is rejected as unmatched".to_string(),
    }
}

/// Err = (signature class, text)
type XR = Result<XV, (String, String)>;

/// Observe the sites `sites` (indices into `out`): `mk(site, k)` is the text of site `site` using the private names
/// `f<k>` (overload set) and `t<k>` (test function whose last statement is the call). One unit, bisected on failure.
fn resolve_texts(prefix: &str, mk: &dyn Fn(usize, usize) -> String, sites: &[usize], out: &mut [Option<XR>], acc: &mut Acc) {
    if sites.is_empty() {
        return;
    }
    let mut src = prefix.to_string();
    for (k, s) in sites.iter().enumerate() {
        src.push_str(&mk(*s, k));
    }
    acc.count("type_checks");
    match type_check_unit(&src) {
        Ok(Ok(m)) => {
            let callee_of: Vec<usize> = (0..sites.len()).collect();
            for (s, call) in sites.iter().zip(read_unit(&m, Form::Free, &callee_of)) {
                out[*s] = Some(match call {
                    Ok(sig) => Ok(XV::Sel(sig)),
                    Err(t) => Err(("overload|ir-shape".to_string(), t)),
                });
            }
        }
        other => {
            if sites.len() > 1 {
                let mid = sites.len() / 2;
                resolve_texts(prefix, mk, &sites[..mid], out, acc);
                resolve_texts(prefix, mk, &sites[mid..], out, acc);
                return;
            }
            out[sites[0]] = Some(match other {
                Ok(Err(UnitErr::Ambiguous)) => Ok(XV::Amb),
                Ok(Err(UnitErr::NoMatch)) => Ok(XV::NoMatch),
                Ok(Err(UnitErr::Other(name, text))) => Err((format!("overload|unexpected-error|{}", name), text)),
                Err(p) => Err((p.signature(), format!("type_check panicked: {}", p.message))),
                Ok(Ok(_)) => unreachable!(),
            });
        }
    }
}

/// resolve `all` sites: the reference site first and alone; when it is accepted the others are batched, else each alone
fn resolve_with_reference(prefix: &str, mk: &dyn Fn(usize, usize) -> String, n: usize, expect_accept: Option<bool>, acc: &mut Acc) -> Vec<Option<XR>> {
    let mut out: Vec<Option<XR>> = vec![None; n];
    if n == 0 {
        return out;
    }
    let (first, accept) = match expect_accept {
        Some(a) => (0, a),
        None => {
            resolve_texts(prefix, mk, &[0], &mut out, acc);
            (1, matches!(out[0], Some(Ok(XV::Sel(_)))))
        }
    };
    let rest: Vec<usize> = (first..n).collect();
    if accept {
        for chunk in rest.chunks(64) {
            resolve_texts(prefix, mk, chunk, &mut out, acc);
        }
    } else {
        for s in rest {
            resolve_texts(prefix, mk, &[s], &mut out, acc);
        }
    }
    out
}

fn cands_text(set: &[Sig]) -> String {
    set.iter().map(|s| s.iter().map(|p| p_show(*p)).collect::<Vec<_>>().join(",")).collect::<Vec<_>>().join(" | ")
}

fn parse_cands(c: &str) -> Option<Vec<Sig>> {
    c.split('|').map(|cand| cand.split(',').map(parse_param).collect::<Option<Sig>>()).collect()
}

// ---- literal spellings

struct LitClass {
    name: &'static str,
    /// simplest first; the first spelling is the reference
    spellings: Vec<String>,
}

/// Integer values: 0, and 2^k - 1, 2^k, 2^k + 1 around every bit position k = 1..=32 (every value up to 9, then every
/// power-of-two boundary up to the 33-bit value 2^32 + 1). Radices: decimal, hexadecimal, octal (quick: hexadecimal for
/// all values, decimal and octal for the boundaries k = 31, 32). Float literals: a handful of mantissa / exponent forms.
fn lit_classes(full: bool) -> Vec<LitClass> {
    let mut values: Vec<(u64, bool)> = vec![(0, true)];
    for k in 1..=32u32 {
        for v in [(1u64 << k) - 1, 1u64 << k, (1u64 << k) + 1] {
            if !values.iter().any(|(x, _)| *x == v) {
                values.push((v, k >= 31));
            }
        }
    }
    values.sort();
    let spell = |suffix: &str, max: u64| -> Vec<String> {
        let mut out: Vec<String> = Vec::new();
        for (v, boundary) in &values {
            if *v > max {
                continue;
            }
            if full || *boundary {
                out.push(format!("{}{}", v, suffix));
            }
            if *v > 0 {
                out.push(format!("0x{:X}{}", v, suffix));
                if full || *boundary {
                    out.push(format!("0{:o}{}", v, suffix));
                }
            }
        }
        out
    };
    let strs = |v: &[&str]| -> Vec<String> { v.iter().map(|s| s.to_string()).collect() };
    vec![
        LitClass { name: "int-unsuffixed", spellings: spell("", u64::MAX) },
        LitClass { name: "int-u-suffix", spellings: spell("u", u32::MAX as u64) },
        LitClass { name: "float-unsuffixed", spellings: strs(&["0.0", "1.0", "0.5", "1e0", "1.5e10", "2.5e-3"]) },
        LitClass { name: "float-f-suffix", spellings: strs(&["0.0f", "1.0f", "0.5f", "1e0f", "1.5e10f", "2.5e-3f"]) },
    ]
}

/// one candidate set × every spelling of one literal class × every declaration order: one verdict
fn check_spellings(set: &[Sig], class: &LitClass, acc: &mut Acc) {
    let perms = perms_of(set.len());
    let np = perms.len();
    let n = class.spellings.len() * np;
    let mk = |site: usize, k: usize| -> String {
        let mut s = String::new();
        emit_decls(&mut s, k, set, &perms[site % np], false, None);
        s.push_str(&format!("void t{}() {{ f{}({}); }}\n", k, k, class.spellings[site / np]));
        s
    };
    let out = resolve_with_reference("", &mk, n, None, acc);
    acc.evals += n as u64;
    let replay = format!("kind: spelling\nclass: {}\ncands: {}\n", class.name, cands_text(set));
    let reference = match &out[0] {
        Some(Ok(v)) => v.clone(),
        Some(Err((sig, text))) => {
            acc.violation(Violation { signature: format!("{}|literal-spelling", sig), detail: format!("{} — program:\n{}", text, mk(0, 0)), replay });
            return;
        }
        None => return,
    };
    acc.count(match reference {
        XV::Sel(_) => "sites_selected",
        XV::Amb => "sites_ambiguous",
        XV::NoMatch => "sites_unmatched",
    });
    if let XV::Sel(sig) = &reference {
        acc.outcome(&("literal-class", class.name, sig));
    }
    for site in 1..n {
        match &out[site] {
            Some(Ok(v)) if *v == reference => {}
            Some(Ok(v)) => {
                acc.violation(Violation {
                    signature: format!("overload|literal-spelling-dependent|{}", class.name),
                    detail: format!(
                        "candidates [{}]: with the {} literal spelled `{}` the call {}, spelled `{}` (declared as [{}]) it {} — both are literals of the same type; program:\n{}",
                        set_show(set),
                        class.name,
                        class.spellings[0],
                        xv_show(&reference),
                        class.spellings[site / np],
                        layout_show(set, &perms[site % np]),
                        xv_show(v),
                        mk(site, 0)
                    ),
                    replay,
                });
                return;
            }
            Some(Err((sig, text))) => {
                acc.violation(Violation { signature: format!("{}|literal-spelling", sig), detail: format!("{} — program:\n{}", text, mk(site, 0)), replay });
                return;
            }
            None => {}
        }
    }
}

// ---- swizzle arguments

/// all words of length `len` over the first `dim` letters of xyzw, lexicographic
fn swizzles(dim: u8, len: usize) -> Vec<String> {
    let letters = ['x', 'y', 'z', 'w'];
    let mut out = Vec::new();
    let total = (dim as u64).pow(len as u32);
    let mut d = Vec::new();
    for idx in 0..total {
        crate::util::decode(idx, &vec![dim as u64; len], &mut d);
        // decode is little-endian or big-endian: either way every word appears once
        out.push(d.iter().map(|i| letters[*i as usize]).collect());
    }
    out
}

fn has_repeat(swz: &str) -> bool {
    let b = swz.as_bytes();
    (0..b.len()).any(|i| (0..i).any(|j| b[i] == b[j]))
}

/// verdict of a one-parameter set of 1 or 2 candidates for the plain argument `a`, from the measured tables
fn plain_reference(base: &Base, set: &[Sig], a: A) -> Option<XV> {
    match set.len() {
        1 => base.viable(a, set[0][0]).map(|v| if v { XV::Sel(set[0].clone()) } else { XV::NoMatch }),
        2 => {
            let (x, y) = (set[0][0], set[1][0]);
            let (lo, hi) = if x < y { (x, y) } else { (y, x) };
            match base.pref_entry(a, lo, hi) {
                E_FIRST => Some(XV::Sel(vec![lo])),
                E_SECOND => Some(XV::Sel(vec![hi])),
                E_AMB => Some(XV::Amb),
                E_NOMATCH => Some(XV::NoMatch),
                _ => None,
            }
        }
        _ => None,
    }
}

/// the parameter alphabet used with swizzles of length `len` of a vector of scalar kind `kind`: that kind and one
/// other kind (float for the integer kinds and bool, int for the floating kinds) × widths {len, len-1} × {in, out}
fn swizzle_param_alphabet(kind: usize, len: usize) -> Vec<P> {
    let other = if kind >= 3 { 1 } else { 4 };
    let mut dims = vec![len as u8];
    if len > 1 {
        dims.push(len as u8 - 1);
    }
    let mut out = Vec::new();
    for k in [kind, other] {
        for d in &dims {
            out.push(p_code(ty_of(k, *d), false));
            out.push(p_code(ty_of(k, *d), true));
        }
    }
    out.sort();
    out
}

/// One one-parameter candidate set (1 or 2 candidates) × every swizzle of length `len` of a `kind``dim` vector (a local
/// variable when `lbase`, else the result of a helper call) × every declaration order: the verdict of the plain
/// argument of the same type and value category.
fn check_swizzles(base: &Base, set: &[Sig], kind: usize, dim: u8, lbase: bool, len: usize, acc: &mut Acc) {
    let vec_ty = ty_of(kind, dim);
    let res_ty = ty_of(kind, len as u8);
    let swzs = swizzles(dim, len);
    let perms = perms_of(set.len());
    let np = perms.len();
    for repeated in [false, true] {
        let group: Vec<&String> = swzs.iter().filter(|s| has_repeat(s) == repeated).collect();
        if group.is_empty() {
            continue;
        }
        let a: A = if lbase && !repeated { res_ty } else { res_ty + 24 };
        let reference = match plain_reference(base, set, a) {
            Some(r) => r,
            None => {
                acc.count("swizzle_reference_unknown");
                continue;
            }
        };
        let n = group.len() * np;
        let mk = |site: usize, k: usize| -> String {
            let mut s = String::new();
            emit_decls(&mut s, k, set, &perms[site % np], false, None);
            if lbase {
                s.push_str(&format!("void t{}() {{ {} v; f{}(v.{}); }}\n", k, ty_name(vec_ty), k, group[site / np]));
            } else {
                s.push_str(&format!("void t{}() {{ f{}(r_{}().{}); }}\n", k, k, ty_name(vec_ty), group[site / np]));
            }
            s
        };
        let prefix = if lbase { String::new() } else { unit_prefix(1 << vec_ty, 0) };
        let out = resolve_with_reference(&prefix, &mk, n, Some(matches!(reference, XV::Sel(_))), acc);
        acc.evals += n as u64;
        acc.count(match reference {
            XV::Sel(_) => "sites_selected",
            XV::Amb => "sites_ambiguous",
            XV::NoMatch => "sites_unmatched",
        });
        if let XV::Sel(sig) = &reference {
            acc.outcome(&("swizzle", lbase, repeated, res_ty, sig));
        }
        let replay = format!("kind: swizzle\nbase: {}:{}\nlen: {}\ncands: {}\n", if lbase { "L" } else { "R" }, ty_name(vec_ty), len, cands_text(set));
        let class = format!("{}|{}", if lbase { "variable" } else { "value" }, if repeated { "repeated-component" } else { "distinct-components" });
        for site in 0..n {
            match &out[site] {
                Some(Ok(v)) if *v == reference => {}
                Some(Ok(v)) => {
                    acc.violation(Violation {
                        signature: format!("overload|swizzle-argument-differs-from-plain|{}", class),
                        detail: format!(
                            "candidates [{}]: the argument {} (a plain {} of type {}): the call {}; the swizzle `{}.{}` has the same type and value category but the call (declared as [{}]) {} — program:\n{}",
                            set_show(set),
                            a_show(a),
                            if a_lvalue(a) { "variable" } else { "value" },
                            ty_name(res_ty),
                            xv_show(&reference),
                            if lbase { "v" } else { "r()" },
                            group[site / np],
                            layout_show(set, &perms[site % np]),
                            xv_show(v),
                            format!("{}{}", prefix, mk(site, 0))
                        ),
                        replay: replay.clone(),
                    });
                    break;
                }
                Some(Err((sig, text))) => {
                    acc.violation(Violation { signature: format!("{}|swizzle-argument", sig), detail: format!("{} — program:\n{}{}", text, prefix, mk(site, 0)), replay: replay.clone() });
                    break;
                }
                None => {}
            }
        }
    }
}

// ---- prototypes and trailing default parameters

/// a candidate with `in` parameters whose last parameter may have a default value
#[derive(Clone, PartialEq, Eq, Debug, Hash)]
struct DC {
    params: Sig,
    default_last: bool,
}

/// how one candidate is declared
#[derive(Copy, Clone, PartialEq, Eq, Debug)]
enum Style {
    /// one definition (carrying the default value)
    Def,
    /// prototype (carrying the default value), later the definition without it
    ProtoDef,
    /// prototype and definition both carry the default value (only for candidates with one)
    ProtoDefBoth,
}

#[derive(Copy, Clone, PartialEq, Eq, Debug)]
enum Item {
    Proto(usize),
    Def(usize),
}

fn dc_show(c: &DC) -> String {
    let n = c.params.len();
    format!("f({})", c.params.iter().enumerate().map(|(i, p)| format!("{}{}", p_show(*p), if c.default_last && i + 1 == n { " = <default>" } else { "" })).collect::<Vec<_>>().join(", "))
}

fn dcs_text(set: &[DC]) -> String {
    set.iter().map(|c| format!("{}{}", c.params.iter().map(|p| p_show(*p)).collect::<Vec<_>>().join(","), if c.default_last { "=" } else { "" })).collect::<Vec<_>>().join(" | ")
}

fn parse_dcs(c: &str) -> Option<Vec<DC>> {
    c.split('|')
        .map(|cand| {
            let cand = cand.trim();
            let (body, d) = match cand.strip_suffix('=') {
                Some(b) => (b, true),
                None => (cand, false),
            };
            body.split(',').map(parse_param).collect::<Option<Sig>>().map(|params| DC { params, default_last: d })
        })
        .collect()
}

fn emit_item(s: &mut String, set: &[DC], styles: &[Style], item: Item) {
    let (ci, is_def) = match item {
        Item::Proto(c) => (c, false),
        Item::Def(c) => (c, true),
    };
    let c = &set[ci];
    let with_default = c.default_last && (!is_def || styles[ci] != Style::ProtoDef);
    s.push_str("void f0(");
    let n = c.params.len();
    for (i, p) in c.params.iter().enumerate() {
        if i > 0 {
            s.push_str(", ");
        }
        s.push_str(&format!("{} p{}", p_show(*p), i));
        if with_default && i + 1 == n {
            // a typed literal of the parameter's scalar kind
            s.push_str(match p_ty(*p) / 4 {
                0 => " = true",
                1 => " = 1",
                2 => " = 1u",
                3 => " = 1.0h",
                4 => " = 1.0f",
                _ => " = 1.0L",
            });
        }
    }
    s.push_str(if is_def { ") {}\n" } else { ");\n" });
}

fn items_show(set: &[DC], styles: &[Style], items: &[Item], pos: usize) -> String {
    let mut parts: Vec<String> = Vec::new();
    for (i, it) in items.iter().enumerate() {
        let mut s = String::new();
        emit_item(&mut s, set, styles, *it);
        parts.push(s.trim().replace("void f0", "f").replace(" {}", " {..}"));
        if i == pos {
            parts.push("<CALL>".to_string());
        }
    }
    parts.join(" ")
}

/// One candidate set × every declaration style of every candidate × every interleaving of the declarations × every
/// call position after which all candidates are visible × every argument tuple: one verdict per argument tuple.
fn check_protos(set: &[DC], tuples: &[Vec<A>], acc: &mut Acc) {
    let n = set.len();
    let any_default = set.iter().any(|c| c.default_last);
    let replay = format!("kind: proto\ncands: {}\n", dcs_text(set));
    // style combinations, all-Def first
    let mut combos: Vec<Vec<Style>> = vec![Vec::new()];
    for c in set {
        let opts: &[Style] = if c.default_last { &[Style::Def, Style::ProtoDef, Style::ProtoDefBoth] } else { &[Style::Def, Style::ProtoDef] };
        combos = combos.iter().flat_map(|pre| opts.iter().map(move |o| pre.iter().copied().chain([*o]).collect::<Vec<_>>())).collect();
    }
    let mut reference: Vec<Option<(XV, String)>> = vec![None; tuples.len()];
    let mut reported = vec![false; tuples.len()];
    let prefix = unit_prefix(tuples.iter().flatten().filter(|a| (24..48).contains(*a)).fold(0u32, |m, a| m | 1 << (*a - 24)), 0);
    for styles in &combos {
        let mut items: Vec<Item> = Vec::new();
        for (ci, st) in styles.iter().enumerate() {
            if *st != Style::Def {
                items.push(Item::Proto(ci));
            }
            items.push(Item::Def(ci));
        }
        for perm in perms_of(items.len()) {
            let order: Vec<Item> = perm.iter().map(|i| items[*i as usize]).collect();
            // a prototype precedes the definition of its candidate
            let pos_of = |it: Item| order.iter().position(|x| *x == it).unwrap();
            if (0..n).any(|c| styles[c] != Style::Def && pos_of(Item::Proto(c)) > pos_of(Item::Def(c))) {
                continue;
            }
            // call positions: after item `pos`, when every candidate has been declared
            let first_all_visible = (0..n)
                .map(|c| order.iter().position(|x| matches!(x, Item::Proto(k) | Item::Def(k) if *k == c)).unwrap())
                .max()
                .unwrap();
            let positions: Vec<usize> = (first_all_visible..order.len()).collect();
            let nsites = positions.len() * tuples.len();
            let unit = |sites: &[usize]| -> String {
                let mut s = prefix.clone();
                for (i, it) in order.iter().enumerate() {
                    emit_item(&mut s, set, styles, *it);
                    for (k, site) in sites.iter().enumerate() {
                        if positions[site / tuples.len()] == i {
                            let mut helpers = 0u32;
                            // the callee is always f0: emit_test names it by its fourth argument
                            let mut t = String::new();
                            emit_test(&mut t, &mut helpers, Form::Free, k, 0, &tuples[site % tuples.len()], None);
                            s.push_str(&t);
                        }
                    }
                }
                s
            };
            let mut out: Vec<Option<XR>> = vec![None; nsites];
            // sites whose reference verdict is a rejection are compiled alone, the others share the declarations
            let mut batch: Vec<usize> = Vec::new();
            let mut alone: Vec<usize> = Vec::new();
            for site in 0..nsites {
                match &reference[site % tuples.len()] {
                    Some((XV::Sel(_), _)) => batch.push(site),
                    _ => alone.push(site),
                }
            }
            resolve_proto_sites(&unit, &batch, &mut out, acc);
            for s in alone {
                resolve_proto_sites(&unit, &[s], &mut out, acc);
            }
            acc.evals += nsites as u64;
            for site in 0..nsites {
                let ti = site % tuples.len();
                let pos = positions[site / tuples.len()];
                let args = &tuples[ti];
                let here = || items_show(set, styles, &order, pos);
                match &out[site] {
                    Some(Ok(v)) => {
                        // exact match: the unique candidate with exactly the argument types
                        if !reported[ti] {
                            let exact: Vec<&DC> = set.iter().filter(|c| c.params.len() == args.len() && c.params.iter().zip(args).all(|(p, a)| a_ty(*a) == Some(p_ty(*p)))).collect();
                            // a longer candidate whose leading parameters equal the argument types and whose remaining parameter is
                            // defaulted matches "exactly" as well in one reading: that corner is left out of the exact-match oracle
                            let twin = set.iter().any(|c| c.default_last && c.params.len() == args.len() + 1 && c.params.iter().zip(args).all(|(p, a)| a_ty(*a) == Some(p_ty(*p))));
                            if exact.len() == 1 && twin {
                                acc.count("exact_match_excluded_default_twin");
                            }
                            if exact.len() == 1 && !twin && *v != XV::Sel(exact[0].params.clone()) {
                                reported[ti] = true;
                                acc.violation(Violation {
                                    signature: "overload|exact-match-not-selected|prototype-or-default".into(),
                                    detail: format!("args ({}): {} matches the argument types exactly but declared as [{}] the call {} — program:\n{}", args_show(args), dc_show(exact[0]), here(), xv_show(v), unit(&[site])),
                                    replay: replay.clone(),
                                });
                                continue;
                            }
                        }
                        match &reference[ti] {
                            None => {
                                acc.count(match v {
                                    XV::Sel(_) => "sites_selected",
                                    XV::Amb => "sites_ambiguous",
                                    XV::NoMatch => "sites_unmatched",
                                });
                                if let XV::Sel(sig) = v {
                                    acc.outcome(&("proto", any_default, args, sig));
                                }
                                reference[ti] = Some((v.clone(), here()));
                            }
                            Some((r, _)) if r == v => {}
                            Some((r, rhere)) => {
                                if !reported[ti] {
                                    reported[ti] = true;
                                    acc.violation(Violation {
                                        signature: format!("overload|declaration-placement-dependent|{}", if any_default { "default-parameter" } else { "no-default-parameter" }),
                                        detail: format!(
                                            "candidates [{}], args ({}): declared as [{}] the call {}, declared as [{}] it {} — the same candidates are visible at both calls; program (second):\n{}",
                                            set.iter().map(dc_show).collect::<Vec<_>>().join(" "),
                                            args_show(args),
                                            rhere,
                                            xv_show(r),
                                            here(),
                                            xv_show(v),
                                            unit(&[site])
                                        ),
                                        replay: replay.clone(),
                                    });
                                }
                            }
                        }
                    }
                    Some(Err((sig, text))) => {
                        if !reported[ti] {
                            reported[ti] = true;
                            acc.violation(Violation { signature: format!("{}|prototype-or-default", sig), detail: format!("{} — program:\n{}", text, unit(&[site])), replay: replay.clone() });
                        }
                    }
                    None => {}
                }
            }
        }
    }
}

fn resolve_proto_sites(unit: &dyn Fn(&[usize]) -> String, sites: &[usize], out: &mut [Option<XR>], acc: &mut Acc) {
    if sites.is_empty() {
        return;
    }
    let src = unit(sites);
    acc.count("type_checks");
    match type_check_unit(&src) {
        Ok(Ok(m)) => {
            let callee_of = vec![0usize; sites.len()];
            for (s, call) in sites.iter().zip(read_unit(&m, Form::Free, &callee_of)) {
                out[*s] = Some(match call {
                    Ok(sig) => Ok(XV::Sel(sig)),
                    Err(t) => Err(("overload|ir-shape".to_string(), t)),
                });
            }
        }
        other => {
            if sites.len() > 1 {
                let mid = sites.len() / 2;
                resolve_proto_sites(unit, &sites[..mid], out, acc);
                resolve_proto_sites(unit, &sites[mid..], out, acc);
                return;
            }
            out[sites[0]] = Some(match other {
                Ok(Err(UnitErr::Ambiguous)) => Ok(XV::Amb),
                Ok(Err(UnitErr::NoMatch)) => Ok(XV::NoMatch),
                Ok(Err(UnitErr::Other(name, text))) => Err((format!("overload|unexpected-error|{}", name), text)),
                Err(p) => Err((p.signature(), format!("type_check panicked: {}", p.message))),
                Ok(Ok(_)) => unreachable!(),
            });
        }
    }
}

/// the candidate shapes of the prototype space: 1 and 2 `in` parameters over `kinds`, the last of two optionally defaulted
fn proto_shapes(kinds: &[usize]) -> Vec<DC> {
    let tys: Vec<P> = kinds.iter().map(|k| p_code(ty_of(*k, 1), false)).collect();
    let mut out: Vec<DC> = Vec::new();
    for s in sigs_over(&tys, 1) {
        out.push(DC { params: s, default_last: false });
    }
    for s in sigs_over(&tys, 2) {
        out.push(DC { params: s.clone(), default_last: false });
        out.push(DC { params: s, default_last: true });
    }
    out
}

fn proto_tuples(kinds: &[usize], rvalues: bool) -> Vec<Vec<A>> {
    let mut alpha: Vec<A> = kinds.iter().map(|k| ty_of(*k, 1)).collect();
    if rvalues {
        alpha.extend(kinds.iter().map(|k| ty_of(*k, 1) + 24));
        alpha.push(A_LIT_FLOAT);
    }
    alpha.push(A_LIT_INT);
    let mut t = tuples_over(&alpha, 1);
    t.extend(tuples_over(&alpha, 2));
    t
}

// ---------------------------------------------------------------------------------------------
// spaces

fn all_args_1p() -> Vec<Vec<A>> {
    (0..NA as u8).map(|a| vec![a]).collect()
}

fn tuples_over(alphabet: &[A], n: usize) -> Vec<Vec<A>> {
    let mut out = Vec::new();
    let k = alphabet.len() as u64;
    let total = k.pow(n as u32);
    let mut d = Vec::new();
    for idx in 0..total {
        crate::util::decode(idx, &vec![k; n], &mut d);
        out.push(d.iter().map(|i| alphabet[*i as usize]).collect());
    }
    out
}

fn sigs_over(types: &[P], n: usize) -> Vec<Sig> {
    tuples_over(types, n)
}

fn absorb(ctx: &Ctx, rep: &mut Report, name: &str, r: ParResult) {
    let tc = r.acc.counters.get("type_checks").copied().unwrap_or(0);
    eprintln!(
        "[C16] {:<24} items={:<7} sites={:<9} type_checks={:<8} sel={} amb={} unm={} t={:.1}s",
        name,
        r.total,
        r.acc.evals,
        tc,
        r.acc.counters.get("sites_selected").copied().unwrap_or(0),
        r.acc.counters.get("sites_ambiguous").copied().unwrap_or(0),
        r.acc.counters.get("sites_unmatched").copied().unwrap_or(0),
        ctx.start.elapsed().as_secs_f64()
    );
    rep.absorb(name, r);
}

pub fn run(ctx: &Ctx) -> i32 {
    let mut rep = Report::new("exploration");
    rep.rule = "one evaluation = one call site (candidate set in one declaration form and layout × one argument tuple) type-checked by the real rssl::typer::type_check; non-trivial = the call is accepted; distinct = different (declaration form, argument tuple, selected candidate's parameter types)".into();
    let base = Base::new(false);
    let probe_cpu = std::env::var("C16_PROBE").as_deref() == Ok("cpu");

    // ---- phase 0: single candidates, one parameter: viability s -> t
    let r = run_par(ctx, NP as u64, 1, |idx, acc| {
        let t = idx as P;
        let set = vec![vec![t]];
        for a in 0..NA as u8 {
            acc.evals += 1;
            acc.count("type_checks");
            let v = observe_alone(Form::Free, &set, &[0], &[a], None);
            let e = match v {
                Ok(V::Sel(_)) => 1,
                Ok(V::NoMatch) => 0,
                Ok(other) => {
                    acc.violation(Violation {
                        signature: "overload|axiom|single-candidate-ambiguous".into(),
                        detail: format!("a call with one candidate {} and argument {} {}", sig_show(&set[0]), a_show(a), v_show(other, &set)),
                        replay: case_replay(&set, &[a]),
                    });
                    E_BAD
                }
                Err(text) => {
                    let sig = if text.starts_with("panic|") { text.clone() } else { format!("overload|unexpected-error|{}", text.split(':').next().unwrap_or("")) };
                    acc.violation(Violation {
                        signature: sig,
                        detail: format!("{} — program:\n{}", text, program_text(Form::Free, &set, &[0], &[a], None)),
                        replay: case_replay(&set, &[a]),
                    });
                    E_BAD
                }
            };
            if e == 1 {
                acc.count("sites_selected");
                acc.outcome(&(&[a][..], &set[0]));
                // exact match with a single candidate
            } else if e == 0 {
                acc.count("sites_unmatched");
                if exact_candidates(&set, &[a]).len() == 1 {
                    acc.violation(Violation {
                        signature: "overload|exact-match-not-selected".into(),
                        detail: format!("argument {} is rejected by the only candidate {} although the types are equal", a_show(a), sig_show(&set[0])),
                        replay: case_replay(&set, &[a]),
                    });
                }
            }
            base.viable[a as usize * NP + t as usize].store(e, Ordering::Relaxed);
        }
    });
    // the documented-priority oracle takes viability from this table: it must be complete
    let doc = r.completed;
    absorb(ctx, &mut rep, "p1_single_candidates", r);

    // ---- phase 1: pairs of one-parameter candidates (all 48 parameter types incl. out) × 50 arguments × 2 orders
    let pairs: Vec<(P, P)> = (0..NP as u8).flat_map(|x| ((x + 1)..NP as u8).map(move |y| (x, y))).collect();
    let args1 = all_args_1p();
    let env1p = Env { base: &base, witness: true, space: "p1", batch: 128, crosscheck: 97, use_pref: false, probe_cpu, form: Form::Free, gaps: false, doc };
    let env1 = Env { base: &base, witness: true, space: "p1", batch: 128, crosscheck: 97, use_pref: true, probe_cpu, form: Form::Free, gaps: false, doc };
    let r = run_par(ctx, pairs.len() as u64, 4, |idx, acc| {
        let (x, y) = pairs[idx as usize];
        let set = vec![vec![x], vec![y]];
        let v = process_set(&env1p, &set, &args1, acc);
        for (a, v) in v.iter().enumerate() {
            let e = match v {
                V::Sel(0) => E_FIRST,
                V::Sel(_) => E_SECOND,
                V::Amb => E_AMB,
                V::NoMatch => E_NOMATCH,
                V::Bad => E_BAD,
            };
            base.pref[(a * NP + x as usize) * NP + y as usize].store(e, Ordering::Relaxed);
        }
        if idx % 293 == 0 {
            acc.sample(obj(vec![
                ("space", "1-parameter pairs".into()),
                ("set", set_show(&set).into()),
                ("verdicts", Json::Arr(v.iter().enumerate().step_by(7).map(|(a, v)| format!("{} {}", a_show(a as u8), v_show(*v, &set)).into()).collect())),
            ]));
        }
    });
    let pairs_done = r.completed;
    absorb(ctx, &mut rep, "p1_pairs", r);

    // ---- axioms of the measured relation
    if pairs_done {
        let mut acc = Acc::default();
        check_axioms(&base, &mut acc);
        rep.acc.merge(acc);
    }

    // ---- phase 1c: literal spellings, swizzle arguments, prototypes / default parameters (see the section above)
    {
        let in_ty = |k: usize, d: u8| -> Sig { vec![p_code(ty_of(k, d), false)] };
        // (a) literal spellings: every single `in` candidate over the 24 types and every pair over the 6 scalar kinds ×
        // widths {1, 2} (thorough: every pair over the 24 types) × 4 literal classes × every spelling × both orders
        let classes = lit_classes(!ctx.quick());
        let mut lit_sets: Vec<Vec<Sig>> = (0..NTY as u8).map(|t| vec![vec![p_code(t, false)]]).collect();
        let pair_types: Vec<Sig> = if ctx.quick() { (0..6).flat_map(|k| [in_ty(k, 1), in_ty(k, 2)]).collect() } else { (0..NTY as u8).map(|t| vec![p_code(t, false)]).collect() };
        for s in subsets(pair_types.len(), 2) {
            lit_sets.push(s.iter().map(|i| pair_types[*i].clone()).collect());
        }
        let r = run_par(ctx, (lit_sets.len() * classes.len()) as u64, 1, |idx, acc| {
            let set = &lit_sets[idx as usize / classes.len()];
            check_spellings(set, &classes[idx as usize % classes.len()], acc);
        });
        absorb(ctx, &mut rep, "p1_literal_spellings", r);
        rep.cov("literal_spellings", Json::Arr(classes.iter().map(|c| format!("{}: {} spellings ({} .. {})", c.name, c.spellings.len(), c.spellings[0], c.spellings[c.spellings.len() - 1]).into()).collect()));

        // (b) swizzle arguments: every swizzle of length 1-4 of a 4-vector (340; thorough: also of 2- and 3-vectors) of kind
        // float (thorough: int, uint, float, double), a local variable (thorough: also the result of a call) × every single
        // candidate and pair of candidates over the 8 parameter types of `swizzle_param_alphabet` × both orders
        let mut swz_items: Vec<(usize, u8, bool, usize, Vec<Sig>)> = Vec::new();
        for kind in ctx.pick(vec![4usize], vec![4usize, 1, 2, 5]) {
            for dim in ctx.pick(vec![4u8], vec![4u8, 3, 2]) {
                for lbase in ctx.pick(vec![true], vec![true, false]) {
                    for len in 1..=4usize {
                        let alpha = swizzle_param_alphabet(kind, len);
                        for p in &alpha {
                            swz_items.push((kind, dim, lbase, len, vec![vec![*p]]));
                        }
                        for s in subsets(alpha.len(), 2) {
                            swz_items.push((kind, dim, lbase, len, s.iter().map(|i| vec![alpha[*i]]).collect()));
                        }
                    }
                }
            }
        }
        if pairs_done {
            let r = run_par(ctx, swz_items.len() as u64, 1, |idx, acc| {
                let (kind, dim, lbase, len, set) = &swz_items[idx as usize];
                check_swizzles(&base, set, *kind, *dim, *lbase, *len, acc);
            });
            absorb(ctx, &mut rep, "p1_swizzle_arguments", r);
        }

        // (c) prototypes and trailing default parameters: every set of 1 and 2 candidates (thorough: also 3 over {int, float})
        // out of the shapes f(T), f(T, T), f(T, T = default) over {int, float} (thorough for 1-2 candidates: {int, float,
        // double}) × every declaration style × every interleaving × every call position × argument tuples of 1 and 2
        // l-values and the int literal (thorough, 1-2 candidates: also r-values and the float literal)
        let mut proto_sets: Vec<(Vec<DC>, usize)> = Vec::new();
        let families: Vec<(Vec<usize>, Vec<usize>)> = ctx.pick(vec![(vec![1usize, 4], vec![1usize, 2])], vec![(vec![1usize, 4, 5], vec![1usize, 2]), (vec![1usize, 4], vec![3usize])]);
        let proto_tuple_sets: Vec<Vec<Vec<A>>> = families.iter().map(|(kinds, sizes)| proto_tuples(kinds, !ctx.quick() && !sizes.contains(&3))).collect();
        for (fi, (kinds, sizes)) in families.iter().enumerate() {
            let shapes = proto_shapes(kinds);
            for k in sizes {
                for s in subsets(shapes.len(), *k) {
                    let set: Vec<DC> = s.iter().map(|i| shapes[*i].clone()).collect();
                    // two candidates with the same parameter types are one function
                    if (0..set.len()).any(|i| (0..i).any(|j| set[i].params == set[j].params)) {
                        continue;
                    }
                    proto_sets.push((set, fi));
                }
            }
        }
        let r = run_par(ctx, proto_sets.len() as u64, 1, |idx, acc| {
            let (set, fi) = &proto_sets[idx as usize];
            check_protos(set, &proto_tuple_sets[*fi], acc);
        });
        absorb(ctx, &mut rep, "prototype_default_sets", r);
    }

    // ---- phase 1b: sets of 3-5 MULTI-parameter candidates of MIXED VIABILITY. A candidate can fail to take the arguments
    // because of an `out` parameter (other type, r-value or literal argument), because a vector would have to be widened,
    // or because it has another number of parameters. Such a candidate must be invisible to the verdict wherever it is
    // declared - including to the KIND of a rejection: with two viable candidates that each convert one argument better
    // than the other there is no best candidate, and whether rssl calls that ambiguous or unmatched must not depend on
    // where the non-viable candidate sits in the declaration order. Added after a seeded change was missed that
    // re-classified the rejection from the viability of the LAST declared candidate only: all earlier multi-parameter
    // spaces had either only two candidates or only candidates that are viable for every argument tuple (scalar `in`
    // parameters) or candidates of one scalar kind (which are never incomparable). Needs only the measured one-parameter
    // relation; it runs before the large one-parameter spaces so that a wall-clock cap on a loaded machine does not cut it.
    {
        let envm = Env { base: &base, witness: false, space: "mixed", batch: 128, crosscheck: 1009, use_pref: true, probe_cpu, form: Form::Free, gaps: false, doc: false };
        let sample = |name: &str, set: &[Sig], tuples: &[Vec<A>], v: &[V], acc: &mut Acc| {
            acc.sample(obj(vec![
                ("space", name.into()),
                ("set", set_show(set).into()),
                ("verdicts", Json::Arr(v.iter().enumerate().step_by(5).map(|(t, v)| format!("({}) {}", args_show(&tuples[t]), v_show(*v, set)).into()).collect())),
            ]));
        };
        let lv = |s: usize, d: u8| -> A { ty_of(s, d) };
        let rv = |s: usize, d: u8| -> A { ty_of(s, d) + 24 };
        let pin = |s: usize, d: u8| -> P { p_code(ty_of(s, d), false) };
        let pout = |s: usize, d: u8| -> P { p_code(ty_of(s, d), true) };
        const I: usize = 1;
        const U: usize = 2;
        const H: usize = 3;
        const F: usize = 4;
        const D: usize = 5;

        // (a) triples of two-parameter candidates over K scalar kinds × {in, out}; arguments: l-values, r-values, both
        // literals. quick: {int, float} (16 signatures, 560 triples, 36 tuples); thorough: also {int, uint, float} and
        // {half, float, double} (36 signatures, 7140 triples each; l-values and literals, 25 tuples). Every permutation.
        let families: Vec<(&str, Vec<usize>, bool)> =
            ctx.pick(vec![("int_float", vec![I, F], true)], vec![("int_float", vec![I, F], true), ("int_uint_float", vec![I, U, F], false), ("half_float_double", vec![H, F, D], false)]);
        for (fam, kinds, rvalues) in &families {
            let types: Vec<P> = kinds.iter().flat_map(|s| [pin(*s, 1), pout(*s, 1)]).collect();
            let mut alpha: Vec<A> = kinds.iter().map(|s| lv(*s, 1)).collect();
            if *rvalues {
                alpha.extend(kinds.iter().map(|s| rv(*s, 1)));
            }
            alpha.push(A_LIT_INT);
            alpha.push(A_LIT_FLOAT);
            let tuples = tuples_over(&alpha, 2);
            let sigs = sigs_over(&types, 2);
            let trips = subsets(sigs.len(), 3);
            let name = format!("p2_in_out_triples_{}", fam);
            let every = (trips.len() as u64 / 4).max(1);
            let r = run_par(ctx, trips.len() as u64, 1, |idx, acc| {
                let set: Vec<Sig> = trips[idx as usize].iter().map(|i| sigs[*i].clone()).collect();
                let v = process_set(&envm, &set, &tuples, acc);
                if idx % every == 1 {
                    sample(&name, &set, &tuples, &v, acc);
                }
            });
            absorb(ctx, &mut rep, &name, r);
        }

        // (b) sets of 4 and 5 two-parameter candidates: {int, float, out float} × {int, float} (6 signatures; thorough:
        // {int, float, out float}² = 9 signatures), every subset of 4 and of 5, all 24 / 120 permutations; arguments
        // l-values of int and float and both literals (16 tuples)
        {
            let first = vec![pin(I, 1), pin(F, 1), pout(F, 1)];
            let second = ctx.pick(vec![pin(I, 1), pin(F, 1)], first.clone());
            let sigs: Vec<Sig> = first.iter().flat_map(|a| second.iter().map(move |b| vec![*a, *b])).collect();
            let tuples = tuples_over(&[lv(I, 1), lv(F, 1), A_LIT_INT, A_LIT_FLOAT], 2);
            let mut sets: Vec<Vec<usize>> = subsets(sigs.len(), 4);
            sets.extend(subsets(sigs.len(), 5));
            let every = (sets.len() as u64 / 4).max(1);
            let r = run_par(ctx, sets.len() as u64, 1, |idx, acc| {
                let set: Vec<Sig> = sets[idx as usize].iter().map(|i| sigs[*i].clone()).collect();
                let v = process_set(&envm, &set, &tuples, acc);
                if idx % every == 1 {
                    sample("p2_in_out_sets_of_4_and_5", &set, &tuples, &v, acc);
                }
            });
            absorb(ctx, &mut rep, "p2_in_out_sets_of_4_and_5", r);
        }

        // (c) triples of two-parameter candidates over {int, float} × vector widths {2, 3} (thorough {2, 3, 4}): a narrower
        // vector argument can not be widened, a wider one is truncated; arguments: l-values of the same types
        {
            let dims: &[u8] = ctx.pick(&[2, 3], &[2, 3, 4]);
            let types: Vec<P> = [I, F].iter().flat_map(|s| dims.iter().map(move |d| pin(*s, *d))).collect();
            let alpha: Vec<A> = types.iter().map(|p| p_ty(*p)).collect();
            let tuples = tuples_over(&alpha, 2);
            let sigs = sigs_over(&types, 2);
            let trips = subsets(sigs.len(), 3);
            let every = (trips.len() as u64 / 4).max(1);
            let r = run_par(ctx, trips.len() as u64, 1, |idx, acc| {
                let set: Vec<Sig> = trips[idx as usize].iter().map(|i| sigs[*i].clone()).collect();
                let v = process_set(&envm, &set, &tuples, acc);
                if idx % every == 1 {
                    sample("p2_vector_widening_triples", &set, &tuples, &v, acc);
                }
            });
            absorb(ctx, &mut rep, "p2_vector_widening_triples", r);
        }

        // (d) triples of candidates of MIXED ARITY over {int, float}: 2 + 4 + 8 signatures with 1, 2 and 3 `in` parameters;
        // quick: the 60 triples of two two-parameter candidates and one candidate with 1 or 3 parameters, thorough: all
        // 364 triples. Called with 1, 2 and 3 arguments (l-values of int and float, both literals: 4 + 16 + 64 tuples)
        {
            let ty2 = [pin(I, 1), pin(F, 1)];
            let mut sigs: Vec<Sig> = Vec::new();
            for n in 1..=3 {
                sigs.extend(sigs_over(&ty2, n));
            }
            let trips: Vec<Vec<usize>> = subsets(sigs.len(), 3)
                .into_iter()
                .filter(|t| {
                    let n2 = t.iter().filter(|i| sigs[**i].len() == 2).count();
                    !ctx.quick() || n2 == 2
                })
                .collect();
            let alpha = [lv(I, 1), lv(F, 1), A_LIT_INT, A_LIT_FLOAT];
            let tuples_by_arity: Vec<Vec<Vec<A>>> = (1..=3).map(|n| tuples_over(&alpha, n)).collect();
            let every = (trips.len() as u64 / 4).max(1);
            let r = run_par(ctx, trips.len() as u64, 1, |idx, acc| {
                let set: Vec<Sig> = trips[idx as usize].iter().map(|i| sigs[*i].clone()).collect();
                for tuples in &tuples_by_arity {
                    let v = process_set(&envm, &set, tuples, acc);
                    if idx % every == 1 && tuples[0].len() == 2 {
                        sample("mixed_arity_triples", &set, tuples, &v, acc);
                    }
                }
            });
            absorb(ctx, &mut rep, "mixed_arity_triples", r);
        }

        // (e) triples of three-parameter candidates over {int, float, out float}; quick: only the first parameter may be
        // `out` (12 signatures, 220 triples), thorough: all 27 signatures (2925 triples); arguments: l-values of int and
        // float (8 tuples)
        {
            let first = vec![pin(I, 1), pin(F, 1), pout(F, 1)];
            let rest = ctx.pick(vec![pin(I, 1), pin(F, 1)], first.clone());
            let mut sigs: Vec<Sig> = Vec::new();
            for a in &first {
                for b in &rest {
                    for c in &rest {
                        sigs.push(vec![*a, *b, *c]);
                    }
                }
            }
            let tuples = tuples_over(&[lv(I, 1), lv(F, 1)], 3);
            let trips = subsets(sigs.len(), 3);
            let every = (trips.len() as u64 / 4).max(1);
            let r = run_par(ctx, trips.len() as u64, 1, |idx, acc| {
                let set: Vec<Sig> = trips[idx as usize].iter().map(|i| sigs[*i].clone()).collect();
                let v = process_set(&envm, &set, &tuples, acc);
                if idx % every == 1 {
                    sample("p3_in_out_triples", &set, &tuples, &v, acc);
                }
            });
            absorb(ctx, &mut rep, "p3_in_out_triples", r);
        }

        // (f) the same for methods (called as `s.f(a, b)` and unqualified from a sibling method declared after the
        // overloads): triples of two-parameter methods over {int, float, out float} × {int, float} (6 signatures, 20
        // triples; thorough: {int, float} × {in, out} squared = 16 signatures, 560 triples), 16 tuples, every permutation
        {
            let sigs: Vec<Sig> = if ctx.quick() {
                [pin(I, 1), pin(F, 1), pout(F, 1)].iter().flat_map(|a| [pin(I, 1), pin(F, 1)].into_iter().map(move |b| vec![*a, b])).collect()
            } else {
                sigs_over(&[pin(I, 1), pout(I, 1), pin(F, 1), pout(F, 1)], 2)
            };
            let tuples = tuples_over(&[lv(I, 1), lv(F, 1), A_LIT_INT, A_LIT_FLOAT], 2);
            let trips = subsets(sigs.len(), 3);
            for (name, form) in [("p2_in_out_method_triples", Form::Method), ("p2_in_out_method_internal_triples", Form::MethodInternal)] {
                let env = envm.with(form, false, false);
                let every = (trips.len() as u64 / 4).max(1);
                let r = run_par(ctx, trips.len() as u64, 1, |idx, acc| {
                    let set: Vec<Sig> = trips[idx as usize].iter().map(|i| sigs[*i].clone()).collect();
                    let v = process_set(&env, &set, &tuples, acc);
                    if idx % every == 1 {
                        sample(name, &set, &tuples, &v, acc);
                    }
                });
                absorb(ctx, &mut rep, name, r);
            }
        }
    }

    // ---- phase 2: triples of one-parameter candidates
    let in_types: Vec<P> = (0..NTY as u8).map(|t| p_code(t, false)).collect();
    let mut triples: Vec<Vec<Sig>> = subsets(NTY, 3).iter().map(|s| s.iter().map(|i| vec![in_types[*i]]).collect()).collect();
    {
        // scalars × in/out
        let sc: Vec<P> = (0..6).flat_map(|s| [p_code(ty_of(s, 1), false), p_code(ty_of(s, 1), true)]).collect();
        for s in subsets(sc.len(), 3) {
            let mut set: Vec<Sig> = s.iter().map(|i| vec![sc[*i]]).collect();
            set.sort();
            if set.iter().any(|c| p_out(c[0])) {
                triples.push(set);
            }
        }
    }
    let r = run_par(ctx, triples.len() as u64, 2, |idx, acc| {
        let set = &triples[idx as usize];
        let v = process_set(&env1, set, &args1, acc);
        if idx % 509 == 0 {
            acc.sample(obj(vec![
                ("space", "1-parameter triples".into()),
                ("set", set_show(set).into()),
                ("verdicts", Json::Arr(v.iter().enumerate().step_by(7).map(|(a, v)| format!("{} {}", a_show(a as u8), v_show(*v, set)).into()).collect())),
            ]));
        }
    });
    absorb(ctx, &mut rep, "p1_triples", r);

    // ---- phase 3: sets of 4 and 5 one-parameter candidates over the scalar types, every permutation
    let scalars_in: Vec<P> = (0..6).map(|s| p_code(ty_of(s, 1), false)).collect();
    let mut sets45: Vec<Vec<Sig>> = Vec::new();
    for k in [4, 5] {
        for s in subsets(6, k) {
            sets45.push(s.iter().map(|i| vec![scalars_in[*i]]).collect());
        }
    }
    let r = run_par(ctx, sets45.len() as u64, 1, |idx, acc| {
        let set = &sets45[idx as usize];
        let v = process_set(&env1, set, &args1, acc);
        if idx % 10 == 0 {
            acc.sample(obj(vec![
                ("space", "1-parameter sets of 4-5".into()),
                ("set", set_show(set).into()),
                ("verdicts", Json::Arr(v.iter().enumerate().step_by(7).map(|(a, v)| format!("{} {}", a_show(a as u8), v_show(*v, set)).into()).collect())),
            ]));
        }
    });
    absorb(ctx, &mut rep, "p1_sets_of_4_and_5", r);

    // ---- phase 3b: the declaration *form* and *layout* dimensions. The same one-parameter sets declared as methods
    // of a struct (called as `s.f(x)` and unqualified from a sibling method) and as free functions, every permutation,
    // with one differently named declaration at every position 0..=n of the declaration order (before, between any
    // two, after the overloads). Added after a seeded change in the method lookup (the scan for overloads stopped at
    // the first differently named member) was missed: all candidate sets used to be contiguous free functions.
    let args_lv: Vec<Vec<A>> = (0..NTY as u8).chain([A_LIT_INT, A_LIT_FLOAT]).map(|a| vec![a]).collect();
    let pairs_in: Vec<Vec<Sig>> = subsets(NTY, 2).iter().map(|s| s.iter().map(|i| vec![in_types[*i]]).collect()).collect();
    let triples_in: Vec<Vec<Sig>> = subsets(NTY, 3).iter().map(|s| s.iter().map(|i| vec![in_types[*i]]).collect()).collect();
    let scalar_sets = |ks: &[usize]| -> Vec<Vec<Sig>> {
        let mut out = Vec::new();
        for k in ks {
            for s in subsets(6, *k) {
                out.push(s.iter().map(|i| vec![scalars_in[*i]]).collect());
            }
        }
        out
    };
    let cat = |a: &[Vec<Sig>], b: &[Vec<Sig>]| -> Vec<Vec<Sig>> { a.iter().chain(b.iter()).cloned().collect() };
    // (space name, form, candidate sets, argument kinds)
    let form_spaces: Vec<(&str, Form, Vec<Vec<Sig>>, &Vec<Vec<A>>)> = vec![
        ("p1_method_pairs", Form::Method, pairs_in.clone(), ctx.pick(&args_lv, &args1)),
        ("p1_method_triples", Form::Method, ctx.pick(scalar_sets(&[3]), cat(&triples_in, &scalar_sets(&[4]))), &args_lv),
        ("p1_method_internal", Form::MethodInternal, ctx.pick(scalar_sets(&[2, 3]), cat(&pairs_in, &triples_in)), &args_lv),
        ("p1_free_interleaved", Form::Free, ctx.pick(scalar_sets(&[2, 3]), cat(&pairs_in, &scalar_sets(&[3, 4]))), &args_lv),
    ];
    for (name, form, sets, args) in &form_spaces {
        let env = env1.with(*form, true, true);
        let every = (sets.len() as u64 / 5).max(1);
        let r = run_par(ctx, sets.len() as u64, 1, |idx, acc| {
            let set = &sets[idx as usize];
            let v = process_set(&env, set, args, acc);
            if idx % every == 0 {
                acc.sample(obj(vec![
                    ("space", format!("{} (layout: one differently named declaration first, then the identity order)", name).into()),
                    ("set", set_show(set).into()),
                    ("verdicts", Json::Arr(v.iter().enumerate().step_by(5).map(|(a, v)| format!("{} {}", args_show(&args[a]), v_show(*v, set)).into()).collect())),
                ]));
            }
        });
        absorb(ctx, &mut rep, name, r);
    }

    // ---- phase 4: two parameters
    let env2 = Env { base: &base, witness: false, space: "p2", batch: 128, crosscheck: 1009, use_pref: true, probe_cpu, form: Form::Free, gaps: false, doc };
    let dims2: &[u8] = if ctx.quick() { &[1, 2] } else { &[1, 2, 4] };
    let types2: Vec<P> = (0..6).flat_map(|s| dims2.iter().map(move |d| p_code(ty_of(s, *d), false))).collect();
    let mut arg_alpha2: Vec<A> = types2.iter().map(|p| p_ty(*p)).collect();
    arg_alpha2.push(A_LIT_INT);
    arg_alpha2.push(A_LIT_FLOAT);
    let tuples2 = tuples_over(&arg_alpha2, 2);
    let sigs2 = sigs_over(&types2, 2);
    // single two-parameter candidates: viability is component-wise
    let r = run_par(ctx, sigs2.len() as u64, 2, |idx, acc| {
        let set = vec![sigs2[idx as usize].clone()];
        let v = process_set(&env2, &set, &tuples2, acc);
        for (ti, v) in v.iter().enumerate() {
            let comp = base.cand_viable(&set[0], &tuples2[ti]);
            let ok = match (v, comp) {
                (V::Sel(_), Some(true)) | (V::NoMatch, Some(false)) => true,
                (V::Bad, _) | (_, None) => true,
                _ => false,
            };
            if !ok {
                acc.violation(Violation {
                    signature: "overload|axiom|viability-not-componentwise".into(),
                    detail: format!(
                        "single candidate {} with args ({}) {} but the one-parameter calls say viable={:?}",
                        sig_show(&set[0]),
                        args_show(&tuples2[ti]),
                        v_show(*v, &set),
                        comp
                    ),
                    replay: case_replay(&set, &tuples2[ti]),
                });
            }
        }
    });
    absorb(ctx, &mut rep, "p2_single_candidates", r);

    let npairs2_all = (sigs2.len() * (sigs2.len() - 1) / 2) as u64;
    let pair_of = |idx: u64, n: usize| -> (usize, usize) {
        // idx-th pair (i<j) in lexicographic order
        let mut i = 0usize;
        let mut rem = idx as usize;
        loop {
            let row = n - 1 - i;
            if rem < row {
                return (i, i + 1 + rem);
            }
            rem -= row;
            i += 1;
        }
    };
    // quick: every pair of scalar-only signatures and every 28th of the other pairs; thorough: all pairs
    let scalar_sig = |s: &Sig| s.iter().all(|p| p_ty(*p) % 4 == 0);
    let pairs2: Vec<(usize, usize)> = (0..npairs2_all)
        .map(|idx| pair_of(idx, sigs2.len()))
        .enumerate()
        .filter(|(idx, (i, j))| !ctx.quick() || idx % 28 == 0 || (scalar_sig(&sigs2[*i]) && scalar_sig(&sigs2[*j])))
        .map(|(_, p)| p)
        .collect();
    if ctx.quick() {
        rep.caps_hit.push("quick tier: literal spellings in hexadecimal for every value and in decimal/octal for k >= 31, pairs over widths {1,2}; swizzles of a float4 variable only; prototype sets of 1-2 candidates over {int,float} (thorough: all three radices, all 24 types, 4 kinds × 3 widths × variable/value, 3 candidates and {int,float,double}); 2-parameter pairs use dims {1,2}, all scalar-only pairs and every 28th other pair; 2-parameter triples every 32nd; 2-parameter method pairs every 16th; method triples, method-internal and interleaved free sets over the 6 scalar types only; 3-parameter pairs over 4 scalar types, every 10th pair (thorough enumerates all); mixed-viability sets: in/out triples over {int,float} only, sets of 4-5 over 6 signatures, vector widths {2,3}, mixed-arity triples with two 2-parameter candidates, 3-parameter triples with `out` in the first position only, method triples over 6 signatures (thorough: 3 scalar families of 36 signatures, 9 signatures, widths {2,3,4}, all 364 mixed-arity triples, all 27 three-parameter signatures, 16 method signatures)".into());
    }
    let r = run_par(ctx, pairs2.len() as u64, 1, |idx, acc| {
        let (i, j) = pairs2[idx as usize];
        let set = vec![sigs2[i].clone(), sigs2[j].clone()];
        let v = process_set(&env2, &set, &tuples2, acc);
        if idx % 4001 == 0 {
            acc.sample(obj(vec![
                ("space", "2-parameter pairs".into()),
                ("set", set_show(&set).into()),
                ("verdicts", Json::Arr(v.iter().enumerate().step_by(41).map(|(t, v)| format!("({}) {}", args_show(&tuples2[t]), v_show(*v, &set)).into()).collect())),
            ]));
        }
    });
    absorb(ctx, &mut rep, "p2_pairs", r);

    // two parameters with out: {int, float} × {in, out}, arguments as l-values, r-values and literals
    let io_types: Vec<P> = [1usize, 4].iter().flat_map(|s| [p_code(ty_of(*s, 1), false), p_code(ty_of(*s, 1), true)]).collect();
    let io_alpha: Vec<A> = vec![ty_of(1, 1), ty_of(4, 1), ty_of(1, 1) + 24, ty_of(4, 1) + 24, A_LIT_INT, A_LIT_FLOAT];
    let io_tuples = tuples_over(&io_alpha, 2);
    let io_sigs = sigs_over(&io_types, 2);
    let io_npairs = (io_sigs.len() * (io_sigs.len() - 1) / 2) as u64;
    let r = run_par(ctx, io_npairs, 1, |idx, acc| {
        let (i, j) = pair_of(idx, io_sigs.len());
        let set = vec![io_sigs[i].clone(), io_sigs[j].clone()];
        process_set(&env2, &set, &io_tuples, acc);
    });
    absorb(ctx, &mut rep, "p2_in_out_pairs", r);

    // triples of two-parameter candidates over the scalar types
    let sc_alpha: Vec<A> = (0..6).map(|s| ty_of(s, 1)).chain([A_LIT_INT, A_LIT_FLOAT]).collect();
    let tuples2s = tuples_over(&sc_alpha, 2);
    let sigs2s = sigs_over(&scalars_in, 2);
    let trip2 = subsets(sigs2s.len(), 3);
    let thin3 = ctx.pick(32u64, 1u64);
    let r = run_par(ctx, trip2.len() as u64 / thin3, 1, |idx, acc| {
        let s = &trip2[(idx * thin3) as usize];
        let set: Vec<Sig> = s.iter().map(|i| sigs2s[*i].clone()).collect();
        process_set(&env2, &set, &tuples2s, acc);
    });
    absorb(ctx, &mut rep, "p2_scalar_triples", r);

    // pairs of two-parameter methods over the scalar types, one differently named member at every position
    let env2m = env2.with(Form::Method, true, false);
    let npairs2s = (sigs2s.len() * (sigs2s.len() - 1) / 2) as u64;
    let thin2m = ctx.pick(16u64, 1u64);
    let r = run_par(ctx, npairs2s / thin2m, 1, |idx, acc| {
        let (i, j) = pair_of(idx * thin2m, sigs2s.len());
        let set = vec![sigs2s[i].clone(), sigs2s[j].clone()];
        process_set(&env2m, &set, &tuples2s, acc);
    });
    absorb(ctx, &mut rep, "p2_method_scalar_pairs", r);

    // triples of two-parameter candidates that differ only in vector width (same scalar kind): the candidates tie on
    // numeric rank, so the vector-rank tie-break alone decides (added after a seeded change in that loop was missed)
    for (fam, scalar) in [("float", 4usize), ("int", 1usize)] {
        if ctx.quick() && fam == "int" {
            continue;
        }
        let vt: Vec<P> = (1..=4u8).map(|d| p_code(ty_of(scalar, d), false)).collect();
        let valpha: Vec<A> = vt.iter().map(|p| p_ty(*p)).chain([if scalar == 4 { A_LIT_FLOAT } else { A_LIT_INT }]).collect();
        let vtuples = tuples_over(&valpha, 2);
        let vsigs = sigs_over(&vt, 2);
        let vtrip = subsets(vsigs.len(), 3);
        let r = run_par(ctx, vtrip.len() as u64, 1, |idx, acc| {
            let s = &vtrip[idx as usize];
            let set: Vec<Sig> = s.iter().map(|i| vsigs[*i].clone()).collect();
            let v = process_set(&env2, &set, &vtuples, acc);
            if idx % 211 == 0 {
                acc.sample(obj(vec![
                    ("space", "2-parameter vector-width triples".into()),
                    ("set", set_show(&set).into()),
                    ("verdicts", Json::Arr(v.iter().enumerate().step_by(7).map(|(t, v)| format!("({}) {}", args_show(&vtuples[t]), v_show(*v, &set)).into()).collect())),
                ]));
            }
        });
        absorb(ctx, &mut rep, &format!("p2_vector_width_triples_{}", fam), r);
    }

    // ---- phase 5: three parameters, pairs over the scalar types
    let env3 = Env { base: &base, witness: false, space: "p3", batch: 128, crosscheck: 1009, use_pref: true, probe_cpu, form: Form::Free, gaps: false, doc };
    let sc3: Vec<P> = ctx.pick(vec![0usize, 1, 3, 4], vec![0usize, 1, 3, 4, 5]).iter().map(|s| p_code(ty_of(*s, 1), false)).collect();
    let thin_p3 = ctx.pick(10u64, 1u64);
    let alpha3: Vec<A> = sc3.iter().map(|p| p_ty(*p)).chain([A_LIT_INT, A_LIT_FLOAT]).collect();
    let tuples3 = tuples_over(&alpha3, 3);
    let sigs3 = sigs_over(&sc3, 3);
    let npairs3 = (sigs3.len() * (sigs3.len() - 1) / 2) as u64;
    let r = run_par(ctx, npairs3 / thin_p3, 1, |idx, acc| {
        let (i, j) = pair_of(idx * thin_p3, sigs3.len());
        let set = vec![sigs3[i].clone(), sigs3[j].clone()];
        let v = process_set(&env3, &set, &tuples3, acc);
        if idx % 1201 == 0 {
            acc.sample(obj(vec![
                ("space", "3-parameter pairs".into()),
                ("set", set_show(&set).into()),
                ("verdicts", Json::Arr(v.iter().enumerate().step_by(53).map(|(t, v)| format!("({}) {}", args_show(&tuples3[t]), v_show(*v, &set)).into()).collect())),
            ]));
        }
    });
    absorb(ctx, &mut rep, "p3_scalar_pairs", r);

    rep.cov("parameter_types", Json::Int(NP as i64));
    rep.cov("argument_kinds_1p", Json::Int(NA as i64));
    rep.cov("p2_types", Json::Int(types2.len() as i64));
    rep.cov("p2_signatures", Json::Int(sigs2.len() as i64));
    rep.cov("p2_argument_tuples", Json::Int(tuples2.len() as i64));
    rep.cov("declaration_forms", Json::Arr(vec!["free".into(), "method".into(), "method-internal".into(), "free-interleaved".into()]));
    rep.cov("layouts_per_set_with_gap", Json::Str("n! permutations × (n+1) positions of one differently named declaration: 6 for pairs, 24 for triples, 120 for sets of 4".into()));
    rep.cov("mixed_viability_kinds", Json::Arr(vec!["out parameter of another type".into(), "out parameter bound to an r-value or literal".into(), "vector would have to be widened".into(), "another number of parameters".into()]));
    rep.cov("argument_expression_dimensions", Json::Arr(vec!["literal spelling (radix, value, suffix class)".into(), "swizzle of a vector (every word of length 1-4)".into(), "prototype/definition/call placement with trailing default parameters".into()]));
    rep.cov("p3_signatures", Json::Int(sigs3.len() as i64));
    rep.cov("p3_argument_tuples", Json::Int(tuples3.len() as i64));
    rep.assumptions = vec![
        "'viable' is the compiler's own verdict on single one-parameter candidates (48 parameter types × 50 argument kinds); 'converts better/worse/equally' in oracle 3 is the compiler's own verdict on pairs of one-parameter candidates (both orders of every pair are compared by oracle 1)".into(),
        "reading of 'converts an argument better': the 'Overload priority' table documented at the top of typer/src/casting.rs (bool: bool > rest; int: int > uint > bool > half/float/double; int literal: uint/int > bool > half/float/double; uint: uint > int > bool > half/float/double; half: half > float > double > bool/int/uint; float: float > double > rest; double: double > rest), ties broken by the documented VectorRank (same dimension > scalar expanded > vector truncated). Every one-parameter set of `in` candidates (pairs and triples over all 24 types, sets of 4-5 over the scalars) × every typed argument and the untyped int literal is compared with this reference; only an ACCEPTED call that selects a candidate other than the reference's single best viable candidate (the selected one is then dominated) is a violation - a call the compiler rejects as ambiguous or resolves where the reference has a tie is a ranking choice the property leaves free and is only counted (documented_priority_deviation|*). Not covered by the reference: the untyped float literal (no documented row), `out` parameters; for 2-3 parameters only non-domination (oracle 3) is demanded, how the compiler combines the per-argument ranks beyond that is not".into(),
        "declaration forms and layouts: one-parameter sets are also declared as struct methods (called as s.f(x), and unqualified from a sibling method, which then is the differently named member itself: the caller is declared before, between and after the overloads it calls) and as free functions, every permutation × one differently named declaration `void g() {}` at every position 0..=n of the order; arguments there are the 24 l-values and the two literals (r-values only in the thorough method pairs); oracles 1-3 apply across all layouts of a form; verdicts of different forms are not compared with each other".into(),
        "accepted call sites share a compilation unit (one test function per site, one privately named overload set per declaration order); the assumption that unrelated declarations do not influence a verdict is cross-checked by recompiling every 97th (1 parameter) / 1009th (2-3 parameters) batched site alone; rejected sites are always compiled alone".into(),
        "oracle 2 applies when exactly one candidate has parameter types equal to the argument types with a fitting value category; a set containing both f(T) and f(out T) called with an l-value of type T has two such candidates (rssl rejects the call as ambiguous) and is counted in exact_match_excluded_in_out_twins instead".into(),
        "oracle 3 is the property's wording only: a selected candidate must not be dominated; rejecting a call although one candidate dominates all others, and reporting 'no match' (instead of 'ambiguous') when several viable candidates each win one argument, are counted as info_* and not treated as violations".into(),
        "mixed viability (phase 1b): candidate sets in which some candidates can not take the arguments, every permutation, free functions: (a) all triples of two-parameter candidates over {int,float}×{in,out} (16 signatures, 560 triples) × 36 tuples of l-values, r-values and both literals [thorough: also {int,uint,float} and {half,float,double}, 36 signatures, 7140 triples each, × 25 tuples of l-values and literals]; (b) all subsets of 4 and 5 of the 6 signatures {int,float,out float}×{int,float} [thorough: 9 signatures {int,float,out float}²] × 16 tuples × 24 / 120 orders; (c) all 560 triples over {int,float}×widths{2,3} squared [thorough: widths {2,3,4}, 7140 triples] × l-values of the same types; (d) triples of candidates of different arity over {int,float} (1, 2 and 3 `in` parameters; quick: the 60 triples with exactly two 2-parameter candidates, thorough: all 364) called with 1, 2 and 3 arguments (84 tuples); (e) triples of three-parameter candidates over {int,float,out float} (quick: `out` only in the first position, 220 triples; thorough: 2925) × 8 l-value tuples; (f) triples of two-parameter methods, called as s.f(a,b) and unqualified from a sibling method (quick 20, thorough 560 triples) × 16 tuples. A candidate of another arity is taken to be not viable (there are no default arguments in the space). Oracles 1-3 apply unchanged; oracle 1 compares the full verdict including whether a rejection is 'ambiguous' or 'unmatched' (the property names both), which of the two a given rejection should be is NOT demanded".into(),
        "argument expression and declaration dimensions (phase 1c), all compared on the statement's 'depends only on the set of visible candidates and the argument types': (a) LITERAL SPELLING - the type of a literal is taken to be decided by its suffix alone (rssl's lexer: unsuffixed integer = untyped int literal whatever the radix and value); classes int-unsuffixed and int-u-suffix: the values 0, 2^k-1, 2^k, 2^k+1 for every bit position k = 1..32 (u-suffix: up to 2^32-1) in decimal, hexadecimal and octal [quick: hexadecimal for all values, decimal and octal for k >= 31], classes float-unsuffixed and float-f-suffix: 6 mantissa/exponent forms; every spelling × every single `in` candidate over the 24 types and every pair over scalar kinds × widths {1,2} [thorough: all 276 pairs over the 24 types] × both orders must give the verdict of the class's first spelling (`0`, `0u`, `0.0`, `0.0f`); literals of DIFFERENT classes are not compared. (b) SWIZZLE ARGUMENTS - `v.<s>` for every swizzle s of length 1-4 over the components of a float4 variable (340 swizzles) [thorough: int, uint, float, double × widths 4, 3, 2 × a variable and the result of a call]; its type is <kind><length> and it is taken to be an l-value exactly when the base is a variable and no component is named twice (documented on ir::get_swizzle_value_type); every single candidate and every pair over {that kind, one other kind} × widths {length, length-1} × {in, out} (8 parameter types, 36 sets per length) × both orders must give the verdict measured in phases 0/1 for the plain variable / helper call of the same type and value category (this includes the exact-match clause: f(T) next to f(out T) with a value argument of type T). (c) PROTOTYPES AND TRAILING DEFAULT PARAMETERS - candidate shapes f(T), f(T,T), f(T,T = default) over {int,float} [thorough: {int,float,double}]: every set of 1 and 2 candidates [thorough: also 3 over {int,float}] with distinct parameter types; every candidate declared by a definition only, or by a prototype and a later definition with the default value on the prototype only or on both; every interleaving of the declarations (prototype before its definition); the call after every declaration from which on all candidates are visible; 1 and 2 arguments over l-values of those kinds and the int literal [thorough, 1-2 candidates: also r-values and the float literal]: one verdict per (candidate set, argument tuple). A candidate counts as visible with its default value from its first declaration on; a default value that appears only on a definition that follows a prototype without it is NOT in the space (what is visible between the two is unclear). Exact match there: the unique candidate with as many parameters as arguments and equal types must be selected, except when a longer candidate with a defaulted last parameter has the same leading types (left out, counted in exact_match_excluded_default_twin)".into(),
        "outside the space: inout parameters, matrices, arrays, qualified (const/volatile) arguments, default arguments other than one trailing default of a free function, templates, static methods, inherited/templated structs, namespaces/using, more than one differently named declaration inside an overload group, data members between methods; candidates have bodies (prototypes only in phase 1c); r-values are results of declared-only helper functions (and repeated-component swizzles in phase 1c); untyped literals are `0` and `0.0` outside phase 1c; literal suffixes other than u and f, negative literals, integer literals above 2^32+1, swizzles of scalars and rgba swizzles are not enumerated".into(),
        "method spaces: quick = method pairs over all 24 types, method triples / method-internal pairs+triples / interleaved free pairs+triples over the 6 scalar types, every 16th pair of two-parameter scalar methods; thorough = method and method-internal pairs and triples over all 24 types, method sets of 4 over the scalars, all 630 pairs of two-parameter scalar methods".into(),
        "2 parameters: `in` parameters over scalars × dims {1,2,4} (thorough; quick {1,2}) plus the {int,float}×{in,out} family with l-value/r-value/literal arguments; 3 parameters: pairs over 5 scalar types bool,int,half,float,double (quick: 4, without double); sets of 4-5 candidates: one scalar parameter, every subset of the 6 scalar types, every permutation".into(),
    ];
    finish(ctx, rep)
}

/// sanity axioms of the measured one-parameter relation
fn check_axioms(base: &Base, acc: &mut Acc) {
    for a in 0..NA as u8 {
        for x in 0..NP as u8 {
            for y in (x + 1)..NP as u8 {
                let e = base.pref_entry(a, x, y);
                let vx = base.viable(a, x);
                let vy = base.viable(a, y);
                let (vx, vy) = match (vx, vy) {
                    (Some(a), Some(b)) => (a, b),
                    _ => continue,
                };
                acc.count("axiom_pair_entries");
                // a selected candidate is viable alone; a pair without viable candidates is unmatched
                let bad = match e {
                    E_FIRST => !vx,
                    E_SECOND => !vy,
                    E_AMB => !(vx && vy),
                    E_NOMATCH => false,
                    _ => false,
                };
                if bad {
                    let set = vec![vec![x], vec![y]];
                    acc.violation(Violation {
                        signature: "overload|axiom|selected-not-viable-alone".into(),
                        detail: format!("argument {}: the pair [{}] gives verdict code {} but alone viable = ({}, {})", a_show(a), set_show(&set), e, vx, vy),
                        replay: case_replay(&set, &[a]),
                    });
                }
                if e == E_NOMATCH && (vx || vy) {
                    acc.count("info_unmatched_although_viable_candidates_exist_1p_pairs");
                }
                if (e == E_AMB || e == E_NOMATCH) && (vx != vy) {
                    acc.count("info_pair_rejected_although_only_one_candidate_viable");
                }
            }
        }
        // transitivity and cycles of "better"
        for x in 0..NP as u8 {
            for y in 0..NP as u8 {
                if x == y || base.rel(a, x, y) != Rel::Better {
                    continue;
                }
                for z in 0..NP as u8 {
                    if z == x || z == y || base.rel(a, y, z) != Rel::Better {
                        continue;
                    }
                    acc.count("axiom_transitivity_instances");
                    let r = base.rel(a, x, z);
                    if r != Rel::Better {
                        let set = vec![vec![x], vec![y], vec![z]];
                        let which = if r == Rel::Worse { "preference-cycle" } else { "preference-not-transitive" };
                        acc.violation(Violation {
                            signature: format!("overload|axiom|{}", which),
                            detail: format!(
                                "argument {}: {{f({x}), f({y})}} selects f({x}), {{f({y}), f({z})}} selects f({y}), but {{f({x}), f({z})}} gives {r:?} for f({x})",
                                a_show(a),
                                x = p_show(x),
                                y = p_show(y),
                                z = p_show(z),
                                r = r
                            ),
                            replay: case_replay(&set, &[a]),
                        });
                    }
                }
            }
        }
    }
}

pub fn replay(ctx: &Ctx, body: &str) -> i32 {
    let mut acc = Acc::default();
    let (kind, rest) = body.split_once('\n').unwrap_or((body, ""));
    match kind.trim() {
        "kind: case" => {
            let mut set: Vec<Sig> = Vec::new();
            let mut args: Vec<A> = Vec::new();
            let mut form = Form::Free;
            let mut gaps = false;
            for line in rest.lines() {
                if let Some(f) = line.strip_prefix("form:") {
                    form = match Form::parse(f.trim()) {
                        Some(f) => f,
                        None => {
                            eprintln!("machinery error: unknown form {:?}", f);
                            return 2;
                        }
                    };
                } else if let Some(g) = line.strip_prefix("gaps:") {
                    gaps = g.trim() == "1";
                } else if let Some(c) = line.strip_prefix("cands:") {
                    for cand in c.split('|') {
                        let ps: Option<Sig> = cand.split(',').map(parse_param).collect();
                        match ps {
                            Some(p) => set.push(p),
                            None => {
                                eprintln!("machinery error: cannot parse candidate {:?}", cand);
                                return 2;
                            }
                        }
                    }
                } else if let Some(a) = line.strip_prefix("args:") {
                    let ps: Option<Vec<A>> = a.split(',').map(parse_arg).collect();
                    match ps {
                        Some(p) => args = p,
                        None => {
                            eprintln!("machinery error: cannot parse arguments {:?}", a);
                            return 2;
                        }
                    }
                }
            }
            if set.is_empty() || args.is_empty() || set.iter().any(|c| c.is_empty()) {
                eprintln!("machinery error: malformed case");
                return 2;
            }
            let base = Base::new(true);
            let probe_cpu = false;
            let env = Env { base: &base, witness: args.len() == 1, space: "replay", batch: 1, crosscheck: 0, use_pref: true, probe_cpu, form, gaps, doc: form == Form::Free && !gaps };
            let tuples = vec![args.clone()];
            process_set(&env, &set, &tuples, &mut acc);
            // show what the compiler does with this case, one line per declaration order
            for layout in layouts_of(set.len(), gaps) {
                let v = match observe_alone(form, &set, &layout, &args, None) {
                    Ok(v) => v_show(v, &set),
                    Err(t) => format!("fails: {}", t),
                };
                println!("  {} declared [{}], args ({}): the call {}", form.tag(), layout_show(&set, &layout), args_show(&args), v);
            }
            // the axioms restricted to the parameter types of this case
            if args.len() == 1 && set.len() == 3 {
                let (x, y, z) = (set[0][0], set[1][0], set[2][0]);
                let a = args[0];
                for (x, y, z) in [(x, y, z), (x, z, y), (y, x, z), (y, z, x), (z, x, y), (z, y, x)] {
                    if base.rel(a, x, y) == Rel::Better && base.rel(a, y, z) == Rel::Better && base.rel(a, x, z) != Rel::Better {
                        let which = if base.rel(a, x, z) == Rel::Worse { "preference-cycle" } else { "preference-not-transitive" };
                        acc.violation(Violation {
                            signature: format!("overload|axiom|{}", which),
                            detail: format!("argument {}: f({}) beats f({}) beats f({}) but f({}) does not beat f({})", a_show(a), p_show(x), p_show(y), p_show(z), p_show(x), p_show(z)),
                            replay: String::new(),
                        });
                    }
                }
            }
        }
        "kind: spelling" | "kind: swizzle" | "kind: proto" => {
            let field = |name: &str| rest.lines().find_map(|l| l.strip_prefix(name).map(|v| v.trim().to_string()));
            let cands = field("cands:").unwrap_or_default();
            match kind.trim() {
                "kind: spelling" => {
                    let classes = lit_classes(true);
                    match (parse_cands(&cands), classes.iter().find(|c| Some(c.name.to_string()) == field("class:"))) {
                        (Some(set), Some(class)) => check_spellings(&set, class, &mut acc),
                        _ => {
                            eprintln!("machinery error: malformed spelling case");
                            return 2;
                        }
                    }
                }
                "kind: swizzle" => {
                    let b = field("base:").unwrap_or_default();
                    let len: usize = field("len:").and_then(|l| l.parse().ok()).unwrap_or(0);
                    let ty = b.split(':').nth(1).and_then(parse_ty);
                    match (parse_cands(&cands), ty) {
                        (Some(set), Some(ty)) if (1..=4).contains(&len) && set.iter().all(|c| c.len() == 1) && set.len() <= 2 => {
                            let base = Base::new(true);
                            check_swizzles(&base, &set, (ty / 4) as usize, DIMS[(ty % 4) as usize], b.starts_with("L:"), len, &mut acc);
                        }
                        _ => {
                            eprintln!("machinery error: malformed swizzle case");
                            return 2;
                        }
                    }
                }
                _ => match parse_dcs(&cands) {
                    Some(set) => {
                        let mut kinds: Vec<usize> = set.iter().flat_map(|c| c.params.iter().map(|p| (p_ty(*p) / 4) as usize)).collect();
                        kinds.sort();
                        kinds.dedup();
                        check_protos(&set, &proto_tuples(&kinds, true), &mut acc);
                    }
                    None => {
                        eprintln!("machinery error: malformed proto case");
                        return 2;
                    }
                },
            }
        }
        k => {
            eprintln!("machinery error: unknown replay kind {:?}", k);
            return 2;
        }
    }
    finish_replay(ctx, &acc)
}

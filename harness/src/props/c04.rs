//! C04 — emitted DirectX HLSL is accepted by the front end and is a fixpoint.
//!
//! For every program P the front end accepts: T1 = compile(P, HlslForDirectX, no_pipeline_mode).data;
//! R2 = compile(T1) must be Ok; T2 == T1 byte for byte; T3 = compile(T2) == T2; every resource of R2's metadata sits on
//! the binding slot it had in R1 (group, slot, name, descriptor type, count).
//!
//! Spaces (each enumerated completely, simplest first): the repository corpus (every .rssl / DirectX .hlsl under tests,
//! hlsl/tests, msl/tests and the third-party entry points of tests/external.rs with their defines and include
//! resolution), resource declaration sequences, the paths by which a declared type is assembled (array extent /
//! qualifier / element type on the declarator, the base type, a typedef, a typedef chain, a namespaced typedef, a type
//! argument) for pipeline resources and in every other declaring or type-naming position, declaration kinds (singles
//! and ordered pairs), name clashes over scopes, identifiers the exporter reserves in every declaring role, depth-2 operator pairs under scalar/vector
//! typings, every literal kind over a boundary value list in every position, statement forms nested to depth 2.

use crate::engine::{Acc, Ctx, PanicInfo, Report, Violation, finish, finish_replay, guard, hash_of, one_line, run_par};
use crate::json::{Json, obj};
use crate::util::{decode, repo_root};
use rssl::text::{FileData, IncludeError, IncludeHandler};
use std::collections::BTreeMap;

// ---------------------------------------------------------------------------------------------
// the subject: compile(P, HlslForDirectX, no_pipeline_mode) with the include resolution of tests/external.rs

/// A program: a set of files, the entry file and the defines passed to `compile`
#[derive(Clone)]
pub struct Prog {
    pub files: BTreeMap<String, String>,
    pub entry: String,
    pub defines: Vec<(String, String)>,
}

impl Prog {
    pub fn single(src: &str) -> Prog {
        let mut files = BTreeMap::new();
        files.insert("main.rssl".to_string(), src.to_string());
        Prog { files, entry: "main.rssl".to_string(), defines: Vec::new() }
    }
}

/// Same resolution rule as `TestIncludeHandler` in tests/external.rs: first relative to the including file's
/// directory (".." pops a component), then the name as written
struct MemIncludes<'a>(&'a BTreeMap<String, String>);

fn minipath(parts: &mut Vec<String>, name: &str) -> bool {
    for part in name.split('/') {
        if part == ".." {
            if parts.pop().is_none() {
                return false;
            }
        } else {
            parts.push(part.to_string());
        }
    }
    true
}

impl<'a> IncludeHandler for MemIncludes<'a> {
    fn load(&mut self, file_name: &str, parent_name: &str) -> Result<FileData, IncludeError> {
        let mut parent: Vec<String> = Vec::new();
        minipath(&mut parent, parent_name);
        parent.pop();
        let mut rel = parent;
        if minipath(&mut rel, file_name) {
            let rel = rel.join("/");
            if let Some(c) = self.0.get(&rel) {
                return Ok(FileData { real_name: rel, contents: c.clone() });
            }
        }
        let mut abs = Vec::new();
        if minipath(&mut abs, file_name) {
            let abs = abs.join("/");
            if let Some(c) = self.0.get(&abs) {
                return Ok(FileData { real_name: abs, contents: c.clone() });
            }
        }
        Err(IncludeError::FileNotFound)
    }
}

pub struct Compiled {
    pub text: String,
    pub meta: rssl::ir::export::PipelineDescription,
}

/// Ok(Ok(..)) accepted, Ok(Err(diagnostic)) rejected, Err(panic)
fn compile_dx(p: &Prog) -> Result<Result<Compiled, String>, PanicInfo> {
    compile_dx_inner(p).map_err(|mut pn| {
        // signatures must not depend on where the repository under test is checked out
        let root = format!("{}/", repo_root());
        pn.file = pn.file.replace(&root, "");
        pn
    })
}

fn compile_dx_inner(p: &Prog) -> Result<Result<Compiled, String>, PanicInfo> {
    guard(|| {
        let mut inc = MemIncludes(&p.files);
        let defs: Vec<(&str, &str)> = p.defines.iter().map(|(a, b)| (a.as_str(), b.as_str())).collect();
        let args = rssl::CompileArgs::new(&p.entry, &mut inc, rssl::Target::HlslForDirectX).defines(&defs).no_pipeline_mode();
        match rssl::compile(args) {
            Ok(mut v) => {
                if v.len() != 1 {
                    return Err(format!("no_pipeline_mode returned {} pipelines", v.len()));
                }
                let c = v.remove(0);
                match String::from_utf8(c.data) {
                    Ok(text) => Ok(Compiled { text, meta: c.metadata }),
                    Err(_) => Err("emitted text is not UTF-8".to_string()),
                }
            }
            Err(e) => Err(format!("{}", e)),
        }
    })
}

// ---------------------------------------------------------------------------------------------
// classification of the first differing token

#[derive(Clone, Copy, PartialEq, Eq, Debug)]
enum TokKind {
    Num,
    Ident,
    Punct,
    Str,
}

fn kind_name(k: TokKind) -> &'static str {
    match k {
        TokKind::Num => "number",
        TokKind::Ident => "identifier",
        TokKind::Punct => "punctuation",
        TokKind::Str => "string",
    }
}

const PUNCT3: &[&str] = &["<<=", ">>="];
const PUNCT2: &[&str] = &["::", "++", "--", "<<", ">>", "<=", ">=", "==", "!=", "&&", "||", "+=", "-=", "*=", "/=", "%=", "&=", "|=", "^=", "[[", "]]"];

/// A deliberately small tokenizer for emitted HLSL (the output of the formatter has no comments and no directives)
fn tokenize(s: &str) -> Vec<(TokKind, &str)> {
    let b = s.as_bytes();
    let mut out = Vec::new();
    let mut i = 0;
    while i < b.len() {
        let c = b[i];
        if c.is_ascii_whitespace() {
            i += 1;
            continue;
        }
        let start = i;
        if c.is_ascii_alphabetic() || c == b'_' {
            while i < b.len() && (b[i].is_ascii_alphanumeric() || b[i] == b'_') {
                i += 1;
            }
            out.push((TokKind::Ident, &s[start..i]));
        } else if c.is_ascii_digit() {
            let hex = c == b'0' && i + 1 < b.len() && (b[i + 1] == b'x' || b[i + 1] == b'X');
            while i < b.len() {
                let d = b[i];
                if d.is_ascii_alphanumeric() || d == b'_' || d == b'.' {
                    i += 1;
                } else if (d == b'+' || d == b'-') && !hex && i > start && (b[i - 1] == b'e' || b[i - 1] == b'E') {
                    i += 1;
                } else {
                    break;
                }
            }
            out.push((TokKind::Num, &s[start..i]));
        } else if c == b'"' {
            i += 1;
            while i < b.len() && b[i] != b'"' {
                i += 1;
            }
            i = (i + 1).min(b.len());
            out.push((TokKind::Str, &s[start..i]));
        } else if !c.is_ascii() {
            // not expected in emitted text; keep the whole character
            let ch = s[i..].chars().next().unwrap();
            i += ch.len_utf8();
            out.push((TokKind::Punct, &s[start..i]));
        } else {
            let rest = &s[i..];
            let mut len = 1;
            if let Some(p) = PUNCT3.iter().find(|p| rest.starts_with(**p)) {
                len = p.len();
            } else if let Some(p) = PUNCT2.iter().find(|p| rest.starts_with(**p)) {
                len = p.len();
            }
            i += len;
            out.push((TokKind::Punct, &s[start..i]));
        }
    }
    out
}

fn is_float_spelling(n: &str) -> bool {
    let l = n.to_ascii_lowercase();
    if l.starts_with("0x") {
        return false;
    }
    l.contains('.') || l.contains('e') || l.ends_with('f') || l.ends_with('h')
}

fn is_builtin_type(id: &str) -> bool {
    const BASE: &[&str] = &["bool", "int", "uint", "dword", "half", "float", "double", "min16float", "int64_t", "uint64_t", "float16_t", "int32_t", "uint32_t", "float32_t", "float64_t", "int16_t", "uint16_t"];
    const OTHER: &[&str] = &[
        "void", "vector", "matrix", "Buffer", "RWBuffer", "ByteAddressBuffer", "RWByteAddressBuffer", "BufferAddress", "RWBufferAddress", "StructuredBuffer", "RWStructuredBuffer", "Texture2D", "Texture2DArray", "RWTexture2D", "RWTexture2DArray", "TextureCube", "TextureCubeArray", "Texture3D", "RWTexture3D", "ConstantBuffer",
        "SamplerState", "SamplerComparisonState", "TriangleStream", "RaytracingAccelerationStructure", "RayQuery", "RayDesc",
    ];
    if OTHER.contains(&id) {
        return true;
    }
    for b in BASE {
        if let Some(rest) = id.strip_prefix(b) {
            let r = rest.as_bytes();
            let dim = |c: u8| (b'1'..=b'4').contains(&c);
            if r.is_empty() || (r.len() == 1 && dim(r[0])) || (r.len() == 3 && dim(r[0]) && r[1] == b'x' && dim(r[2])) {
                return true;
            }
        }
    }
    false
}

/// `name` without a trailing `_<digits>` group (repeatedly)
fn strip_counter(mut name: &str) -> &str {
    loop {
        match name.rfind('_') {
            Some(p) if p + 1 < name.len() && p > 0 && name[p + 1..].bytes().all(|c| c.is_ascii_digit()) => name = &name[..p],
            _ => return name,
        }
    }
}

fn in_register_annotation(toks: &[(TokKind, &str)], i: usize) -> bool {
    // `register ( t0 , space1 )`
    let lo = i.saturating_sub(4);
    let mut j = i;
    while j > lo {
        j -= 1;
        match toks[j].1 {
            "register" => return true,
            "(" | "," => {}
            _ if toks[j].0 == TokKind::Ident => {}
            _ => return false,
        }
    }
    false
}

/// Side `with` has `(` at `i` where the other side has `other`: did a cast disappear or a grouping parenthesis?
fn paren_or_cast(with: &[(TokKind, &str)], i: usize, other: Option<&str>) -> &'static str {
    if let (Some(next), Some(o)) = (with.get(i + 1), other) {
        if next.1 == o {
            return "paren";
        }
    }
    // find the matching `)`
    let mut depth = 0usize;
    let mut j = i;
    let mut close = None;
    while j < with.len() {
        match with[j].1 {
            "(" => depth += 1,
            ")" => {
                depth -= 1;
                if depth == 0 {
                    close = Some(j);
                    break;
                }
            }
            _ => {}
        }
        j += 1;
    }
    if let Some(c) = close {
        let inner = &with[i + 1..c];
        let typeish = !inner.is_empty() && inner.iter().all(|t| t.0 == TokKind::Ident || t.0 == TokKind::Num || matches!(t.1, "::" | "<" | ">" | ","));
        if typeish {
            if let (Some(after), Some(o)) = (with.get(c + 1), other) {
                if after.1 == o {
                    return "cast";
                }
            }
            if inner.iter().any(|t| is_builtin_type(t.1)) {
                return "cast";
            }
        }
    }
    "paren"
}

const QUALIFIERS: &[&str] = &["const", "volatile", "precise", "row_major", "column_major", "unorm", "snorm", "static", "extern", "groupshared", "inline", "in", "out", "inout", "nointerpolation", "linear", "centroid", "noperspective", "sample"];

/// `with[i]` opens `( X )` directly after `X name =`: a cast to exactly the declared type of the variable being
/// initialised, i.e. a conversion that can only change qualifiers
fn cast_to_declared_type(with: &[(TokKind, &str)], i: usize) -> bool {
    let mut depth = 0usize;
    let mut close = None;
    for (j, t) in with.iter().enumerate().skip(i) {
        match t.1 {
            "(" => depth += 1,
            ")" => {
                depth -= 1;
                if depth == 0 {
                    close = Some(j);
                    break;
                }
            }
            _ => {}
        }
    }
    let c = match close {
        Some(c) => c,
        None => return false,
    };
    let inner = &with[i + 1..c];
    let n = inner.len();
    // `X name = (`
    n > 0 && i >= n + 2 && with[i - 1].1 == "=" && with[i - 2].0 == TokKind::Ident && &with[i - 2 - n..i - 2] == inner
}

/// First token of a line, as a class for whole-line differences
fn line_head_class(line: &str) -> String {
    let t = tokenize(line);
    match t.first() {
        Some((TokKind::Punct, "[")) | Some((TokKind::Punct, "[[")) => "attribute".to_string(),
        Some((TokKind::Ident, w)) if matches!(*w, "template" | "struct" | "enum" | "namespace" | "cbuffer" | "static" | "groupshared" | "typedef" | "return" | "if" | "for" | "while" | "switch" | "case" | "default" | "else" | "do") => w.to_string(),
        Some((TokKind::Ident, w)) if is_builtin_type(w) => "declaration".to_string(),
        Some((TokKind::Punct, "}")) | Some((TokKind::Punct, "{")) => "brace".to_string(),
        Some(_) => "other".to_string(),
        None => "blank".to_string(),
    }
}

/// If the first differing line of one text was simply left out of the other (the other's line at that point occurs
/// later in the first), the difference is a dropped / added line rather than a changed token
fn line_shift_class(t1: &str, t2: &str) -> Option<String> {
    let a: Vec<&str> = t1.lines().collect();
    let b: Vec<&str> = t2.lines().collect();
    let mut i = 0;
    while i < a.len() && i < b.len() && a[i] == b[i] {
        i += 1;
    }
    if i >= a.len() || i >= b.len() {
        return None;
    }
    let nonblank = |l: &str| !l.trim().is_empty();
    if nonblank(b[i]) && a[i + 1..].iter().any(|l| *l == b[i]) && !b[i + 1..].iter().any(|l| *l == a[i]) {
        return Some(format!("dropped-line|{}", line_head_class(a[i])));
    }
    if nonblank(a[i]) && b[i + 1..].iter().any(|l| *l == a[i]) && !a[i + 1..].iter().any(|l| *l == b[i]) {
        return Some(format!("added-line|{}", line_head_class(b[i])));
    }
    None
}

/// The class of the first difference between two emitted texts, derived only from the tokens at that point
pub fn diff_class(t1: &str, t2: &str) -> (String, String) {
    if let Some(c) = line_shift_class(t1, t2) {
        let (l1, l2) = line_of_first_diff(t1, t2);
        return (c, format!("first pass line `{}` / second pass line `{}`", l1, l2));
    }
    let a = tokenize(t1);
    let b = tokenize(t2);
    let n = a.len().min(b.len());
    let mut i = 0;
    while i < n && a[i] == b[i] {
        i += 1;
    }
    if i == a.len() && i == b.len() {
        return ("whitespace".to_string(), "token sequences are equal, layout differs".to_string());
    }
    let show = |t: &[(TokKind, &str)]| -> String {
        let lo = i.saturating_sub(6);
        let hi = (i + 6).min(t.len());
        t[lo..hi].iter().map(|x| x.1).collect::<Vec<_>>().join(" ")
    };
    let ctx = format!("first pass `{}` / second pass `{}`", show(&a), show(&b));
    let (x, y) = match (a.get(i), b.get(i)) {
        (Some(x), Some(y)) => (*x, *y),
        _ => return ("truncated".to_string(), ctx),
    };
    let class = match (x.0, y.0) {
        // one side has a qualifier that the other side simply lacks (the rest continues identically)
        (TokKind::Ident, _) if QUALIFIERS.contains(&x.1) && a.get(i + 1) == Some(&y) => format!("qualifier-dropped|{}", x.1),
        (_, TokKind::Ident) if QUALIFIERS.contains(&y.1) && b.get(i + 1) == Some(&x) => format!("qualifier-added|{}", y.1),
        (TokKind::Num, TokKind::Num) => {
            if is_float_spelling(x.1) || is_float_spelling(y.1) {
                "float-literal".to_string()
            } else if in_register_annotation(&a, i) {
                "register".to_string()
            } else {
                "int-literal".to_string()
            }
        }
        (TokKind::Ident, TokKind::Ident) => {
            if in_register_annotation(&a, i) || in_register_annotation(&b, i) {
                "register".to_string()
            } else if x.1 != y.1 && strip_counter(x.1) == strip_counter(y.1) {
                "name-suffix".to_string()
            } else if is_builtin_type(x.1) || is_builtin_type(y.1) {
                "type-name".to_string()
            } else {
                "identifier".to_string()
            }
        }
        _ if x.1 == "(" => format!("{}{}", paren_or_cast(&a, i, Some(y.1)), if cast_to_declared_type(&a, i) { "|to-declared-type" } else { "" }),
        _ if y.1 == "(" => format!("{}{}", paren_or_cast(&b, i, Some(x.1)), if cast_to_declared_type(&b, i) { "|to-declared-type" } else { "" }),
        _ if matches!(x.1, "[" | "[[") || matches!(y.1, "[" | "[[") => "attribute".to_string(),
        (TokKind::Num, _) | (_, TokKind::Num) => {
            let n = if x.0 == TokKind::Num { x.1 } else { y.1 };
            if is_float_spelling(n) { "float-literal".to_string() } else { "int-literal".to_string() }
        }
        _ if x.1 == ":" || y.1 == ":" => {
            let reg = |t: &[(TokKind, &str)]| t.get(i).map(|t| t.1) == Some(":") && t.get(i + 1).map(|t| t.1) == Some("register");
            match (reg(&a), reg(&b)) {
                // the resource had no binding slot in one of the passes
                (false, true) => "register|absent-in-first-pass".to_string(),
                (true, false) => "register|absent-in-second-pass".to_string(),
                (true, true) => "register".to_string(),
                _ => "annotation".to_string(),
            }
        }
        (p, q) => format!("other|{}>{}", kind_name(p), kind_name(q)),
    };
    (class, ctx)
}

/// class of a front-end diagnostic: the message with quoted parts and digits blanked
pub fn diagnostic_class(e: &str) -> String {
    let line = e.lines().find(|l| l.contains("error")).unwrap_or_else(|| e.lines().next().unwrap_or(""));
    let msg = match line.find("error: ") {
        Some(p) => &line[p + 7..],
        None => line,
    };
    let mut out = String::new();
    let mut in_quote = false;
    let mut last_hash = false;
    for c in msg.chars() {
        if c == '\'' || c == '`' || c == '"' {
            in_quote = !in_quote;
            if in_quote {
                out.push_str("'_'");
            }
            continue;
        }
        if in_quote {
            continue;
        }
        if c == '(' {
            // argument type lists (`call to min(bool, float)`) would make one class per typing
            break;
        }
        if c.is_ascii_digit() {
            if !last_hash {
                out.push('#');
            }
            last_hash = true;
        } else {
            out.push(c);
            last_hash = false;
        }
        if out.len() >= 70 {
            break;
        }
    }
    out.trim().to_string()
}

/// For a diagnostic that quotes a name: does every segment of that name occur as an identifier in the input P
/// (the exporter lost a declaration or a qualification) or not (the exporter invented a name it did not declare)?
fn quoted_name_origin(e: &str, p: &Prog) -> &'static str {
    let line = e.lines().find(|l| l.contains("error")).unwrap_or("");
    let name = match line.find('\'') {
        Some(a) => match line[a + 1..].find('\'') {
            Some(b) => &line[a + 1..a + 1 + b],
            None => return "",
        },
        None => return "",
    };
    let segs: Vec<&str> = tokenize(name).into_iter().filter(|t| t.0 == TokKind::Ident).map(|t| t.1).collect();
    if segs.is_empty() {
        return "";
    }
    let mut idents = std::collections::BTreeSet::new();
    for text in p.files.values() {
        for t in tokenize(text) {
            if t.0 == TokKind::Ident {
                idents.insert(t.1.to_string());
            }
        }
    }
    if segs.iter().all(|s| idents.contains(*s)) { "|name-from-input" } else { "|name-invented-by-exporter" }
}

/// A parse failure carries no message beyond its position: classify the token of the emitted text it points at
fn caret_token_class(e: &str, emitted: &str) -> String {
    if !e.contains("failed to parse source") {
        return String::new();
    }
    // `main.rssl:<line>:<column>: error: ...`
    let mut it = e.split(':');
    let _file = it.next();
    let line: usize = match it.next().and_then(|l| l.trim().parse().ok()) {
        Some(l) => l,
        None => return String::new(),
    };
    let col: usize = match it.next().and_then(|c| c.trim().parse().ok()) {
        Some(c) => c,
        None => return String::new(),
    };
    let text = match emitted.lines().nth(line.saturating_sub(1)) {
        Some(t) => t,
        None => return String::new(),
    };
    let rest = match text.get(col.saturating_sub(1)..) {
        Some(r) => r,
        None => return String::new(),
    };
    match tokenize(rest).first() {
        Some((TokKind::Num, n)) => format!("|at {}", if is_float_spelling(n) { "float-literal" } else { "int-literal" }),
        Some((TokKind::Ident, w)) if is_builtin_type(w) => "|at type-name".to_string(),
        Some((TokKind::Ident, _)) => "|at identifier".to_string(),
        Some((TokKind::Str, _)) => "|at string".to_string(),
        Some((TokKind::Punct, p)) => format!("|at `{}`", p),
        None => "|at end-of-line".to_string(),
    }
}

// ---------------------------------------------------------------------------------------------
// metadata comparison

use rssl::ir::export::{DescriptorType, PipelineDescription};

/// DirectX has no buffer addresses: `BufferAddress` is emitted as `ByteAddressBuffer` by design (hlsl/src/ast_generate.rs),
/// so the re-read descriptor is a byte buffer on the same slot. Everything else must be identical.
fn norm_type(t: DescriptorType) -> DescriptorType {
    match t {
        DescriptorType::BufferAddress => DescriptorType::ByteBuffer,
        DescriptorType::RwBufferAddress => DescriptorType::RwByteBuffer,
        t => t,
    }
}

/// None = every resource is on the same binding slot; Some((field, detail)) = first difference
fn metadata_diff(m1: &PipelineDescription, m2: &PipelineDescription, acc: &mut Acc) -> Option<(&'static str, String)> {
    if m1.bind_groups.len() != m2.bind_groups.len() {
        return Some(("group-count", format!("{} bind groups, then {}", m1.bind_groups.len(), m2.bind_groups.len())));
    }
    for (g, (g1, g2)) in m1.bind_groups.iter().zip(m2.bind_groups.iter()).enumerate() {
        if g1.bindings.len() != g2.bindings.len() {
            return Some(("binding-count", format!("group {}: {} bindings, then {}", g, g1.bindings.len(), g2.bindings.len())));
        }
        if g1.inline_constants != g2.inline_constants {
            return Some(("inline-constants", format!("group {}: {:?}, then {:?}", g, g1.inline_constants, g2.inline_constants)));
        }
        for (b1, b2) in g1.bindings.iter().zip(g2.bindings.iter()) {
            if b1.name != b2.name {
                return Some(("name", format!("group {}: binding {:?} became {:?}", g, b1.name, b2.name)));
            }
            if b1.api_binding != b2.api_binding {
                return Some(("slot", format!("group {} {}: {:?}, then {:?}", g, b1.name, b1.api_binding, b2.api_binding)));
            }
            if norm_type(b1.descriptor_type) != norm_type(b2.descriptor_type) {
                return Some(("type", format!("group {} {}: {:?}, then {:?}", g, b1.name, b1.descriptor_type, b2.descriptor_type)));
            }
            if b1.descriptor_count != b2.descriptor_count {
                return Some(("count", format!("group {} {}: {:?}, then {:?}", g, b1.name, b1.descriptor_count, b2.descriptor_count)));
            }
            // information that HLSL text has no syntax for (rssl attributes / initialisers): counted, not demanded
            if b1.is_bindless != b2.is_bindless {
                acc.count("info:bindless_flag_has_no_hlsl_spelling");
            }
            if b1.static_sampler != b2.static_sampler {
                acc.count("info:static_sampler_state_has_no_hlsl_spelling");
            }
        }
    }
    None
}

// ---------------------------------------------------------------------------------------------
// the oracle

pub enum Verdict {
    Rejected(String),
    Panicked(String),
    Held,
    Violated(String),
}

fn line_of_first_diff(a: &str, b: &str) -> (String, String) {
    let mut la = a.lines();
    let mut lb = b.lines();
    loop {
        match (la.next(), lb.next()) {
            (Some(x), Some(y)) if x == y => {}
            (x, y) => return (x.unwrap_or("<end>").trim().to_string(), y.unwrap_or("<end>").trim().to_string()),
        }
    }
}

/// Runs P through the three passes. `replay` is the body written to the replay file.
pub fn check_prog(label: &str, p: &Prog, replay: &str, acc: &mut Acc) -> Verdict {
    acc.evals += 1;
    let r1 = match compile_dx(p) {
        Err(pn) => {
            // totality is C08's property; a program on which the compiler panics is not an accepted program
            acc.count("outside:first_compile_panicked");
            acc.count(&format!("outside:{}", pn.signature()));
            return Verdict::Panicked(pn.signature());
        }
        Ok(Err(e)) => {
            acc.count("outside:rejected_by_front_end");
            return Verdict::Rejected(e);
        }
        Ok(Ok(c)) => c,
    };
    acc.count("accepted_programs");
    acc.outcome(&hash_of(&r1.text));
    if !r1.meta.bind_groups.is_empty() {
        acc.count("accepted_programs_with_bindings");
    }
    let fire = |acc: &mut Acc, sig: String, detail: String| {
        acc.violation(Violation { signature: sig.clone(), detail: format!("{}: {}", label, detail), replay: replay.to_string() });
        Verdict::Violated(sig)
    };
    let p2 = Prog::single(&r1.text);
    let r2 = match compile_dx(&p2) {
        Err(pn) => {
            return fire(acc, format!("fixpoint|rejected|{}", pn.signature()), format!("compiling the emitted HLSL panicked: {}", one_line(&pn.message, 200)));
        }
        Ok(Err(e)) => {
            return fire(acc, format!("fixpoint|rejected|{}{}{}", diagnostic_class(&e), quoted_name_origin(&e, p), caret_token_class(&e, &r1.text)), format!("the emitted HLSL is rejected by the front end: {}", one_line(&e, 300)));
        }
        Ok(Ok(c)) => c,
    };
    if r2.text != r1.text {
        let (class, ctx) = diff_class(&r1.text, &r2.text);
        let (l1, l2) = line_of_first_diff(&r1.text, &r2.text);
        // one more pass: does it settle?
        let third = match compile_dx(&Prog::single(&r2.text)) {
            Ok(Ok(c3)) => {
                if c3.text == r2.text {
                    "third pass reproduces the second"
                } else {
                    "third pass differs again"
                }
            }
            Ok(Err(_)) => "second-pass text is rejected",
            Err(_) => "second-pass text panics",
        };
        return fire(acc, format!("fixpoint|{}", class), format!("second pass differs: line `{}` became `{}` ({}); {}", l1, l2, ctx, third));
    }
    if let Some((field, d)) = metadata_diff(&r1.meta, &r2.meta, acc) {
        return fire(acc, format!("fixpoint|metadata|{}", field), format!("text is a fixpoint but the reflection metadata moved: {}", d));
    }
    // T3: same bytes in, must be the same bytes out (catches drift that needs two passes and any state carried over)
    match compile_dx(&Prog::single(&r2.text)) {
        Ok(Ok(c3)) => {
            if c3.text != r2.text {
                let (class, ctx) = diff_class(&r2.text, &c3.text);
                return fire(acc, format!("fixpoint|third-pass|{}", class), format!("T2 == T1 but T3 != T2: {}", ctx));
            }
            if let Some((field, d)) = metadata_diff(&r2.meta, &c3.meta, acc) {
                return fire(acc, format!("fixpoint|third-pass|metadata|{}", field), d);
            }
        }
        Ok(Err(e)) => return fire(acc, format!("fixpoint|third-pass|rejected|{}", diagnostic_class(&e)), one_line(&e, 300)),
        Err(pn) => return fire(acc, format!("fixpoint|third-pass|rejected|{}", pn.signature()), one_line(&pn.message, 200)),
    }
    acc.count("fixpoints");
    Verdict::Held
}

fn check_src(label: &str, src: &str, acc: &mut Acc) -> Verdict {
    check_prog(label, &Prog::single(src), &format!("kind: source\n{}", src), acc)
}

// ---------------------------------------------------------------------------------------------
// space 1: the repository corpus

/// string literals that follow `marker` in a Rust source (`source!("x")`, `compile_file(\n "x"`)
fn strings_after(text: &str, marker: &str) -> Vec<String> {
    let mut out = Vec::new();
    let mut rest = text;
    while let Some(p) = rest.find(marker) {
        rest = &rest[p + marker.len()..];
        let t = rest.trim_start();
        if let Some(t) = t.strip_prefix('"') {
            if let Some(e) = t.find('"') {
                out.push(t[..e].to_string());
            }
        }
    }
    out
}

/// (label, program, replay body)
fn corpus() -> Vec<(String, Prog, String)> {
    let root = std::path::PathBuf::from(repo_root());
    let mut out = Vec::new();
    // single files: every .rssl, and every DirectX-flavour expected output (.hlsl that is not .vk.hlsl), which is itself
    // a program in the input language
    for dir in ["tests/basic", "hlsl/tests", "msl/tests"] {
        let mut entries: Vec<_> = match std::fs::read_dir(root.join(dir)) {
            Ok(rd) => rd.flatten().map(|e| e.path()).collect(),
            Err(_) => Vec::new(),
        };
        entries.sort();
        for p in entries {
            let name = p.file_name().map(|n| n.to_string_lossy().to_string()).unwrap_or_default();
            let take = name.ends_with(".rssl") || (name.ends_with(".hlsl") && !name.ends_with(".vk.hlsl"));
            if take {
                if let Ok(t) = std::fs::read_to_string(&p) {
                    let rel = format!("{}/{}", dir, name);
                    out.push((rel.clone(), Prog::single(&t), format!("kind: corpus-file\n{}", rel)));
                }
            }
        }
    }
    // third-party entry points exactly as tests/external.rs drives them
    for suite in ["capsaicin", "ffx_fsr2"] {
        let dir = root.join("tests").join(suite);
        let modrs = std::fs::read_to_string(dir.join("mod.rs")).unwrap_or_default();
        let mut files = BTreeMap::new();
        for f in strings_after(&modrs, "source!(") {
            if let Ok(t) = std::fs::read_to_string(dir.join(&f)) {
                files.insert(f, t);
            }
        }
        let defines = vec![("FFX_GPU".to_string(), "1".to_string()), ("FFX_HLSL".to_string(), "1".to_string()), ("globallycoherent".to_string(), String::new())];
        let mut entries = strings_after(&modrs, "compile_file(");
        entries.dedup();
        for e in entries {
            let label = format!("tests/{}/{}", suite, e);
            out.push((label.clone(), Prog { files: files.clone(), entry: e.clone(), defines: defines.clone() }, format!("kind: corpus-entry\n{}\n{}", suite, e)));
        }
    }
    out
}

// ---------------------------------------------------------------------------------------------
// space 2a: sequences of resource declarations (G-RES)

/// (type text, register letter or ' ' when the kind takes no register annotation, form)
#[derive(Clone, Copy, PartialEq)]
enum ResForm {
    Object,
    CBuffer,
    StaticSampler,
    Plain,
}

const RES_KINDS_FULL: &[(&str, char, ResForm)] = &[
    ("Texture2D", 't', ResForm::Object),
    ("RWTexture2D<float4>", 'u', ResForm::Object),
    ("SamplerState", 's', ResForm::Object),
    ("ConstantBuffer<S>", 'b', ResForm::Object),
    ("cbuffer", 'b', ResForm::CBuffer),
    ("BufferAddress", 't', ResForm::Object),
    ("StructuredBuffer<S>", 't', ResForm::Object),
    ("SamplerState", 's', ResForm::StaticSampler),
    ("static float", ' ', ResForm::Plain),
    ("ByteAddressBuffer", 't', ResForm::Object),
    ("RWByteAddressBuffer", 'u', ResForm::Object),
    ("RWBufferAddress", 'u', ResForm::Object),
    ("StructuredBuffer<uint>", 't', ResForm::Object),
    ("RWStructuredBuffer<float4>", 'u', ResForm::Object),
    ("RWStructuredBuffer<S>", 'u', ResForm::Object),
    ("Buffer", 't', ResForm::Object),
    ("Buffer<uint2>", 't', ResForm::Object),
    ("RWBuffer<uint3>", 'u', ResForm::Object),
    ("Texture2D<float>", 't', ResForm::Object),
    ("Texture2DArray<float4>", 't', ResForm::Object),
    ("RWTexture2DArray<float2>", 'u', ResForm::Object),
    ("TextureCube<float4>", 't', ResForm::Object),
    ("TextureCubeArray", 't', ResForm::Object),
    ("Texture3D<float4>", 't', ResForm::Object),
    ("RWTexture3D<uint>", 'u', ResForm::Object),
    ("RaytracingAccelerationStructure", 't', ResForm::Object),
    ("SamplerComparisonState", 's', ResForm::Object),
    ("float4", ' ', ResForm::Plain),
    ("groupshared float", ' ', ResForm::Plain),
];
const RES_KINDS_CLASS: usize = 9; // the first 9 entries: one per allocator class
const RES_KINDS_SMALL: usize = 5;

/// annotation forms; `R` is replaced by the register letter of the kind
const RES_ANN_FULL: &[(&str, &str)] = &[
    ("", ""),
    ("", " : register(space1)"),
    ("[[rssl::bind_group(1)]] ", ""),
    ("", " : register(R5)"),
    ("", " : register(R2, space2)"),
    ("[[rssl::bindless]] [[rssl::bind_group(1)]] ", ""),
    ("[[vk::binding(3, 1)]] ", ""),
    ("[[vk::binding(4)]] ", ""),
    ("[[rssl::bind_group(0)]] ", ""),
];
const RES_ANN_CLASS: usize = 5;
const RES_ANN_SMALL: usize = 3;

const RES_ARR: &[&str] = &["", "[2]", "[]", "[3][2]"];

const RES_PRELUDE: &str = "struct S { float4 a; uint b; };\n";

fn res_decl(i: usize, kind: usize, ann: usize, arr: usize, in_ns: bool) -> String {
    let (ty, reg, form) = RES_KINDS_FULL[kind];
    let (pre, post) = RES_ANN_FULL[ann];
    let post = post.replace('R', &reg.to_string());
    let arr = RES_ARR[arr];
    let name = format!("g{}", i);
    let body = match form {
        ResForm::Object => format!("{}{} {}{}{};", pre, ty, name, arr, post),
        ResForm::CBuffer => format!("{}cbuffer {}{} {{ float4 {}_m{}; }}", pre, name, post, name, arr),
        ResForm::StaticSampler => format!("{}{} {}{}{} = StaticSampler {{ Filter = MIN_MAG_MIP_LINEAR; AddressU = Clamp; AddressV = Clamp; }};", pre, ty, name, arr, post),
        ResForm::Plain => format!("{}{} {}{}{};", pre, ty, name, arr, post),
    };
    if in_ns { format!("namespace N {{ {} }}\n", body) } else { format!("{}\n", body) }
}

struct ResSpace {
    len: usize,
    kinds: usize,
    anns: usize,
    arrs: usize,
    ns_patterns: u64,
}

impl ResSpace {
    fn total(&self) -> u64 {
        let per = (self.kinds * self.anns * self.arrs) as u64;
        per.pow(self.len as u32) * self.ns_patterns
    }
    fn source(&self, idx: u64) -> String {
        let mut radices = Vec::new();
        for _ in 0..self.len {
            radices.push(self.kinds as u64);
            radices.push(self.anns as u64);
            radices.push(self.arrs as u64);
        }
        radices.push(self.ns_patterns);
        let mut d = Vec::new();
        decode(idx, &radices, &mut d);
        let ns = d[self.len * 3];
        let mut s = String::from(RES_PRELUDE);
        for i in 0..self.len {
            s.push_str(&res_decl(i, d[i * 3] as usize, d[i * 3 + 1] as usize, d[i * 3 + 2] as usize, (ns >> i) & 1 == 1));
        }
        s
    }
}

// ---------------------------------------------------------------------------------------------
// space 2a': the path by which a declared type is assembled (G-TYPATH). The same variable type can reach the binder and
// the exporter as different stacks of type layers depending on where the array extent, the qualifier and the element
// type are written: on the declarator, on the base type, inside a typedef (possibly chained or namespaced), or in a
// template argument. The exporter always re-declares with a declarator array over the resolved element type, so the
// emitted text is the "direct" path of the same variable: every path must therefore behave like the direct one.
// (Added after a seeded change in `assign_api_bindings` that peeled the array layer before the modifier layer was
// missed: only `typedef T A[2]; A g;` puts the implicit const of an extern variable outside the array layer.)

/// (typedef prelude, declared type, declarator suffix, number of array levels of the declared variable)
/// `T` = the element type, `A` / `B` = alias names and `M` = a namespace name unique to the declaration
const TYPE_PATHS: &[(&str, &str, &str, usize)] = &[
    // one representative per layer stack first
    ("", "T", "", 0),
    ("", "T", "[2]", 1),
    ("typedef T A;\n", "A", "", 0),
    ("typedef T A;\n", "A", "[2]", 1),
    ("typedef T A[2];\n", "A", "", 1),
    ("typedef T A[2];\n", "A", "[3]", 2),
    ("", "const T", "[2]", 1),
    ("typedef const T A[2];\n", "A", "", 1),
    // the rest
    ("typedef T A[2];\n", "const A", "", 1),
    ("typedef const T A[2];\n", "const A", "", 1),
    ("typedef T A;\ntypedef A B[2];\n", "B", "", 1),
    ("typedef T A[2];\ntypedef A B;\n", "B", "", 1),
    ("namespace M { typedef T A[2]; }\n", "M::A", "", 1),
    ("namespace M { typedef T A; }\n", "M::A", "[2]", 1),
    ("typedef T A[3][2];\n", "A", "", 2),
    ("typedef T A[2];\ntypedef A B[3];\n", "B", "", 2),
    ("", "const T", "", 0),
    ("typedef const T A;\n", "A", "[2]", 1),
    ("typedef const T A;\n", "const A", "", 0),
    ("", "extern T", "[2]", 1),
    ("typedef T A[2];\n", "extern A", "", 1),
    ("", "T", "[3][2]", 2),
    ("", "T", "[]", 1),
    ("typedef T A[2];\n", "A", "[]", 2),
];
const TYPE_PATHS_CLASS: usize = 8;

/// (outer type, type argument or "", register letter, has a static sampler initialiser)
const PATH_ELEMS: &[(&str, &str, char, bool)] = &[
    // one per allocator class first (same order as RES_KINDS_FULL)
    ("Texture2D", "", 't', false),
    ("RWTexture2D", "float4", 'u', false),
    ("SamplerState", "", 's', false),
    ("ConstantBuffer", "S", 'b', false),
    ("BufferAddress", "", 't', false),
    ("StructuredBuffer", "S", 't', false),
    ("SamplerState", "", 's', true),
    ("float4", "", ' ', false),
    // the other object types
    ("ByteAddressBuffer", "", 't', false),
    ("RWByteAddressBuffer", "", 'u', false),
    ("RWBufferAddress", "", 'u', false),
    ("StructuredBuffer", "uint", 't', false),
    ("RWStructuredBuffer", "float4", 'u', false),
    ("RWStructuredBuffer", "S", 'u', false),
    ("Buffer", "", 't', false),
    ("Buffer", "uint2", 't', false),
    ("RWBuffer", "uint3", 'u', false),
    ("Texture2D", "float", 't', false),
    ("Texture2DArray", "float4", 't', false),
    ("RWTexture2DArray", "float2", 'u', false),
    ("TextureCube", "float4", 't', false),
    ("TextureCubeArray", "", 't', false),
    ("Texture3D", "float4", 't', false),
    ("RWTexture3D", "uint", 'u', false),
    ("RaytracingAccelerationStructure", "", 't', false),
    ("SamplerComparisonState", "", 's', false),
    // non-object element types (uniforms / plain variables)
    ("float", "", ' ', false),
    ("uint", "", ' ', false),
    ("S", "", ' ', false),
    ("float3x3", "", ' ', false),
    ("vector", "float, 3", ' ', false),
];
const PATH_ELEMS_CLASS: usize = 8;

/// how the type argument of the element type is written: as is, through a typedef, through a typedef in a namespace
const TARG_FORMS: usize = 3;

/// where the variable is declared: `$` = `<type> <name><suffix>`, `@` = the declared type as one type name (only for
/// paths without a declarator suffix). Position 0 is the pipeline resource (built by `path_resource`).
const PATH_POSITIONS: &[&str] = &[
    "",
    "static $;\n",
    "groupshared $;\n",
    "cbuffer CbP { $; }\n",
    "struct W { $; };\nConstantBuffer<W> cw;\nStructuredBuffer<W> sw;\n",
    "void fp($) {}\n",
    "void fl() { $; }\n",
    "void fo(out $) {}\n",
    "struct W { $; };\nvoid fm(W w) { W v = w; }\n",
    "namespace NP { $; }\n",
    "namespace NP { static $; }\n",
    "template<typename TX> void tf() { TX l; }\nvoid ut() { tf<@>(); }\n",
    "@ fr(@ p) { return p; }\n",
    "void fc(@ p) { @ q = (@)p; }\n",
    "uint fs() { return sizeof(@); }\n",
    "void fe(@ p) { p[1]; @ q = p; q[1] = p[1]; }\n",
];

struct PathDecl {
    /// typedefs that must precede the declaration (at the root)
    prelude: String,
    ty: String,
    suffix: String,
    levels: usize,
    elem: String,
}

/// the typedefs and the declared type of variable number `i`
fn path_decl(i: usize, elem: usize, targ: usize, path: usize) -> Option<PathDecl> {
    let (outer, arg, _, _) = PATH_ELEMS[elem];
    let mut prelude = String::new();
    let elem_ty = if arg.is_empty() {
        if targ != 0 {
            return None; // no type argument to respell: same program as targ == 0
        }
        outer.to_string()
    } else {
        match targ {
            0 => format!("{}<{}>", outer, arg),
            _ if arg.contains(',') => return None, // `vector<float, 3>` has no single type argument
            1 => {
                prelude.push_str(&format!("typedef {} Arg{};\n", arg, i));
                format!("{}<Arg{}>", outer, i)
            }
            _ => {
                prelude.push_str(&format!("namespace AN{} {{ typedef {} Arg; }}\n", i, arg));
                format!("{}<AN{}::Arg>", outer, i)
            }
        }
    };
    let (pre, ty, suffix, levels) = TYPE_PATHS[path];
    let a = format!("Al{}", i);
    let b = format!("Bl{}", i);
    let tn = format!("TN{}", i);
    let sub = |s: &str| subst(s, &[('T', &elem_ty), ('A', &a), ('B', &b), ('M', &tn)]);
    prelude.push_str(&sub(pre));
    Some(PathDecl { prelude, ty: sub(ty), suffix: suffix.to_string(), levels, elem: elem_ty })
}

/// a pipeline resource (extern global) declared through a type path, with an annotation of RES_ANN_FULL
fn path_resource(i: usize, elem: usize, targ: usize, path: usize, ann: usize, in_ns: bool) -> Option<String> {
    let d = path_decl(i, elem, targ, path)?;
    let (_, _, reg, static_sampler) = PATH_ELEMS[elem];
    let (pre, post) = RES_ANN_FULL[ann];
    let post = post.replace('R', &reg.to_string());
    let init = if static_sampler { " = StaticSampler { Filter = MIN_MAG_MIP_LINEAR; AddressU = Clamp; AddressV = Clamp; }" } else { "" };
    let body = format!("{}{} g{}{}{}{};", pre, d.ty, i, d.suffix, post, init);
    Some(if in_ns { format!("{}namespace N {{ {} }}\n", d.prelude, body) } else { format!("{}{}\n", d.prelude, body) })
}

/// a function that copies one element of resource `i` into a local of the element type (a reference through every
/// array level of the declared variable)
fn path_use(i: usize, elem: usize, targ: usize, path: usize, in_ns: bool) -> Option<String> {
    let d = path_decl(i, elem, targ, path)?;
    let idx = "[1]".repeat(d.levels);
    Some(format!("void use{}() {{ {} l = {}g{}{}; }}\n", i, d.elem, if in_ns { "N::" } else { "" }, i, idx))
}

/// a variable of a path-assembled type in declaring position `pos` (not the resource position 0)
fn path_position(elem: usize, targ: usize, path: usize, pos: usize) -> Option<String> {
    let d = path_decl(0, elem, targ, path)?;
    let template = PATH_POSITIONS[pos];
    if template.contains('@') && !d.suffix.is_empty() {
        return None; // the position takes a type name, not a declarator
    }
    let decl = format!("{} v0{}", d.ty, d.suffix);
    Some(format!("{}{}{}", RES_PRELUDE, d.prelude, subst(template, &[('$', &decl), ('@', &d.ty)])))
}

/// (element, type-argument form) combinations that are distinct programs, over the first `n` element types
fn path_elem_forms(n: usize) -> Vec<(usize, usize)> {
    let mut v = Vec::new();
    for e in 0..n {
        for t in 0..TARG_FORMS {
            if path_decl(0, e, t, 0).is_some() {
                v.push((e, t));
            }
        }
    }
    v
}

// ---------------------------------------------------------------------------------------------
// space 2b: declaration kinds (G-DECL), singles and ordered pairs. `$` is replaced by a per-snippet index so that two
// snippets can be placed in one program; `@` names are deliberately shared between the two snippets of a pair.

const DECLS: &[&str] = &[
    // a nested namespace that reuses the name of an outer one, with references from the enclosing namespace to the outer
    // one spelled `::M::x` (added after a seeded change in qualified-name lookup was missed)
    "namespace M$ { static const float pi$ = 3.0f; float twice$(float x) { return x * 2.0f; } enum K$ { K$_A, K$_B = 5 }; static int cnt$ = 0; }\nnamespace L$ { namespace M$ { float falloff$(float d) { return 1.0f / d; } }\nfloat shade$(float d) { ::M$::cnt$ = ::M$::cnt$ + 1; ::M$::K$ k = ::M$::K$_B; return M$::falloff$(d) * ::M$::twice$(::M$::pi$) + (float)k; } }\nfloat useNs$(float d) { return L$::shade$(d) + M$::twice$(d); }",
    // structs, methods
    "struct P$ { float x; float y; float len2() { return x * x + y * y; } float dot(P$ o) { return x * o.x + y * o.y; } void scale(float s) { x *= s; y *= s; } };\nfloat useP$(P$ p) { p.scale(2.0); return p.len2() + p.dot(p); }",
    "struct A$ { float a; int b[2]; float4 c; float3x3 m; };\nstruct B$ { A$ inner; A$ list[2]; uint n; };\nfloat useAB$(B$ v) { return v.inner.a + v.list[1].c.x + v.inner.m[0][1]; }",
    "struct V$ { float4 pos : SV_Position; float2 uv : TEXCOORD0; nointerpolation uint id : ID; };\nV$ vs$(float3 p : POSITION, uint i : SV_VertexID) { V$ o; o.pos = float4(p, 1.0); o.uv = p.xy; o.id = i; return o; }\nfloat4 ps$(V$ v) : SV_Target0 { return float4(v.uv, 0.0, 1.0); }",
    "struct Q$ { uint v; uint get() { return v; } void set(uint n) { v = n; } uint twice() { return get() + get(); } };\nuint useQ$() { Q$ q; q.set(3u); return q.twice(); }",
    // function templates instantiated at two types
    "template<typename T> T tid$(T a) { return a; }\nvoid useT$() { int x = tid$<int>(1); float y = tid$<float>(2.5); uint z = tid$(3u); }",
    "template<typename T> T tadd$(T a, T b) { return a + b; }\nfloat useTa$(float f, int i) { return tadd$<float>(f, 1.0) + tadd$<int>(i, 2); }",
    "template<typename T, uint N> T tmul$(T a) { return a * N; }\nuint useTm$() { return tmul$<uint, 3>(2u) + tmul$<uint, 4>(2u); }",
    "struct TS$ { float m; };\ntemplate<typename T> T tpass$(T a) { T b = a; return b; }\nvoid useTp$() { TS$ s; s.m = 1.0; TS$ r = tpass$<TS$>(s); float3 v = tpass$<float3>(float3(1, 2, 3)); }",
    "template<typename T> struct TB$ { T v; T get() { return v; } };\nfloat useTB$() { TB$<float> b; b.v = 1.0; return b.get(); }",
    // enums
    "enum E$ { E$_A, E$_B = 2, E$_C = E$_B + 1, E$_D };\nint useE$(E$ e) { E$ f = E$_C; if (e == E$_B) { return 1; } return (int)f; }",
    "enum C$ { C$A, C$B, C$Last = 7 };\nint useC$() { C$ c = C$::C$B; return c == C$::C$Last ? 1 : 0; }",
    "enum F$ { F$_X = 1, F$_Y = 2, F$_Z = 4 };\nuint useF$() { F$ m = (F$)(F$_X | F$_Z); F$ z = (F$)8; return (uint)m + (uint)z; }",
    // namespaces
    "namespace @ { float k$() { return 1.0; } namespace Inner { float k$() { return 2.0; } } }\nfloat useN$() { return @::k$() + @::Inner::k$(); }",
    "namespace @ { struct T$ { float v; }; static const float c$ = 0.5; T$ make$() { T$ t; t.v = c$; return t; } }\nnamespace Other$ { struct T$ { int v; }; @::T$ conv$(T$ t) { @::T$ r = @::make$(); r.v += (float)t.v; return r; } }",
    "namespace @ { void ov$(int a) {} void ov$(float a) {} void ov$(float a, float b) {} }\nvoid useOv$() { @::ov$(1); @::ov$(1.0); @::ov$(1.0, 2.0); }",
    "namespace @ { enum NE$ { NE$_A, NE$_B }; }\nint useNE$() { @::NE$ e = @::NE$_B; return (int)e; }",
    // overloads, default parameters, out/inout
    "float o$(float a) { return a; }\nint o$(int a) { return a; }\nuint o$(uint a) { return a; }\nfloat2 o$(float2 a) { return a; }\nvoid useO$(float f, int i, uint u) { o$(f); o$(i); o$(u); o$(float2(f, f)); o$(1.0f); o$(1u); }",
    "float dp$(float a, float b = 1.5, int c = 2, bool d = true) { return a + b; }\nfloat useDp$() { return dp$(1.0) + dp$(1.0, 2.0) + dp$(1.0, 2.0, 3) + dp$(1.0, 2.0, 3, false); }",
    "void io$(in float a, out float b, inout float c) { b = a; c += a; }\nfloat useIo$() { float x = 1.0; float y; float z = 2.0; io$(x, y, z); return y + z; }",
    "void oa$(out float4 v, out int n[2]) { v = float4(0, 0, 0, 0); n[0] = 1; n[1] = 2; }\nvoid useOa$() { float4 v; int n[2]; oa$(v, n); }",
    "float decl$(float a);\nfloat useDecl$() { return decl$(1.0); }\nfloat decl$(float a) { return a * 2.0; }",
    // globals
    "static float sg$ = 1.0;\nstatic const uint sc$ = 3u;\nstatic const float sa$[3] = { 1.0, 2.0, 3.0 };\nstatic const float2 sv$ = float2(0.5, 0.25);\nfloat useSg$() { sg$ += sa$[sc$ - 1u]; return sg$ + sv$.y; }",
    "groupshared float gs$[64];\ngroupshared uint gu$;\n[numthreads(64, 1, 1)] void useGs$(uint i : SV_GroupIndex) { gs$[i] = 1.0; GroupMemoryBarrierWithGroupSync(); gu$ = 0u; }",
    "static const int dim$ = 4;\nstatic float grid$[dim$][dim$ * 2];\nfloat useGrid$() { return grid$[1][2]; }",
    "float4 uni$;\nfloat4x4 mat$;\nrow_major float4x4 rm$;\nfloat4 useUni$() { return mul(uni$, mat$) + mul(rm$, uni$); }",
    // typedefs
    "typedef float4 Col$;\ntypedef uint Idx$[2];\nCol$ useTd$(Col$ c) { Idx$ i; i[0] = 1u; Col$ d = c * 2.0; return d; }",
    "typedef vector<float, 3> V3$;\ntypedef matrix<float, 2, 2> M2$;\nV3$ useV3$(V3$ a, M2$ m) { vector<int, 2> iv = vector<int, 2>(1, 2); return a * m[0][0]; }",
    // cbuffers
    "cbuffer CB$ { float4 cba$; uint cbb$; float cbc$[4]; }\nfloat useCb$() { return cba$.x + cbc$[cbb$]; }",
    "cbuffer CR$ : register(b3) { float4x4 crm$; float3 crv$; }\nfloat4 useCr$() { return mul(crm$, float4(crv$, 1.0)); }",
    "struct CS$ { float4 tint; uint mode; };\nConstantBuffer<CS$> cs$;\nConstantBuffer<CS$> csr$ : register(b2, space1);\nfloat4 useCs$() { return cs$.tint * (float)csr$.mode; }",
    // resources with methods
    "Texture2D<float4> tx$;\nSamplerState ss$;\nfloat4 useTx$(float2 uv) { uint w; uint h; tx$.GetDimensions(w, h); return tx$.Sample(ss$, uv) + tx$.SampleLevel(ss$, uv, 0.0) + tx$.Load(int3(0, 0, 0)) + tx$[uint2(1u, 1u)]; }",
    "RWTexture2D<float4> rw$ : register(u1);\nTexture2D tl$ : register(t0, space2);\nvoid useRw$(uint2 p) { rw$[p] = tl$.Load(int3(p, 0)); rw$[p] += float4(1, 1, 1, 1); }",
    "struct Item$ { float3 p; uint k; };\nStructuredBuffer<Item$> sb$;\nRWStructuredBuffer<Item$> rsb$;\nvoid useSb$(uint i) { Item$ it = sb$[i]; it.k += 1u; rsb$[i] = it; rsb$[i].p = sb$.Load(i).p; }",
    "ByteAddressBuffer ba$;\nRWByteAddressBuffer rba$;\nvoid useBa$(uint o) { uint a = ba$.Load(o); uint2 b = ba$.Load2(o); rba$.Store(o, a + b.x); uint prev; rba$.InterlockedAdd(o, 1u, prev); float f = ba$.Load<float>(o); }",
    "BufferAddress bad$;\nRWBufferAddress rbad$;\nvoid useBad$(uint o) { uint v = bad$.Load<uint>(o); rbad$.Store<uint>(o, v); }",
    "Buffer<float4> tb$;\nRWBuffer<uint> rtb$;\nvoid useTb$(uint i) { float4 v = tb$.Load(i); rtb$[i] = (uint)v.x; }",
    "Texture2DArray<float4> ta$;\nTextureCube<float4> tc$;\nTexture3D<float4> t3$;\nSamplerState sa$;\nSamplerComparisonState sc$;\nTexture2D<float> sh$;\nfloat4 useTa$(float3 d) { return ta$.Sample(sa$, d) + tc$.Sample(sa$, d) + t3$.Sample(sa$, d) + sh$.SampleCmpLevelZero(sc$, d.xy, 0.5, int2(0, 0)); }",
    "[[rssl::bindless]] [[rssl::bind_group(1)]] Texture2D<float4> bl$[1024];\nSamplerState bs$;\nfloat4 useBl$(uint i, float2 uv) { Texture2D t = bl$[i]; return t.SampleLevel(bs$, uv, 0.0) + bl$[NonUniformResourceIndex(i)].Load(int3(0, 0, 0)); }",
    "SamplerState st$ = StaticSampler { Filter = MIN_MAG_MIP_POINT; AddressU = Wrap; AddressV = Wrap; };\nTexture2D stt$;\nfloat4 useSt$(float2 uv) { return stt$.Sample(st$, uv); }",
    "Texture2D<float4> ma$, mb$ : register(t7), mc$[2];\nfloat4 useM$() { return ma$.Load(int3(0, 0, 0)) + mb$.Load(int3(0, 0, 0)) + mc$[1].Load(int3(0, 0, 0)); }",
    "namespace @ { Texture2D<float4> nt$; cbuffer NC$ { float4 ncv$; } }\nTexture2D<float4> rt$;\nfloat4 useNt$() { return @::nt$.Load(int3(0, 0, 0)) + rt$.Load(int3(0, 0, 0)) + @::ncv$; }",
    // attributes
    "[numthreads(8, 4, 1)] void cs$(uint3 id : SV_DispatchThreadID, uint gi : SV_GroupIndex, uint3 gid : SV_GroupID) {}",
    "static const uint tg$ = 32u;\n[numthreads(tg$, 1, 1)] [WaveSize(32)] void csw$(uint3 id : SV_DispatchThreadID) { uint l = WaveGetLaneIndex(); uint s = WaveActiveSum(l); }",
    "float at$(int n, bool q) { float s = 0.0; [unroll] for (int i = 0; i < 4; ++i) { s += 1.0; } [unroll(2)] for (int j = 0; j < 2; ++j) { s += 2.0; } [loop] while (n > 0) { --n; } [branch] if (q) { s = 1.0; } [flatten] if (q) { s = 2.0; } else { s = 3.0; } [fastopt] for (;;) { break; } [allow_uav_condition] while (q) { break; } return s; }",
    "float sw$(int n) { switch (n) { case 0: return 1.0; case 1: case 2: { return 2.0; } case -1: break; default: return 3.0; } return 0.0; }",
    // parameter and type modifiers
    "void pm$(const float a, const in float3 b, precise float c, row_major float3x3 m, column_major float3x3 n, float arr[3], float g[2][2]) {}",
    "float4 ip$(nointerpolation float a : A, linear float b : B, centroid float c : C, noperspective float d : D, sample float e : E) : SV_Target { return float4(a, b, c, d + e); }",
    "void loc$() { const float a = 1.0; static float b = 2.0; precise float c = a + b; const uint n = 2u; float arr[n]; float4 v = { 1.0, 2.0, 3.0, 4.0 }; int2 iv = int2(1, 2), jv; jv = iv; }",
    "struct Agg$ { float a; int2 b; float c[2]; };\nvoid agg$() { Agg$ s = { 1.0, { 2, 3 }, { 4.0, 5.0 } }; Agg$ z = (Agg$)0; Agg$ arr[2] = { s, z }; float t = arr[1].c[0]; }",
    "void vec$(float4 v, int3 i, bool2 q, float3x3 m) { float2 a = v.xy; float3 b = v.zyx; v.xw = a; float c = m._m00 + m._11 + m[1][2]; float3 r = m[0]; i.x = i.y << 2; bool2 n = !q; float4 d = v.xxxx; float e = v[2]; v[i.x] = 1.0; }",
    "void intr$(float a, float3 v, uint u, int i) { float r = min(a, 1.0) + max(a, 0.0) + clamp(a, 0.0, 1.0) + saturate(a) + lerp(a, 1.0, 0.5) + dot(v, v) + length(v) + abs(a) + pow(a, 2.0) + sqrt(a) + rsqrt(a) + frac(a) + floor(a) + step(0.5, a) + smoothstep(0.0, 1.0, a); float3 n = normalize(v) + cross(v, v) + reflect(v, v); uint c = countbits(u) + firstbithigh(u) + reversebits(u) + asuint(a) + f32tof16(a); int s = asint(a) + sign(i) + abs(i); float f = asfloat(u) + f16tof32(u) + (float)isnan(a); bool q = any(v > 0.0) || all(v < 1.0); float3 sel = select(v > 0.0, v, -v); float sn; float cs; sincos(a, sn, cs); }",
    "void cast$(float a, int i, uint u, bool q, half h, double d) { float f = i; int j = a; uint v = i; bool b = a; float g = q; half k = a; double e = a; float m = d; float3 s = a; int2 t = (int2)u; float w = (float)i + u; uint x = u + i; float y = q ? a : i; i += a; u *= a; h += 1.0; }",
    "uint big$(uint a) { uint c = a + (uint)1ul; uint d = (uint)(2ul * 3ul) + (uint)4l; return c + d; }",
    "half hf$(half a, half3 v) { half b = a * 2.0h + 0.5h; half3 w = v * b; return w.x + (half)1.0; }",
    "double db$(double a) { double b = a * 2.0L + 0.1L; return b + 1e300L; }",
    "void seq$(int a, int b) { int c = (a, b); for (int i = 0, j = 1; i < 4; ++i, --j) { c += (i, j); } a = b = c; a += b -= c; bool q = a < b == b > c; int d = a ? b : c ? a : b; int e = (a ? b : c) ? a : b; int f = -a - -b - (-c); int g = a - (b - c); int h = a / (b * c); int k = (a + b) * c; int l = ~a & (b | c) ^ a; int m = a << b >> c; bool n = !q && q || !q; int o = a++ + ++b - c-- - --d; int p = -(-a); int r = - -a; int s = +(+a); }",
    "float rec$(float a) { if (a <= 0.0) { return 0.0; } return rec$(a - 1.0) + 1.0; }",
    "struct R$ { float v; };\nR$ mk$(float a) { R$ r; r.v = a; return r; }\nfloat useMk$() { return mk$(1.0).v + mk$(2.0).v; }",
    "inline float inl$() { return 1.0; }\nstatic float stf$() { return inl$(); }",
    "RaytracingAccelerationStructure as$;\nvoid rq$(float3 o, float3 d) { RayDesc ray; ray.Origin = o; ray.Direction = d; ray.TMin = 0.0; ray.TMax = 1e30; RayQuery<RAY_FLAG_NONE> q; q.TraceRayInline(as$, RAY_FLAG_NONE, 0xffu, ray); while (q.Proceed()) { if (q.CandidateType() == CANDIDATE_NON_OPAQUE_TRIANGLE) { q.CommitNonOpaqueTriangleHit(); } } bool hit = q.CommittedStatus() == COMMITTED_TRIANGLE_HIT; float t = q.CommittedRayT(); }",
    "struct GV$ { float4 p : SV_Position; };\n[maxvertexcount(3)] void gsh$(triangle GV$ i[3], inout TriangleStream<GV$> o) { o.Append(i[0]); o.RestartStrip(); }",
];

fn decl_instance(snippet: usize, k: usize, shared: &str) -> String {
    subst(DECLS[snippet], &[('$', &k.to_string()), ('@', shared)])
}

/// one-pass placeholder substitution (a replacement text is never rescanned)
fn subst(template: &str, map: &[(char, &str)]) -> String {
    let mut out = String::with_capacity(template.len() + 16);
    for c in template.chars() {
        match map.iter().find(|m| m.0 == c) {
            Some(m) => out.push_str(m.1),
            None => out.push(c),
        }
    }
    out
}

fn decl_single(snippet: usize) -> String {
    format!("{}\n", decl_instance(snippet, 0, "NsA"))
}

/// ordered pair: both snippets in one program; namespaces named `@` are shared (reopened) when `share`
fn decl_pair(i: usize, j: usize, share: bool) -> String {
    format!("{}\n{}\n", decl_instance(i, 0, "NsA"), decl_instance(j, 1, if share { "NsA" } else { "NsB" }))
}

// ---------------------------------------------------------------------------------------------
// space 2c / 4: names. Entities declared under a chosen name in a chosen scope, each followed by a use through the
// qualified name, so that whatever the exporter renames must still be declared and used consistently on re-reading.

const ENTITY_KINDS: &[&str] = &[
    // N = the name, Q = qualification prefix of the scope, K = unique index
    "void N(int a) {}\n#void useK() { QN(1); }",
    "void N(float a) {}\n#void useK() { QN(1.5); }",
    "struct N { int m; };\n#void useK() { QN v; v.m = 1; }",
    "static int N = 1;\n#void useK() { QN = QN + 1; }",
    "#void hK(int p) { int N = p; N = N + 1; }",
    "namespace N { static int innerK = 2; }\n#void useK() { QN::innerK = 3; }",
    "#void pK(int N) { N = N + 1; }",
    "enum N { N_eK };\n#void useK() { QN v = QN_eK; }",
    "template<typename T> T N(T a) { return a; }\n#void useK() { QN<int>(1); QN<float>(1.5); }",
    "struct MK { int N() { return 1; } int m; };\n#void useK() { QMK v; v.N(); }",
    "struct FK { int N; };\n#void useK() { QFK v; v.N = 1; }",
    "enum EK { N };\n#void useK() { QEK v = QN; }",
    "typedef float2 N;\n#void useK() { QN v = QN(1, 2); }",
    "Texture2D<float4> N;\n#void useK() { QN.Load(int3(0, 0, 0)); }",
    "cbuffer CK { float4 N; }\n#void useK() { float4 v = QN; }",
    "cbuffer N { float4 cmK; }\n#void useK() { float4 v = QcmK; }",
    "#void lK() { for (int N = 0; N < 2; ++N) { int t = N; } }",
    "template<typename N> N tpK(N a) { N b = a; return b; }\n#void useK() { QtpK<int>(1); }",
    "enum XK { N, N_2 };\n#void useK() { QXK v = QXK::N; }",
    "static const int N = 2;\n#void useK() { int arrK[QN]; }",
    // overloads that receive generated names (Nq_0, Nq_1) used inside a scope whose local already has such a name
    // (added after a seeded change in the name generator's all-scopes bookkeeping was missed)
    "void Nq(int a) {}\nvoid Nq(float a) {}\n#void ucK(int p) { int Nq_0 = p; QNq(Nq_0); QNq(1.5); }",
    // a namespace (possibly renamed by the exporter) holding a cbuffer whose member is read through the qualified name
    "namespace N { cbuffer CnK { float4 nmK; } }\n#void useK() { float4 v = QN::nmK; }",
];
const ENTITY_KINDS_CLASS: usize = 6;

/// (open, close, qualification)
const SCOPES: &[(&str, &str, &str)] = &[("", "", ""), ("namespace A {\n", "}\n", "A::"), ("namespace A { namespace B {\n", "} }\n", "A::B::"), ("namespace B {\n", "}\n", "B::")];

fn entity(kind: usize, name: &str, scope: usize, k: usize) -> String {
    let (open, close, q) = SCOPES[scope];
    let t = ENTITY_KINDS[kind];
    // the part before '#' is declared inside the scope, the part after it at the root
    let (inside, outside) = t.split_once('#').unwrap_or((t, ""));
    let ks = k.to_string();
    let sub = |s: &str, q: &str| subst(s, &[('Q', q), ('N', name), ('K', &ks)]);
    // kinds that have nothing before '#' live wholly inside the scope
    if inside.is_empty() { format!("{}{}\n{}", open, sub(outside, ""), close) } else { format!("{}{}{}{}\n", open, sub(inside, q), close, sub(outside, q)) }
}

const CLASH_NAMES: &[&str] = &["f", "f_0", "min", "f_1", "f_0_0", "sample"];

// ---------------------------------------------------------------------------------------------
// space 3a: expressions. Trees are written fully parenthesised so that the source fixes the tree; the exporter then
// decides parentheses and casts on its own and must read its own decision back identically.

/// (text with holes {0} {1} {2}, arity)
const EXPR_OPS: &[(&str, usize)] = &[
    // one representative per (precedence, associativity, first/last character, operand rule) class first
    ("{0} + {1}", 2),
    ("{0} - {1}", 2),
    ("{0} * {1}", 2),
    ("-{0}", 1),
    ("{0} < {1}", 2),
    ("{0} == {1}", 2),
    ("{0} && {1}", 2),
    ("{0} ? {1} : {2}", 3),
    ("{0} = {1}", 2),
    ("{0} += {1}", 2),
    ("{0}, {1}", 2),
    ("(float){0}", 1),
    ("(int){0}", 1),
    ("{0}++", 1),
    ("++{0}", 1),
    ("!{0}", 1),
    ("{0} << {1}", 2),
    ("{0} & {1}", 2),
    ("fn1({0})", 1),
    ("float2({0}, {1})", 2),
    ("{0}.x", 1),
    ("arr[{0}]", 1),
    // the rest of the full alphabet
    ("{0} / {1}", 2),
    ("{0} % {1}", 2),
    ("{0} >> {1}", 2),
    ("{0} <= {1}", 2),
    ("{0} > {1}", 2),
    ("{0} >= {1}", 2),
    ("{0} != {1}", 2),
    ("{0} ^ {1}", 2),
    ("{0} | {1}", 2),
    ("{0} || {1}", 2),
    ("{0} -= {1}", 2),
    ("{0} *= {1}", 2),
    ("{0} /= {1}", 2),
    ("{0} %= {1}", 2),
    ("{0} <<= {1}", 2),
    ("{0} >>= {1}", 2),
    ("{0} &= {1}", 2),
    ("{0} |= {1}", 2),
    ("{0} ^= {1}", 2),
    ("+{0}", 1),
    ("~{0}", 1),
    ("--{0}", 1),
    ("{0}--", 1),
    ("(uint){0}", 1),
    ("(bool){0}", 1),
    ("(half){0}", 1),
    ("(double){0}", 1),
    ("(float3){0}", 1),
    ("int3({0}, {1}, {2})", 3),
    ("{0}.xx", 1),
    ("fv[{0}]", 1),
    ("mk({0}).m", 1),
    ("ov({0})", 1),
    ("tid<int>({0})", 1),
    ("tid({0})", 1),
    ("s.meth({0})", 1),
    ("min({0}, {1})", 2),
    ("abs({0})", 1),
    ("clamp({0}, {1}, {2})", 3),
    ("asuint({0})", 1),
    ("select({0}, {1}, {2})", 3),
    ("sizeof({0})", 1),
    ("s.m + {0}", 1),
    ("fv.xy = float2({0}, {1})", 2),
];
const EXPR_OPS_CLASS: usize = 22;

const EXPR_TYPES: &[&str] = &["int", "float", "uint", "bool", "half", "double", "float3", "int3", "bool3"];

const EXPR_PRELUDE: &str = "struct S { float m; int n; float meth(float x) { return x + m; } };\nS mk(float x) { S r; r.m = x; r.n = 0; return r; }\nfloat fn1(float x) { return x; }\nint ov(int x) { return x; }\nfloat ov(float x) { return x; }\ntemplate<typename T> T tid(T a) { return a; }\n";

fn fill(op: &str, args: &[String]) -> String {
    let mut s = op.to_string();
    for (i, a) in args.iter().enumerate() {
        s = s.replace(&format!("{{{}}}", i), a);
    }
    s
}

/// a tree: root operator with, per hole, either a leaf or a depth-1 operator over leaves
#[derive(Clone)]
struct ExprTree {
    root: usize,
    /// child operator per hole (None = leaf)
    children: Vec<Option<usize>>,
}

impl ExprTree {
    fn text(&self) -> String {
        let leaves = ["a", "b", "c"];
        let mut next = 0usize;
        let mut leaf = || {
            let l = leaves[next % 3].to_string();
            next += 1;
            l
        };
        let (rt, ar) = EXPR_OPS[self.root];
        let mut args = Vec::new();
        for h in 0..ar {
            match self.children.get(h).copied().flatten() {
                None => args.push(leaf()),
                Some(c) => {
                    let (ct, car) = EXPR_OPS[c];
                    let cargs: Vec<String> = (0..car).map(|_| leaf()).collect();
                    args.push(format!("({})", fill(ct, &cargs)));
                }
            }
        }
        fill(rt, &args)
    }
    fn label(&self) -> String {
        let mut s = EXPR_OPS[self.root].0.to_string();
        for c in &self.children {
            if let Some(c) = c {
                s.push_str(" <- ");
                s.push_str(EXPR_OPS[*c].0);
            }
        }
        s
    }
}

/// depth ≤ 2 with exactly one non-leaf hole (plus the depth-1 trees), over the first `n_ops` operators
fn expr_trees_single(n_ops: usize) -> Vec<ExprTree> {
    let mut v = Vec::new();
    for r in 0..n_ops {
        v.push(ExprTree { root: r, children: vec![None; EXPR_OPS[r].1] });
    }
    for r in 0..n_ops {
        for h in 0..EXPR_OPS[r].1 {
            for c in 0..n_ops {
                let mut ch = vec![None; EXPR_OPS[r].1];
                ch[h] = Some(c);
                v.push(ExprTree { root: r, children: ch });
            }
        }
    }
    v
}

/// every hole filled, binary and ternary roots only
fn expr_trees_full(n_ops: usize) -> Vec<ExprTree> {
    let mut v = Vec::new();
    for r in 0..n_ops {
        let ar = EXPR_OPS[r].1;
        if ar < 2 {
            continue;
        }
        let total = (n_ops as u64).pow(ar as u32);
        let rad: Vec<u64> = vec![n_ops as u64; ar];
        let mut d = Vec::new();
        for i in 0..total {
            decode(i, &rad, &mut d);
            v.push(ExprTree { root: r, children: d.iter().map(|c| Some(*c as usize)).collect() });
        }
    }
    v
}

/// the context an expression is placed in
/// E = the expression, A / B = the types of the leaves a,c / b
const EXPR_CONTEXTS: &[&str] = &["E;", "B r = E;", "return E;", "fn1(E);", "if (E) { }", "A r[2] = { E, E };", "for (; E; ) { break; }", "while (E) { break; }", "a = E;", "int k = arr2[E];"];

fn expr_program(tree: &ExprTree, ta: &str, tb: &str, context: usize) -> String {
    let e = tree.text();
    let ctx = subst(EXPR_CONTEXTS[context], &[('A', ta), ('B', tb), ('E', &e)]);
    let ret = if context == 2 { tb } else { "void" };
    format!("{}{} f({} a, {} b, {} c) {{ S s; s.m = 1.0; s.n = 2; float4 fv = float4(1, 2, 3, 4); float arr[4] = {{ 1.0, 2.0, 3.0, 4.0 }}; int arr2[2] = {{ 1, 2 }}; {} }}\n", EXPR_PRELUDE, ret, ta, tb, ta, ctx)
}

// ---------------------------------------------------------------------------------------------
// space 3b: literals

const INT_VALUES: &[&str] = &[
    "0", "1", "2", "3", "7", "8", "9", "10", "15", "16", "17", "31", "32", "33", "63", "64", "65", "127", "128", "129", "255", "256", "257", "32767", "32768", "65535", "65536", "16777216", "16777217", "2147483647", "2147483648", "2147483649", "4294967295", "4294967296", "4294967297",
    "9007199254740993", "9223372036854775807", "9223372036854775808", "9223372036854775809", "18446744073709551615", "0x7fffffff", "0x80000000", "0xffffffff", "0xFFFFFFFFFFFFFFFF", "017", "00",
];
const FLOAT_VALUES: &[&str] = &[
    "0.0", "1.0", "0.5", "0.25", "0.1", "0.2", "0.3", "1.5", "2.5", "0.0031308", "1e-7", "1e21", "1e22", "1e23", "3.4e38", "65504.0", "3.4028235e38", "3.4028236e38", "1e39", "65505.0", "65520.0", "6.1e-5", "5.96e-8", "1e-45", "1e-38", "1e-40", "1.17549435e-38", "16777216.0", "16777217.0", "9007199254740993.0",
    "0.30000000000000004", "1.0000001", "1.00000001", "3.14159265358979", "2.718281828", "1e10", "1.5e-3", "123456789.0", "1234567890123456789.0", "1e15", "1e16", "1e17", "9.999999e-5", "1e308", "1.7976931348623157e308", "1e309", "4.9e-324", "2.2250738585072014e-308", "1.", "1e0", "1E+2", "12.5e-1", "2147483648.0",
    "4294967296.0", "9223372036854775807.0", "9223372036854775808.0", "18446744073709551616.0", "0.000001", "100000.0", "1e5", "1e6", "1e7", "0.1e1",
];
const INT_SUFFIXES: &[&str] = &["", "u", "ul", "l"];
const FLOAT_SUFFIXES: &[&str] = &["", "h", "f", "L"];

/// positions; `$` = the literal (with sign), `@` = a declared type
const LIT_POSITIONS: &[&str] = &[
    "static const @ k = $;\n@ use() { return k; }",
    "@ f() { return $; }",
    "void g(@ x) {}\nvoid m() { g($); }",
    "void g(@ x = $) {}\nvoid m() { g(); }",
    "void m() { @ a = $; @ b = $ + $; }",
    "static float arr[$];",
    "void m() { float a[$]; }",
    "void m(int x) { switch (x) { case $: break; default: break; } }",
    "enum E { A = $, B };\nvoid m() { E e = A; E f = B; }",
    "template<uint N> uint t() { return N; }\nvoid m() { t<$>(); }",
    "template<int N> int t() { return N; }\nvoid m() { t<$>(); }",
    "[numthreads($, 1, 1)] void m() {}",
    "void m() { [unroll($)] for (int i = 0; i < 2; ++i) { } }",
    "void m(float x) { float y = $ + $; float z = x * $; float w = $; }",
    "void m() { float2 v = float2($, $); int2 i = int2($, $); uint3 u = uint3($, $, $); }",
    "void m() { $; }",
    "static const float k[2] = { $, $ };",
    "void m(float a[4]) { a[$] = 1.0; }",
    "void m(float x, int i, uint u) { if (x < $) { } if (i == $) { } if (u > $) { } }",
    "void m(int i, uint u, float x) { i += $; u |= $; x *= $; i = i << $; }",
    "void m(bool q) { float x = q ? $ : $; }",
    "void m() { float x = (float)$; int i = (int)$; uint u = (uint)$; }",
    "void m() { float x = min($, $) + abs($) + pow($, $); }",
    "void m() { uint a = asuint($); uint b = $ + $; float c = $ * $; }",
    "cbuffer C { float v[$]; }",
    "Texture2D<float4> t[$];",
    "struct S { float a[$]; };",
];
const LIT_TYPED_POSITIONS: usize = 5;
const LIT_TYPES: &[&str] = &["float", "int", "uint", "double", "half", "bool", "float2", "int3"];
const LIT_SIGNS: &[&str] = &["", "-", "+"];

struct LitSpace {
    spellings: Vec<String>,
    signs: usize,
}

impl LitSpace {
    fn new(quick: bool) -> LitSpace {
        let mut spellings = Vec::new();
        for (i, v) in INT_VALUES.iter().enumerate() {
            for s in INT_SUFFIXES {
                // the front end has no 64-bit integer type: `l` / `ul` literals are lexed but never type-check, so the
                // quick tier only keeps a few of them to show that they stay outside the property's domain
                if quick && (*s == "ul" || *s == "l") && i % 8 != 0 {
                    continue;
                }
                spellings.push(format!("{}{}", v, s));
            }
        }
        for v in FLOAT_VALUES {
            for s in FLOAT_SUFFIXES {
                spellings.push(format!("{}{}", v, s));
            }
        }
        for b in ["true", "false"] {
            spellings.push(b.to_string());
        }
        LitSpace { spellings, signs: if quick { 2 } else { LIT_SIGNS.len() } }
    }
    fn variants(&self) -> u64 {
        (LIT_TYPED_POSITIONS * LIT_TYPES.len() + LIT_POSITIONS.len() - LIT_TYPED_POSITIONS) as u64
    }
    fn total(&self) -> u64 {
        self.spellings.len() as u64 * self.signs as u64 * self.variants()
    }
    fn source(&self, idx: u64) -> (String, String) {
        let mut d = Vec::new();
        decode(idx, &[self.variants(), self.signs as u64, self.spellings.len() as u64], &mut d);
        let lit = format!("{}{}", LIT_SIGNS[d[1] as usize], self.spellings[d[2] as usize]);
        let v = d[0] as usize;
        let nt = LIT_TYPES.len();
        let (pos, ty) = if v < LIT_TYPED_POSITIONS * nt { (v / nt, LIT_TYPES[v % nt]) } else { (v - LIT_TYPED_POSITIONS * nt + LIT_TYPED_POSITIONS, "float") };
        (format!("{}\n", subst(LIT_POSITIONS[pos], &[('@', ty), ('$', &lit)])), format!("literal {} in position {}", lit, pos))
    }
}

// ---------------------------------------------------------------------------------------------
// space 3c: statements (G-STMT), nesting ≤ 2

const STMT_LEAVES: &[&str] = &[
    ";",
    "a = b;",
    "x = x * 2.0;",
    "float t = x;",
    "float t = x, u = 1.0, w;",
    "const int k = 3;",
    "static float st = 1.0;",
    "float la[2] = { x, 1.0 };",
    "float2 p = float2(x, x);",
    "S s2 = { 1.0, 2 };",
    "S s3 = (S)0;",
    "{ }",
    "{ a = 1; b = 2; }",
    "{ int a = 2; { int b = a; } }",
    "return;",
    "discard;",
    "a++;",
    "v.xy = v.yx;",
    "arr[a] = x;",
    "s.m = x;",
    "fn1(x);",
    "int a = b;",
    "break;",
    "continue;",
];

const STMT_FORMS: &[&str] = &[
    "H",
    "H I",
    "if (q) H",
    "if (q) H else I",
    "if (q) { H } else { I }",
    "if (a) if (b) H else I",
    "if (a) { if (b) H } else I",
    "if (q) H else if (b) I else H",
    "for (;;) { H break; }",
    "for (int i = 0; i < n; ++i) H",
    "for (a = 0; a < 4; a++) { H I }",
    "for (int i = 0, j = 1; i < 4; ++i, --j) H",
    "for (int i = 0; i < 2; ++i) for (int j = 0; j < 2; ++j) H",
    "while (q) H",
    "while (q) { H continue; }",
    "do H while (q);",
    "do { H break; } while (q);",
    "switch (a) { case 0: H break; case 1: case 2: I default: H }",
    "switch (a) { default: H break; }",
    "switch (a) { case 1 + 2: { H } break; }",
    "switch (a) { case 0: { H I } case 1: break; }",
    "[unroll] for (int i = 0; i < 4; ++i) H",
    "[unroll(4)] for (int i = 0; i < 4; ++i) H",
    "[loop] while (q) H",
    "[branch] if (q) H",
    "[flatten] if (q) H else I",
    "[forcecase] switch (a) { case 0: H break; }",
    "[call] switch (a) { case 0: H break; default: I }",
    "{ H } { I }",
    "{ { H } I }",
];

fn stmt_program(body: &str) -> String {
    format!("struct S {{ float m; int n; }};\nfloat fn1(float x) {{ return x; }}\nvoid f(int a, int b, float x, bool q, inout float4 v, uint n) {{ float arr[4]; S s; {} }}\n", body)
}

fn stmt_fill(form: &str, h: &str, i: &str) -> String {
    subst(form, &[('H', h), ('I', i)])
}

// ---------------------------------------------------------------------------------------------

fn reserved_names() -> Vec<String> {
    // every name the two exporters reserve (read from the sources under test), plus contextual keywords of the language
    let mut v: Vec<String> = Vec::new();
    for f in ["hlsl/src/names.rs", "msl/src/names.rs"] {
        let text = std::fs::read_to_string(std::path::PathBuf::from(repo_root()).join(f)).unwrap_or_default();
        let body = match text.find("RESERVED_NAMES") {
            Some(p) => &text[p..],
            None => "",
        };
        let body = match body.find("];") {
            Some(p) => &body[..p],
            None => body,
        };
        let mut rest = body;
        while let Some(p) = rest.find('"') {
            let t = &rest[p + 1..];
            match t.find('"') {
                Some(e) => {
                    let name = &t[..e];
                    if !name.is_empty() && name.bytes().all(|c| c.is_ascii_alphanumeric() || c == b'_') {
                        v.push(name.to_string());
                    }
                    rest = &t[e + 1..];
                }
                None => break,
            }
        }
    }
    for extra in [
        "sample", "point", "line", "triangle", "lineadj", "triangleadj", "linear", "centroid", "nointerpolation", "noperspective", "precise", "payload", "vertices", "indices", "primitives", "texture", "sampler", "uniform", "shared", "export", "interface", "pass", "technique", "compile", "string", "vector", "matrix", "dword", "min16float",
        "float4", "uint2", "float4x4", "SamplerState", "BufferAddress", "RWBufferAddress", "InlineDescriptor0", "g_inlineDescriptor0", "main", "Pipeline", "StaticSampler", "assert_type", "assert_eval", "x_0", "x", "NaN", "INFINITY", "FLT_MAX",
    ] {
        v.push(extra.to_string());
    }
    v.sort();
    v.dedup();
    v
}

fn space_sample(acc: &mut Acc, idx: u64, every: u64, space: &str, label: &str, src: &str, v: &Verdict) {
    if idx % every == 0 {
        let verdict = match v {
            Verdict::Held => "fixpoint".to_string(),
            Verdict::Rejected(e) => format!("outside (rejected: {})", diagnostic_class(e)),
            Verdict::Panicked(p) => format!("outside ({})", p),
            Verdict::Violated(sig) => format!("violation {}", sig),
        };
        acc.sample(obj(vec![("space", space.into()), ("case", label.into()), ("source", one_line(src, 300).into()), ("verdict", verdict.into())]));
    }
}

/// space 2a': every type path for a pipeline resource, in every other declaring position, and next to ordinary resources
fn space_type_paths(ctx: &Ctx, rep: &mut Report) {
    let npaths = TYPE_PATHS.len() as u64;
    // (i) one resource through every path x element x type-argument form x annotation, alone / followed by a plain
    // resource of the same element type / additionally read by a function; at the root and inside a namespace
    let forms = path_elem_forms(PATH_ELEMS.len());
    let nforms = forms.len() as u64;
    let nann = ctx.pick(RES_ANN_CLASS, RES_ANN_FULL.len()) as u64;
    let nns = ctx.pick(1u64, 2u64);
    rep.cov("type_paths", Json::Int(npaths as i64));
    rep.cov("type_path_element_forms", Json::Int(nforms as i64));
    // quick leaves out the resource standing alone: the same declaration followed by a direct one of the same element
    // type is accepted whenever the lone one is
    let (nshapes, shape0) = ctx.pick((2u64, 1u64), (3u64, 0u64));
    let r = run_par(ctx, nforms * npaths * nann * nshapes * nns, 128, |idx, acc| {
        let mut d = Vec::new();
        decode(idx, &[npaths, nforms, nann, nshapes, nns], &mut d);
        let (elem, targ) = forms[d[1] as usize];
        let (path, ann, shape, in_ns) = (d[0] as usize, d[2] as usize, d[3] + shape0, d[4] == 1);
        let mut src = String::from(RES_PRELUDE);
        src.push_str(&path_resource(0, elem, targ, path, ann, in_ns).unwrap_or_default());
        if shape >= 1 {
            src.push_str(&path_resource(1, elem, 0, 0, 0, false).unwrap_or_default());
        }
        if shape >= 2 {
            src.push_str(&path_use(0, elem, targ, path, in_ns).unwrap_or_default());
        }
        let v = check_src("resource type path", &src, acc);
        if matches!(v, Verdict::Held) && shape >= 1 {
            acc.count(&format!("type_path_resource_fixpoints:path{}", path));
        }
        space_sample(acc, idx, 2003, "type_paths_resource", TYPE_PATHS[path].0, &src, &v);
    });
    rep.absorb("type_paths_resource", r);
    // (ii) the same paths in every other declaring position
    // (quick: type arguments as written only)
    let pforms: Vec<(usize, usize)> = if ctx.quick() { forms.iter().copied().filter(|f| f.1 == 0).collect() } else { forms.clone() };
    let npf = pforms.len() as u64;
    let npos = PATH_POSITIONS.len() as u64 - 1;
    let r = run_par(ctx, npf * npaths * npos, 128, |idx, acc| {
        let mut d = Vec::new();
        decode(idx, &[npaths, npf, npos], &mut d);
        let (elem, targ) = pforms[d[1] as usize];
        let src = match path_position(elem, targ, d[0] as usize, d[2] as usize + 1) {
            Some(s) => s,
            None => {
                acc.count("type_path_position_not_applicable");
                return;
            }
        };
        let v = check_src("type path in position", &src, acc);
        space_sample(acc, idx, 2003, "type_paths_positions", PATH_POSITIONS[d[2] as usize + 1], &src, &v);
    });
    rep.absorb("type_paths_positions", r);
    // (iii) a path-declared resource followed by / preceded by a resource of the ordinary generator: later slots
    // must not move, earlier slots must be counted
    let cforms = path_elem_forms(PATH_ELEMS_CLASS);
    let cforms: Vec<(usize, usize)> = if ctx.quick() { cforms.into_iter().filter(|f| f.1 == 0).collect() } else { cforms };
    let ncf = cforms.len() as u64;
    let np2 = ctx.pick(TYPE_PATHS_CLASS, TYPE_PATHS.len()) as u64;
    let na1 = RES_ANN_SMALL as u64;
    let (k2, a2, r2) = if ctx.quick() { (RES_KINDS_CLASS as u64, RES_ANN_SMALL as u64, 1u64) } else { (RES_KINDS_CLASS as u64, RES_ANN_CLASS as u64, 2u64) };
    let r = run_par(ctx, np2 * ncf * na1 * k2 * a2 * r2 * 2, 256, |idx, acc| {
        let mut d = Vec::new();
        decode(idx, &[np2, ncf, na1, k2, a2, r2, 2], &mut d);
        let (elem, targ) = cforms[d[1] as usize];
        let pathed = path_resource(0, elem, targ, d[0] as usize, d[2] as usize, false).unwrap_or_default();
        let plain = res_decl(1, d[3] as usize, d[4] as usize, d[5] as usize, false);
        let src = if d[6] == 0 { format!("{}{}{}", RES_PRELUDE, pathed, plain) } else { format!("{}{}{}", RES_PRELUDE, plain, pathed) };
        let v = check_src("resource type path pair", &src, acc);
        space_sample(acc, idx, 20011, "type_paths_pairs", TYPE_PATHS[d[0] as usize].0, &src, &v);
    });
    rep.absorb("type_paths_pairs", r);
}

pub fn run(ctx: &Ctx) -> i32 {
    let mut rep = Report::new("exploration");
    rep.rule = "every program is compiled for HlslForDirectX in no-pipeline mode; non-trivial = accepted by the front end and exported (the fixpoint oracle then ran on it); distinct = different emitted text T1".into();

    // ---- 1: corpus
    let corp = corpus();
    let n_entries = corp.iter().filter(|c| c.2.starts_with("kind: corpus-entry")).count();
    let r = run_par(ctx, corp.len() as u64, 1, |idx, acc| {
        let (label, prog, replay) = &corp[idx as usize];
        let v = check_prog(label, prog, replay, acc);
        match v {
            Verdict::Rejected(e) => {
                acc.count("corpus_rejected");
                acc.sample(obj(vec![("space", "corpus".into()), ("rejected", label.as_str().into()), ("diagnostic", one_line(&e, 160).into())]));
            }
            Verdict::Held => acc.count("corpus_fixpoints"),
            _ => {}
        }
    });
    rep.absorb("corpus", r);
    rep.cov("corpus_third_party_entry_points", Json::Int(n_entries as i64));

    // ---- 2a: resource declaration sequences
    let nk = RES_KINDS_FULL.len();
    let na = RES_ANN_FULL.len();
    let mut res_spaces: Vec<(&str, ResSpace)> = vec![("resources_len1_full", ResSpace { len: 1, kinds: nk, anns: na, arrs: 4, ns_patterns: 2 })];
    if ctx.quick() {
        res_spaces.push(("resources_len2_classes", ResSpace { len: 2, kinds: RES_KINDS_CLASS, anns: RES_ANN_CLASS, arrs: 2, ns_patterns: 2 }));
        res_spaces.push(("resources_len3_small", ResSpace { len: 3, kinds: RES_KINDS_SMALL, anns: RES_ANN_SMALL, arrs: 1, ns_patterns: 1 }));
    } else {
        res_spaces.push(("resources_len2_full", ResSpace { len: 2, kinds: nk, anns: na, arrs: 2, ns_patterns: 1 }));
        res_spaces.push(("resources_len2_classes", ResSpace { len: 2, kinds: RES_KINDS_CLASS, anns: RES_ANN_CLASS, arrs: 4, ns_patterns: 4 }));
        res_spaces.push(("resources_len3_classes", ResSpace { len: 3, kinds: RES_KINDS_CLASS, anns: RES_ANN_CLASS, arrs: 2, ns_patterns: 1 }));
        res_spaces.push(("resources_len3_small_namespaces", ResSpace { len: 3, kinds: RES_KINDS_SMALL, anns: RES_ANN_SMALL, arrs: 2, ns_patterns: 8 }));
    }
    for (name, sp) in &res_spaces {
        let r = run_par(ctx, sp.total(), 256, |idx, acc| {
            let src = sp.source(idx);
            let v = check_src(name, &src, acc);
            space_sample(acc, idx, 20011, name, "resource sequence", &src, &v);
        });
        rep.absorb(name, r);
    }

    // ---- 2a': type paths
    space_type_paths(ctx, &mut rep);

    // ---- 2b: declaration kinds, singles and ordered pairs
    let nd = DECLS.len() as u64;
    let r = run_par(ctx, nd, 1, |idx, acc| {
        let src = decl_single(idx as usize);
        let v = check_src("declaration", &src, acc);
        if let Verdict::Rejected(e) = &v {
            // the curated snippets are meant to be accepted: make a rejected one visible
            acc.count(&format!("declaration_snippet_rejected:{}:{}", idx, diagnostic_class(e)));
        }
        space_sample(acc, idx, 7, "declarations", "single", &src, &v);
    });
    rep.absorb("declarations_single", r);
    let r = run_par(ctx, nd * nd * 2, 16, |idx, acc| {
        let mut d = Vec::new();
        decode(idx, &[nd, nd, 2], &mut d);
        let src = decl_pair(d[0] as usize, d[1] as usize, d[2] == 1);
        let v = check_src("declaration pair", &src, acc);
        space_sample(acc, idx, 1009, "declarations", "pair", &src, &v);
    });
    rep.absorb("declarations_pairs", r);

    // ---- 2c: name clashes over scopes
    {
        let (kinds2, names2, scopes2) = if ctx.quick() { (ENTITY_KINDS.len(), 3, 2) } else { (ENTITY_KINDS.len(), CLASH_NAMES.len(), SCOPES.len()) };
        let per = (kinds2 * names2 * scopes2) as u64;
        let r = run_par(ctx, per * per, 64, |idx, acc| {
            let mut d = Vec::new();
            decode(idx, &[kinds2 as u64, names2 as u64, scopes2 as u64, kinds2 as u64, names2 as u64, scopes2 as u64], &mut d);
            let src = format!("{}{}", entity(d[0] as usize, CLASH_NAMES[d[1] as usize], d[2] as usize, 0), entity(d[3] as usize, CLASH_NAMES[d[4] as usize], d[5] as usize, 1));
            let v = check_src("name clash pair", &src, acc);
            space_sample(acc, idx, 5003, "clashes", "pair", &src, &v);
        });
        rep.absorb("clashes_pairs", r);
        let (kinds3, names3, scopes3) = if ctx.quick() { (4, 3, 2) } else { (ENTITY_KINDS_CLASS, 4, 3) };
        let per = (kinds3 * names3 * scopes3) as u64;
        let r = run_par(ctx, per * per * per, 64, |idx, acc| {
            let mut d = Vec::new();
            let rad = [kinds3 as u64, names3 as u64, scopes3 as u64];
            decode(idx, &[rad[0], rad[1], rad[2], rad[0], rad[1], rad[2], rad[0], rad[1], rad[2]], &mut d);
            let mut src = String::new();
            for k in 0..3 {
                src.push_str(&entity(d[k * 3] as usize, CLASH_NAMES[d[k * 3 + 1] as usize], d[k * 3 + 2] as usize, k));
            }
            let v = check_src("name clash triple", &src, acc);
            space_sample(acc, idx, 20011, "clashes", "triple", &src, &v);
        });
        rep.absorb("clashes_triples", r);
    }

    // ---- 4: every reserved name in every declaring role
    {
        let names = reserved_names();
        let nn = names.len() as u64;
        let nkinds = ENTITY_KINDS.len() as u64;
        rep.cov("reserved_names_tried", Json::Int(nn as i64));
        // quick: every 2nd (role, scope, name) combination (the stride is odd against the role count, so every role
        // still meets about half of the names); thorough: all
        let stride = ctx.pick(2u64, 1u64);
        let r = run_par(ctx, nn * nkinds * 2 / stride, 64, |idx, acc| {
            let idx = idx * stride + (idx / nkinds) % stride;
            let mut d = Vec::new();
            decode(idx.min(nn * nkinds * 2 - 1), &[nkinds, 2, nn], &mut d);
            let name = &names[d[2] as usize];
            let src = entity(d[0] as usize, name, d[1] as usize, 0);
            let v = check_src("reserved name", &src, acc);
            if !matches!(v, Verdict::Rejected(_) | Verdict::Panicked(_)) {
                acc.count("reserved_name_programs_accepted");
            }
            space_sample(acc, idx, 1201, "reserved_names", name, &src, &v);
        });
        rep.absorb("reserved_names", r);
    }

    // ---- 3a: expressions
    {
        let n_ops = EXPR_OPS.len();
        let trees = expr_trees_single(n_ops);
        // typings (type of a and c, type of b): quick = the four scalar types alone plus the mixed pairs that need a conversion
        // in each direction; thorough = all ordered pairs over nine types
        let typings: Vec<(&str, &str)> = if ctx.quick() {
            vec![("int", "int"), ("float", "float"), ("uint", "uint"), ("bool", "bool"), ("int", "float"), ("float", "int")]
        } else {
            let mut v = Vec::new();
            for a in EXPR_TYPES {
                for b in EXPR_TYPES {
                    v.push((*a, *b));
                }
            }
            v
        };
        let nty = typings.len() as u64;
        let ntrees = trees.len() as u64;
        rep.cov("expression_trees_depth2_one_inner", Json::Int(ntrees as i64));
        rep.cov("expression_typings", Json::Int(nty as i64));
        let r = run_par(ctx, ntrees * nty, 128, |idx, acc| {
            let mut d = Vec::new();
            decode(idx, &[nty, ntrees], &mut d);
            let tree = &trees[d[1] as usize];
            let (ta, tb) = typings[d[0] as usize];
            let src = expr_program(tree, ta, tb, 0);
            let v = check_src("expression", &src, acc);
            space_sample(acc, idx, 30011, "expressions", &tree.label(), &src, &v);
        });
        rep.absorb("expressions_depth2", r);
        // depth-1 trees in every context
        let d1: Vec<ExprTree> = trees.iter().take(n_ops).cloned().collect();
        let nctx = EXPR_CONTEXTS.len() as u64;
        let r = run_par(ctx, n_ops as u64 * nctx * nty, 128, |idx, acc| {
            let mut d = Vec::new();
            decode(idx, &[nty, nctx, n_ops as u64], &mut d);
            let tree = &d1[d[2] as usize];
            let (ta, tb) = typings[d[0] as usize];
            let src = expr_program(tree, ta, tb, d[1] as usize);
            let v = check_src("expression in context", &src, acc);
            space_sample(acc, idx, 10007, "expressions", &tree.label(), &src, &v);
        });
        rep.absorb("expressions_contexts", r);
        // every hole filled, over the class alphabet
        let full = expr_trees_full(if ctx.quick() { 12 } else { EXPR_OPS_CLASS });
        let ftypes: &[&str] = if ctx.quick() { &EXPR_TYPES[..2] } else { &EXPR_TYPES[..4] };
        let nft = ftypes.len() as u64;
        let nfull = full.len() as u64;
        rep.cov("expression_trees_depth2_all_inner", Json::Int(nfull as i64));
        let r = run_par(ctx, nfull * nft * nft, 128, |idx, acc| {
            let mut d = Vec::new();
            decode(idx, &[nft, nft, nfull], &mut d);
            let tree = &full[d[2] as usize];
            let src = expr_program(tree, ftypes[d[0] as usize], ftypes[d[1] as usize], 0);
            let v = check_src("expression", &src, acc);
            space_sample(acc, idx, 30011, "expressions_full", &tree.label(), &src, &v);
        });
        rep.absorb("expressions_depth2_all_holes", r);
    }

    // ---- 3b: literals
    {
        let lits = LitSpace::new(ctx.quick());
        rep.cov("literal_spellings", Json::Int(lits.spellings.len() as i64));
        rep.cov("literal_positions", Json::Int(lits.variants() as i64));
        // quick: every 2nd (spelling, position) combination; thorough: all
        let stride = ctx.pick(2u64, 1u64);
        let r = run_par(ctx, lits.total() / stride, 128, |idx, acc| {
            let idx = idx * stride;
            let (src, label) = lits.source(idx);
            let v = check_src(&label, &src, acc);
            space_sample(acc, idx, 9001, "literals", &label, &src, &v);
        });
        rep.absorb("literals", r);
    }

    // ---- 3c: statements
    {
        let nl = STMT_LEAVES.len() as u64;
        let nf = STMT_FORMS.len() as u64;
        // quick: the second hole ranges over the first 8 leaves only
        let nlb = if ctx.quick() { 8.min(nl) } else { nl };
        let r = run_par(ctx, nf * nl * nlb, 64, |idx, acc| {
            let mut d = Vec::new();
            decode(idx, &[nl, nlb, nf], &mut d);
            let body = stmt_fill(STMT_FORMS[d[2] as usize], STMT_LEAVES[d[0] as usize], STMT_LEAVES[d[1] as usize]);
            let src = stmt_program(&body);
            let v = check_src("statement", &src, acc);
            space_sample(acc, idx, 2003, "statements", STMT_FORMS[d[2] as usize], &src, &v);
        });
        rep.absorb("statements_depth1", r);
        // a compound form inside a compound form
        let nl2 = if ctx.quick() { 6 } else { nl };
        let r = run_par(ctx, nf * nf * nl2, 64, |idx, acc| {
            let mut d = Vec::new();
            decode(idx, &[nl2, nf, nf], &mut d);
            let leaf = STMT_LEAVES[d[0] as usize];
            let inner = stmt_fill(STMT_FORMS[d[1] as usize], leaf, "a = b;");
            let body = stmt_fill(STMT_FORMS[d[2] as usize], &format!("{{ {} }}", inner), &inner);
            let src = stmt_program(&body);
            let v = check_src("nested statement", &src, acc);
            space_sample(acc, idx, 2003, "statements", STMT_FORMS[d[2] as usize], &src, &v);
        });
        rep.absorb("statements_depth2", r);
    }

    rep.cov(
        "bounds",
        obj(vec![
            ("passes", Json::Int(3)),
            ("resource_sequence_length", Json::Int(3)),
            ("type_paths", Json::Int(TYPE_PATHS.len() as i64)),
            ("type_path_element_types", Json::Int(PATH_ELEMS.len() as i64)),
            ("type_path_positions", Json::Int(PATH_POSITIONS.len() as i64)),
            ("type_path_array_levels", Json::Int(2)),
            ("declaration_snippets", Json::Int(DECLS.len() as i64)),
            ("declaration_combination", "singles and all ordered pairs (namespaces shared and not shared)".into()),
            ("clash_entities", Json::Int(ENTITY_KINDS.len() as i64)),
            ("clash_combination", "all ordered pairs; triples over the class alphabet".into()),
            ("expression_depth", Json::Int(2)),
            ("expression_operators", Json::Int(EXPR_OPS.len() as i64)),
            ("statement_nesting", Json::Int(2)),
            ("literal_kinds", Json::Int(8)),
        ]),
    );
    rep.assumptions = vec![
        "metadata equality demands group, slot, name, descriptor type and count; the bindless flag and static sampler parameters are rssl-level information with no DirectX HLSL spelling, their loss is counted (info:*) and not demanded".into(),
        "BufferAddress / RWBufferAddress are emitted as ByteAddressBuffer / RWByteAddressBuffer for DirectX by design, so the re-read descriptor type is the byte-buffer type on the same slot; the two are identified".into(),
        "programs the front end rejects, and programs on which the first compilation panics (totality is C08), are outside the property and only counted".into(),
        "inputs containing Pipeline blocks occur only in the corpus and are compared in no-pipeline mode; generated programs contain none".into(),
        "type paths: array extents are 2 and 3, at most two array levels and two typedef links; a path that the front end rejects for an element type or position (objects in cbuffers, unsized typedef arrays, ...) is outside the property and only counted".into(),
        "the classification of the first differing token uses a small tokenizer of emitted HLSL (no comments, no directives occur in formatter output)".into(),
    ];
    finish(ctx, rep)
}

pub fn replay(ctx: &Ctx, body: &str) -> i32 {
    let mut acc = Acc::default();
    let (kind, rest) = body.split_once('\n').unwrap_or((body, ""));
    match kind.trim() {
        "kind: source" => {
            check_src("replay", rest, &mut acc);
        }
        "kind: corpus-file" | "kind: corpus-entry" => {
            let want = format!("{}\n{}", kind.trim(), rest.trim_end());
            match corpus().into_iter().find(|c| c.2.trim_end() == want) {
                Some((label, prog, replay)) => {
                    check_prog(&label, &prog, &replay, &mut acc);
                }
                None => {
                    eprintln!("machinery error: corpus item not found: {:?}", rest);
                    return 2;
                }
            }
        }
        k => {
            eprintln!("machinery error: unknown replay kind {:?}", k);
            return 2;
        }
    }
    finish_replay(ctx, &acc)
}

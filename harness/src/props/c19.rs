//! C19 — layout-consistency validation is sound.
//!
//! Every generated program declares one struct `S` (members over {half,int,uint,float,double} x {1,2,3,4} + an enum,
//! arrays of length 1-4, nested structs to depth 3, 1-6 members) and uses it as the element type of exactly one
//! buffer form that `ir::layout_checker::check_layout` visits. The real checker is run (directly after the real
//! preprocess/parse/type_check, and for a subset through `rssl::compile(.. validate_layout_consistency(true))`).
//!
//! Input dimensions besides the member list:
//!  * form = use x site (100 forms). use: (RW)StructuredBuffer<S> global, or one overload of the typed raw-buffer /
//!    buffer-address intrinsics (every `T` row of rssl's intrinsic tables, the `Load<T>(offset, out status)` overloads
//!    included). site: how the use is written (free function, struct method, buffer as parameter, local copy, nested
//!    control flow, function template instantiated with S, typedef, `const S`, element of an array of raw buffers,
//!    const / namespaced / indexed structured buffer).
//!  * declaration (`Inh`): the member list of the element struct and of the structs nested in it is cut, after any
//!    subset of its members, into a chain of derived structs `struct S0b0 {..}; struct S0 : S0b0 {..};`. The memory
//!    order (base members first) is the order of the member list, so the reference layouts do not depend on it.
//!  * two uses in one program (`check_pair`): a consistent and an inconsistent struct in either order, or one struct
//!    used twice, over every pair of plainly written uses and every form next to every plain use.
//!  * array lengths written as constant expressions (`check_len_case`): the one array of 5 wrapper structs (quick: 3)
//!    whose consistency depends on the length (n % 4, n % 2, never) has its length n = 1-4 written as another literal
//!    spelling, `a op b` for every a, b in 0-8 and 10 operators, `a op b op c` with and without parentheses, through
//!    `static const` (u)int constants, and as every enumerator with value 1-4 of every enum with 1-4 (thorough: 5)
//!    enumerators each of which is implicit or explicit (0-3, -1; thorough also 6 and `previous + 1/2`; 5 enumerators: over implicit, 1, 3, -1), named as
//!    `Qi`, `Q::Qi` and `(uint)Qi`.
//!  * qualified names (`check_ns_case`): namespaces a, b, a::a, a::b, b::a, b::b; every non-empty subset of the 7
//!    scopes declares `struct T` / `static const uint K` with its own layout / value (same-named decoys); the buffer
//!    is declared in every scope on the element type / a member type / an array length named by every relative and
//!    `::`-rooted path with 0-2 namespace components that resolves under the C++ rule.
//!
//! Oracle: two independent, deliberately boring layout calculators (`hlsl_rules`, `metal_rules`).
//!  * validation accepts  => total size and the byte offset of every field (recursively, array elements included)
//!    must be equal in both calculators, else `layout|accepted|<class of the first differing thing>`;
//!  * validation rejects with the mismatched-layout message => the two *sizes* in the message must be the
//!    calculators' total sizes, else `layout|rejected|reported-size-wrong|<hlsl|metal>`;
//!  * rejections of consistent layouts (completeness) are only counted; bool/matrix members ("unknown layout" in
//!    rssl) are only checked for absence of panics.
//!
//! Signature vocabulary:
//!  layout|accepted|member-alignment            first differing field offset is caused by the field's own alignment
//!  layout|accepted|vec3-member                 ... by the size of a preceding 3-vector (12 vs 16, 6 vs 8, 24 vs 32)
//!  layout|accepted|nested-struct-tail-padding  ... by the tail padding of a preceding nested struct
//!  layout|accepted|array-stride-vec3 / array-stride-struct   element k>=1 of an array member is at a different offset
//!  layout|accepted|total-size|<why>            all field offsets agree, the total size does not
//!  layout|accepted|form-not-validated|<use>[ @ <site>]   the form is not visited by the checker at all (the site is
//!                                              only named when the same use written plainly is validated)
//!  layout|accepted|derived-struct              an inconsistent struct declared with base structs is accepted although
//!                                              the same member list declared flat is not
//!  layout|accepted|two-uses|<first-struct|second-struct|same-struct>-not-validated
//!  layout|rejected|reported-size-wrong|hlsl / |metal
//!  layout|rejected|reported-size-wrong|derived-struct|hlsl / |metal   ... and the flat declaration gets another verdict
//!  layout|rejected|reported-size-wrong|two-uses   the reported sizes are the true sizes of neither struct
//!  layout|accepted|array-length|<literal|arithmetic|static-const|enumerator>   an inconsistent struct is accepted
//!                                              although the same struct with the length written as a plain literal is not
//!  layout|accepted|name-resolution|<relative|rooted>-<0|1|2>-namespaces   ... although the same struct declared once and
//!                                              named plainly is not (another same-named declaration was validated)
//!  layout|rejected|reported-size-wrong|array-length|<..>|hlsl / |metal,  ...|name-resolution|<..>|hlsl / |metal
//!  harness|generated-program-rejected   unjudged (the generated program does not reach the checker); layout|e2e-verdict-differs   compile() and check_layout disagree
//!
//! The class names describe the first thing that differs between the two *reference* layouts, not rssl's internal
//! cause. The recorded representative of a signature is the simplest struct (see `complexity`), not the first index.
//! `--replay` also accepts a body `kind: source\n<rssl source>` that just prints what the validator says (no oracle).

use crate::engine::*;
use crate::json::{Json, obj};
use crate::util::*;

// ---------------------------------------------------------------------------------------------
// type model (G-STRUCT)

#[derive(Clone, Copy, PartialEq, Eq, Hash, Debug)]
pub enum Sc {
    Half,
    Int,
    Uint,
    Float,
    Double,
    Bool,
}

impl Sc {
    fn name(self) -> &'static str {
        match self {
            Sc::Half => "half",
            Sc::Int => "int",
            Sc::Uint => "uint",
            Sc::Float => "float",
            Sc::Double => "double",
            Sc::Bool => "bool",
        }
    }
    const ALL: [Sc; 6] = [Sc::Half, Sc::Int, Sc::Uint, Sc::Float, Sc::Double, Sc::Bool];
}

#[derive(Clone, PartialEq, Eq, Hash, Debug)]
pub enum Ty {
    /// scalar (n = 1) or n-vector
    Leaf(Sc, u8),
    /// `enum E { A, B }`
    Enum,
    /// matrix rows x cols ("unknown layout" for rssl)
    Mat(Sc, u8, u8),
    Struct(Vec<Ty>),
    Array(Box<Ty>, u32),
}

impl Ty {
    /// compact type expression: `{ {float2,float}, float[3] }`
    pub fn expr(&self) -> String {
        match self {
            Ty::Leaf(s, 1) => s.name().to_string(),
            Ty::Leaf(s, n) => format!("{}{}", s.name(), n),
            Ty::Enum => "E".to_string(),
            Ty::Mat(s, r, c) => format!("{}{}x{}", s.name(), r, c),
            Ty::Struct(ms) => format!("{{{}}}", ms.iter().map(|m| m.expr()).collect::<Vec<_>>().join(",")),
            Ty::Array(e, n) => format!("{}[{}]", e.expr(), n),
        }
    }

    /// no bool / matrix anywhere: both calculators define the layout
    fn known(&self) -> bool {
        match self {
            Ty::Leaf(Sc::Bool, _) | Ty::Mat(..) => false,
            Ty::Leaf(..) | Ty::Enum => true,
            Ty::Struct(ms) => ms.iter().all(|m| m.known()),
            Ty::Array(e, _) => e.known(),
        }
    }

    fn has_enum(&self) -> bool {
        match self {
            Ty::Enum => true,
            Ty::Struct(ms) => ms.iter().any(|m| m.has_enum()),
            Ty::Array(e, _) => e.has_enum(),
            _ => false,
        }
    }

    fn has_struct_member(&self) -> bool {
        match self {
            Ty::Struct(ms) => ms.iter().any(|m| matches!(m, Ty::Struct(_)) || matches!(m, Ty::Array(e, _) if matches!(**e, Ty::Struct(_)))),
            _ => false,
        }
    }
}

pub fn parse_ty(s: &str) -> Option<Ty> {
    let b: Vec<char> = s.chars().filter(|c| !c.is_whitespace()).collect();
    let mut p = 0;
    let t = parse_ty_at(&b, &mut p)?;
    if p == b.len() { Some(t) } else { None }
}

fn parse_ty_at(b: &[char], p: &mut usize) -> Option<Ty> {
    let mut t = if *p < b.len() && b[*p] == '{' {
        *p += 1;
        let mut ms = Vec::new();
        loop {
            ms.push(parse_ty_at(b, p)?);
            match b.get(*p) {
                Some(',') => *p += 1,
                Some('}') => {
                    *p += 1;
                    break;
                }
                _ => return None,
            }
        }
        Ty::Struct(ms)
    } else {
        let st = *p;
        while *p < b.len() && b[*p].is_ascii_alphanumeric() {
            *p += 1;
        }
        let w: String = b[st..*p].iter().collect();
        if w == "E" {
            Ty::Enum
        } else {
            let sc = Sc::ALL.iter().copied().find(|s| w.starts_with(s.name()) && (s.name() != "int" || !w.starts_with("uint")))?;
            let rest = &w[sc.name().len()..];
            let d: Vec<u8> = rest.chars().filter_map(|c| c.to_digit(10).map(|d| d as u8)).collect();
            match (rest.len(), d.len()) {
                (0, 0) => Ty::Leaf(sc, 1),
                (1, 1) if (1..=4).contains(&d[0]) => Ty::Leaf(sc, d[0]),
                (3, 2) if rest.as_bytes()[1] == b'x' => Ty::Mat(sc, d[0], d[1]),
                _ => return None,
            }
        }
    };
    while *p < b.len() && b[*p] == '[' {
        let st = *p + 1;
        let mut e = st;
        while e < b.len() && b[e].is_ascii_digit() {
            e += 1;
        }
        if b.get(e) != Some(&']') || e == st {
            return None;
        }
        let n: u32 = b[st..e].iter().collect::<String>().parse().ok()?;
        *p = e + 1;
        t = Ty::Array(Box::new(t), n);
    }
    Some(t)
}

// ---------------------------------------------------------------------------------------------
// buffer forms = use x site.
//  use : what makes the struct a buffer element type: a global of type (RW)StructuredBuffer<S>, or one *overload* of the
//        typed Load / Store intrinsics of (RW)ByteAddressBuffer and (RW)BufferAddress (every row of rssl's intrinsic
//        tables that has a `T` in it, including the `Load<T>(offset, out status)` overloads);
//  site: where / how that use is written (free function, struct method, buffer passed as a parameter, local copy of
//        the buffer, inside nested control flow, inside a function template instantiated with S, through a typedef,
//        const-qualified element type, element of an array of raw buffers, const-qualified / namespaced / indexed
//        structured buffer).
// Arrays of structured buffers, structured buffers as function parameters and as struct members are outside the space
// (see `rep.assumptions`).

#[derive(Clone, Copy, PartialEq, Eq, Hash, Debug)]
pub enum Use {
    Sb,
    RwSb,
    BabLoad,
    BabLoadStatus,
    RwBabLoad,
    RwBabLoadStatus,
    RwBabStore,
    RwBabStoreT,
    BaLoad,
    RwBaLoad,
    RwBaStore,
    RwBaStoreT,
}

pub const USES: [Use; 12] = [
    Use::Sb,
    Use::RwSb,
    Use::BabLoad,
    Use::RwBabLoad,
    Use::RwBabStore,
    Use::RwBabStoreT,
    Use::BaLoad,
    Use::RwBaLoad,
    Use::RwBaStore,
    Use::RwBaStoreT,
    Use::BabLoadStatus,
    Use::RwBabLoadStatus,
];

impl Use {
    pub fn name(self) -> &'static str {
        match self {
            Use::Sb => "StructuredBuffer<S>",
            Use::RwSb => "RWStructuredBuffer<S>",
            Use::BabLoad => "ByteAddressBuffer.Load<S>",
            Use::BabLoadStatus => "ByteAddressBuffer.Load<S>(0,status)",
            Use::RwBabLoad => "RWByteAddressBuffer.Load<S>",
            Use::RwBabLoadStatus => "RWByteAddressBuffer.Load<S>(0,status)",
            Use::RwBabStore => "RWByteAddressBuffer.Store(0,s)",
            Use::RwBabStoreT => "RWByteAddressBuffer.Store<S>",
            Use::BaLoad => "BufferAddress.Load<S>",
            Use::RwBaLoad => "RWBufferAddress.Load<S>",
            Use::RwBaStore => "RWBufferAddress.Store(0,s)",
            Use::RwBaStoreT => "RWBufferAddress.Store<S>",
        }
    }
    fn structured(self) -> bool {
        matches!(self, Use::Sb | Use::RwSb)
    }
    /// (buffer type, register class)
    fn buffer(self) -> (&'static str, char) {
        match self {
            Use::Sb => ("StructuredBuffer", 't'),
            Use::RwSb => ("RWStructuredBuffer", 'u'),
            Use::BabLoad | Use::BabLoadStatus => ("ByteAddressBuffer", 't'),
            Use::RwBabLoad | Use::RwBabLoadStatus | Use::RwBabStore | Use::RwBabStoreT => ("RWByteAddressBuffer", 'u'),
            Use::BaLoad => ("BufferAddress", 't'),
            Use::RwBaLoad | Use::RwBaStore | Use::RwBaStoreT => ("RWBufferAddress", 'u'),
        }
    }
    fn is_store(self) -> bool {
        matches!(self, Use::RwBabStore | Use::RwBabStoreT | Use::RwBaStore | Use::RwBaStoreT)
    }
    fn explicit_t(self) -> bool {
        !matches!(self, Use::RwBabStore | Use::RwBaStore)
    }
    fn status(self) -> bool {
        matches!(self, Use::BabLoadStatus | Use::RwBabLoadStatus)
    }
}

#[derive(Clone, Copy, PartialEq, Eq, Hash, Debug)]
pub enum Site {
    Plain,
    Method,
    Param,
    Local,
    Nested,
    Template,
    Alias,
    ConstElem,
    ArrayElem,
    ConstBuf,
    Namespace,
    Indexed,
}

pub const SITES: [Site; 12] = [
    Site::Plain,
    Site::Method,
    Site::Param,
    Site::Local,
    Site::Nested,
    Site::Template,
    Site::Alias,
    Site::ConstElem,
    Site::ArrayElem,
    Site::ConstBuf,
    Site::Namespace,
    Site::Indexed,
];

impl Site {
    pub fn name(self) -> &'static str {
        match self {
            Site::Plain => "",
            Site::Method => "in a struct method",
            Site::Param => "buffer is a function parameter",
            Site::Local => "through a local copy of the buffer",
            Site::Nested => "inside if/for",
            Site::Template => "inside a function template instantiated with S",
            Site::Alias => "through typedef S T",
            Site::ConstElem => "element type const S",
            Site::ArrayElem => "element of an array of buffers",
            Site::ConstBuf => "const-qualified buffer",
            Site::Namespace => "buffer declared in a namespace",
            Site::Indexed => "buffer indexed in a function",
        }
    }
    fn applies(self, u: Use) -> bool {
        match self {
            Site::Plain | Site::Alias => true,
            Site::Method | Site::Param | Site::Local | Site::Nested | Site::Template | Site::ArrayElem => !u.structured(),
            // `Store(0, s)` has no written element type to qualify
            Site::ConstElem => u.explicit_t(),
            Site::ConstBuf | Site::Namespace | Site::Indexed => u.structured(),
        }
    }
}

#[derive(Clone, Copy, PartialEq, Eq, Hash, Debug)]
pub struct Form {
    pub use_: Use,
    pub site: Site,
}

/// all forms, simplest first: the 12 uses written plainly, then every other applicable (site, use)
pub fn all_forms() -> Vec<Form> {
    let mut v = Vec::new();
    for site in SITES {
        for use_ in USES {
            if site.applies(use_) {
                v.push(Form { use_, site });
            }
        }
    }
    v
}

pub const PLAIN_FORMS: usize = 12;

impl Form {
    pub fn name(self) -> String {
        if self.site == Site::Plain { self.use_.name().to_string() } else { format!("{} @ {}", self.use_.name(), self.site.name()) }
    }
    pub fn from_name(s: &str) -> Option<Form> {
        all_forms().into_iter().find(|f| f.name() == s)
    }
    fn index(self) -> usize {
        SITES.iter().position(|s| *s == self.site).unwrap() * USES.len() + USES.iter().position(|u| *u == self.use_).unwrap()
    }
    /// the declarations that use struct `s` in this form; `tag` keeps the names of two forms in one program apart
    fn tail(self, s: &str, tag: &str) -> String {
        let u = self.use_;
        let (bt, rc) = u.buffer();
        let slot = if tag.is_empty() { "0" } else { tag };
        let g = format!("g_b{tag}");
        let mut out = String::new();
        // the spelling of the element type at the use
        let sn = match self.site {
            Site::Alias => {
                out.push_str(&format!("typedef {s} T{tag};\n"));
                format!("T{tag}")
            }
            Site::ConstElem => format!("const {s}"),
            _ => s.to_string(),
        };
        if u.structured() {
            let decl = format!("{bt}<{sn}> {g} : register({rc}{slot});\n");
            match self.site {
                Site::ConstBuf => out.push_str(&format!("const {decl}")),
                Site::Namespace => out.push_str(&format!("namespace N{tag} {{ {decl}}}\n")),
                Site::Indexed => {
                    out.push_str(&decl);
                    if u == Use::Sb {
                        out.push_str(&format!("void f{tag}() {{ {s} s = {g}[0]; }}\n"));
                    } else {
                        out.push_str(&format!("void f{tag}({s} s) {{ {g}[0] = s; }}\n"));
                    }
                }
                _ => out.push_str(&decl),
            }
            return out;
        }
        let status = if u.status() { ", st" } else { "" };
        let pre = if u.status() { "uint st; " } else { "" };
        let stmt = |b: &str, t: &str| -> String {
            if u.is_store() {
                if u.explicit_t() { format!("{b}.Store<{t}>(0, s);") } else { format!("{b}.Store(0, s);") }
            } else {
                format!("{t} s = {b}.Load<{t}>(0{status});")
            }
        };
        let param = if u.is_store() { format!("{sn} s") } else { String::new() };
        let comma_param = if u.is_store() { format!(", {sn} s") } else { String::new() };
        let global = format!("{bt} {g} : register({rc}{slot});\n");
        match self.site {
            Site::Plain | Site::Alias | Site::ConstElem => {
                out.push_str(&global);
                out.push_str(&format!("void f{tag}({param}) {{ {pre}{} }}\n", stmt(&g, &sn)));
            }
            Site::Method => {
                out.push_str(&global);
                out.push_str(&format!("struct M{tag} {{ void g({param}) {{ {pre}{} }} }};\n", stmt(&g, &sn)));
            }
            Site::Param => {
                out.push_str(&format!("void f{tag}({bt} b{comma_param}) {{ {pre}{} }}\n", stmt("b", &sn)));
            }
            Site::Local => {
                out.push_str(&global);
                out.push_str(&format!("void f{tag}({param}) {{ {bt} l = {g}; {pre}{} }}\n", stmt("l", &sn)));
            }
            Site::Nested => {
                out.push_str(&global);
                out.push_str(&format!(
                    "void f{tag}(uint x{comma_param}) {{ {pre}if (x > 0) {{ for (uint i = 0; i < x; ++i) {{ {} }} }} }}\n",
                    stmt(&g, &sn)
                ));
            }
            Site::Template => {
                if u.is_store() {
                    let call = if u.explicit_t() { "b.Store<T>(0, v);" } else { "b.Store(0, v);" };
                    out.push_str(&format!("template<typename T> void st{tag}({bt} b, T v) {{ {call} }}\n"));
                    out.push_str(&global);
                    out.push_str(&format!("void f{tag}({s} s) {{ st{tag}({g}, s); }}\n"));
                } else {
                    out.push_str(&format!("template<typename T> T ld{tag}({bt} b) {{ {pre}return b.Load<T>(0{status}); }}\n"));
                    out.push_str(&global);
                    out.push_str(&format!("void f{tag}() {{ {s} s = ld{tag}<{s}>({g}); }}\n"));
                }
            }
            Site::ArrayElem => {
                out.push_str(&format!("{bt} {g}[2] : register({rc}{slot});\n"));
                out.push_str(&format!("void f{tag}({param}) {{ {pre}{} }}\n", stmt(&format!("{g}[1]"), &sn)));
            }
            Site::ConstBuf | Site::Namespace | Site::Indexed => unreachable!(),
        }
        out
    }
}

// ---------------------------------------------------------------------------------------------
// how the structs are declared: flat, or as a chain of derived structs. A struct `S : B` is, for rssl (the typer copies
// the members of the base into the derived struct, the exporters emit the flat member list) and for HLSL, the flat
// struct "members of B, then the own members". The memory order is therefore always the order of `Ty::Struct`; `Inh`
// only chooses after which members the declaration is cut into base structs. Bit i set = members 0..=i live in a base
// of the struct that declares member i+1 (bit n-1 of a struct with n members: the most derived struct has an empty
// body). `top` applies to the buffer element struct itself, `inner` to every struct nested in it.

#[derive(Clone, Copy, PartialEq, Eq, Hash, Debug, Default)]
pub struct Inh {
    pub top: u8,
    pub inner: u8,
}

impl Inh {
    pub const FLAT: Inh = Inh { top: 0, inner: 0 };
    fn is_flat(self) -> bool {
        self == Inh::FLAT
    }
    fn spec(self) -> String {
        format!("{},{}", self.top, self.inner)
    }
    fn parse(s: &str) -> Option<Inh> {
        let (a, b) = s.trim().split_once(',')?;
        Some(Inh { top: a.trim().parse().ok()?, inner: b.trim().parse().ok()? })
    }
    /// every set bit cuts a struct of `ty` (so that no two enumerated masks declare the same program)
    fn canonical(self, ty: &Ty) -> bool {
        fn max_nested(ty: &Ty, depth: usize) -> usize {
            match ty {
                Ty::Struct(ms) => ms.iter().map(|m| max_nested(m, depth + 1)).max().unwrap_or(0).max(if depth > 0 { ms.len() } else { 0 }),
                Ty::Array(e, _) => max_nested(e, depth),
                _ => 0,
            }
        }
        let n_top = match ty {
            Ty::Struct(ms) => ms.len(),
            _ => 0,
        };
        (self.top as u32) >> n_top == 0 && (self.inner as u32) >> max_nested(ty, 0) == 0
    }
    /// does any struct of `ty` really get a base with these masks
    fn effective(self, ty: &Ty, depth: usize) -> bool {
        match ty {
            Ty::Struct(ms) => {
                let mask = if depth == 0 { self.top } else { self.inner } as u32;
                (mask & ((1u32 << ms.len()) - 1)) != 0 || ms.iter().any(|m| self.effective(m, depth + 1))
            }
            Ty::Array(e, _) => self.effective(e, depth),
            _ => false,
        }
    }
}

/// (type name, array suffix); struct definitions are appended to `out` innermost first
fn declare(ty: &Ty, out: &mut String, counter: &mut u32, inh: Inh, depth: usize) -> (String, String) {
    match ty {
        Ty::Leaf(..) | Ty::Mat(..) | Ty::Enum => (ty.expr(), String::new()),
        Ty::Struct(ms) => {
            let mut decls = Vec::new();
            for (i, m) in ms.iter().enumerate() {
                let (tn, suf) = declare(m, out, counter, inh, depth + 1);
                decls.push(format!("    {} m{}{};\n", tn, i, suf));
            }
            let name = format!("S{}", *counter);
            *counter += 1;
            let mask = if depth == 0 { inh.top } else { inh.inner } as u32;
            // cut the member list into the bodies of a chain of structs
            let mut body = String::new();
            let mut base: Option<String> = None;
            let mut nbase = 0;
            for (i, d) in decls.iter().enumerate() {
                body.push_str(d);
                if mask & (1 << i) != 0 {
                    let bname = format!("{}b{}", name, nbase);
                    nbase += 1;
                    match &base {
                        None => out.push_str(&format!("struct {}\n{{\n{}}};\n", bname, body)),
                        Some(b) => out.push_str(&format!("struct {} : {}\n{{\n{}}};\n", bname, b, body)),
                    }
                    base = Some(bname);
                    body.clear();
                }
            }
            match &base {
                None => out.push_str(&format!("struct {}\n{{\n{}}};\n", name, body)),
                Some(b) => out.push_str(&format!("struct {} : {}\n{{\n{}}};\n", name, b, body)),
            }
            (name, String::new())
        }
        Ty::Array(e, n) => {
            let (tn, suf) = declare(e, out, counter, inh, depth);
            (tn, format!("[{}]{}", n, suf))
        }
    }
}

pub fn render(top: &Ty, form: Form, inh: Inh) -> String {
    let mut out = String::new();
    if top.has_enum() {
        out.push_str("enum E { A, B };\n");
    }
    let mut counter = 0;
    let (name, _) = declare(top, &mut out, &mut counter, inh, 0);
    out.push_str(&form.tail(&name, ""));
    out
}

/// two uses in one program: `a` in form `fa`, then `b` in form `fb` (`b` = None: the same struct is used twice)
pub fn render_pair(a: &Ty, fa: Form, b: Option<&Ty>, fb: Form) -> String {
    let mut out = String::new();
    if a.has_enum() || b.is_some_and(|b| b.has_enum()) {
        out.push_str("enum E { A, B };\n");
    }
    let mut counter = 0;
    let (na, _) = declare(a, &mut out, &mut counter, Inh::FLAT, 0);
    out.push_str(&fa.tail(&na, "1"));
    let nb = match b {
        Some(b) => declare(b, &mut out, &mut counter, Inh::FLAT, 0).0,
        None => na,
    };
    out.push_str(&fb.tail(&nb, "2"));
    out
}

// ---------------------------------------------------------------------------------------------
// the two reference calculators. Each produces, in declaration pre-order, one entry per field (the top struct
// is entry 0; members, nested members, and every array element follow).

#[derive(Clone, Copy, Debug, PartialEq, Eq, Hash)]
pub struct Ent {
    pub off: u32,
    pub size: u32,
    pub align: u32,
}

fn up(x: u32, a: u32) -> u32 {
    x.div_ceil(a) * a
}

fn scalar_bytes(s: Sc) -> u32 {
    match s {
        Sc::Half => 2,
        Sc::Int | Sc::Uint | Sc::Float | Sc::Bool => 4,
        Sc::Double => 8,
    }
}

/// HLSL structured-buffer packing: scalars size = alignment; vectors aligned to their scalar, size n*s; members at
/// the next multiple of their alignment; struct alignment = max member alignment; struct size rounded up to it;
/// array stride = element size rounded up to the element alignment.
mod hlsl_rules {
    use super::*;
    pub fn size_align(ty: &Ty) -> (u32, u32) {
        match ty {
            Ty::Leaf(s, n) => (scalar_bytes(*s) * *n as u32, scalar_bytes(*s)),
            Ty::Enum => (4, 4),
            Ty::Mat(..) => panic!("matrix has no reference layout"),
            Ty::Struct(ms) => {
                let mut end = 0;
                let mut align = 1;
                for m in ms {
                    let (ms_, ma) = size_align(m);
                    end = up(end, ma) + ms_;
                    align = align.max(ma);
                }
                (up(end, align), align)
            }
            Ty::Array(e, n) => {
                let (es, ea) = size_align(e);
                (up(es, ea) * n, ea)
            }
        }
    }
    pub fn place(ty: &Ty, base: u32, out: &mut Vec<Ent>) {
        let (size, align) = size_align(ty);
        out.push(Ent { off: base, size, align });
        match ty {
            Ty::Struct(ms) => {
                let mut end = 0;
                for m in ms {
                    let (ms_, ma) = size_align(m);
                    let off = up(end, ma);
                    place(m, base + off, out);
                    end = off + ms_;
                }
            }
            Ty::Array(e, n) => {
                let (es, ea) = size_align(e);
                let stride = up(es, ea);
                for i in 0..*n {
                    place(e, base + i * stride, out);
                }
            }
            _ => {}
        }
    }
}

/// Metal (MSL specification, "Size and Alignment of Vector Data Types" + C++ struct rules): scalar size = alignment;
/// T2 size/align 2s; T3 and T4 size/align 4s; member offset = align-up; sizeof(struct) rounded up to its alignment
/// (= max member alignment); array stride = sizeof(element).
mod metal_rules {
    use super::*;
    pub fn size_of(ty: &Ty) -> u32 {
        match ty {
            Ty::Leaf(s, 1) => scalar_bytes(*s),
            Ty::Leaf(s, 2) => 2 * scalar_bytes(*s),
            Ty::Leaf(s, _) => 4 * scalar_bytes(*s),
            Ty::Enum => 4,
            Ty::Mat(..) => panic!("matrix has no reference layout"),
            Ty::Struct(ms) => {
                let mut cursor = 0;
                for m in ms {
                    cursor = up(cursor, align_of(m));
                    cursor += size_of(m);
                }
                up(cursor, align_of(ty))
            }
            Ty::Array(e, n) => size_of(e) * n,
        }
    }
    pub fn align_of(ty: &Ty) -> u32 {
        match ty {
            Ty::Leaf(..) | Ty::Enum => size_of(ty),
            Ty::Mat(..) => panic!("matrix has no reference layout"),
            Ty::Struct(ms) => ms.iter().map(align_of).max().unwrap_or(1),
            Ty::Array(e, _) => align_of(e),
        }
    }
    pub fn place(ty: &Ty, base: u32, out: &mut Vec<Ent>) {
        out.push(Ent { off: base, size: size_of(ty), align: align_of(ty) });
        match ty {
            Ty::Struct(ms) => {
                let mut cursor = 0;
                for m in ms {
                    cursor = up(cursor, align_of(m));
                    place(m, base + cursor, out);
                    cursor += size_of(m);
                }
            }
            Ty::Array(e, n) => {
                for i in 0..*n {
                    place(e, base + i * size_of(e), out);
                }
            }
            _ => {}
        }
    }
}

/// shape information for the same pre-order: path, type, parent entry, index in parent, whether an array element
struct Shape<'a> {
    path: String,
    ty: &'a Ty,
    parent: usize,
    k: usize,
    elem: bool,
}

fn shape<'a>(ty: &'a Ty, path: String, parent: usize, k: usize, elem: bool, out: &mut Vec<Shape<'a>>) {
    let me = out.len();
    out.push(Shape { path: path.clone(), ty, parent, k, elem });
    match ty {
        Ty::Struct(ms) => {
            for (i, m) in ms.iter().enumerate() {
                let p = if path.is_empty() { format!("m{}", i) } else { format!("{}.m{}", path, i) };
                shape(m, p, me, i, false, out);
            }
        }
        Ty::Array(e, n) => {
            for i in 0..*n {
                shape(e, format!("{}[{}]", path, i), me, i as usize, true, out);
            }
        }
        _ => {}
    }
}

fn describe(ents: &[Ent], sh: &[Shape]) -> String {
    let mut s = format!("size={} align={} [", ents[0].size, ents[0].align);
    for i in 1..ents.len() {
        if i > 1 {
            s.push(' ');
        }
        s.push_str(&format!("{}@{}", sh[i].path, ents[i].off));
    }
    s.push(']');
    s
}

/// why the size of entry j differs between the two layouts although all offsets inside it agree
fn why_size(j: usize, h: &[Ent], m: &[Ent], sh: &[Shape]) -> &'static str {
    match sh[j].ty {
        Ty::Leaf(_, 3) => "vec3-member",
        Ty::Leaf(..) | Ty::Enum | Ty::Mat(..) => "leaf-size",
        Ty::Struct(_) | Ty::Array(..) => {
            // last direct child
            let last = (0..sh.len()).rev().find(|&c| c != j && sh[c].parent == j);
            match last {
                Some(l) => {
                    if h[l].off + h[l].size == m[l].off + m[l].size {
                        if matches!(sh[j].ty, Ty::Struct(_)) { "nested-struct-tail-padding" } else { "array-tail" }
                    } else {
                        why_size(l, h, m, sh)
                    }
                }
                None => "empty",
            }
        }
    }
}

/// None = the layouts agree; Some((class, description of the first difference))
fn compare_layouts(h: &[Ent], m: &[Ent], sh: &[Shape]) -> Option<(String, String)> {
    for i in 1..h.len() {
        if h[i].off == m[i].off {
            continue;
        }
        let what = format!("first difference: {} is at byte {} (HLSL) vs {} (Metal)", sh[i].path, h[i].off, m[i].off);
        if sh[i].elem {
            let class = match sh[i].ty {
                Ty::Leaf(_, 3) => "array-stride-vec3",
                Ty::Struct(_) => "array-stride-struct",
                _ => "array-stride",
            };
            return Some((class.to_string(), what));
        }
        // previous sibling
        let prev = (0..sh.len()).find(|&c| sh[c].parent == sh[i].parent && !sh[c].elem && sh[c].k + 1 == sh[i].k && c != sh[i].parent);
        let class = match prev {
            Some(p) if h[p].off + h[p].size != m[p].off + m[p].size => why_size(p, h, m, sh),
            _ => "member-alignment",
        };
        return Some((class.to_string(), what));
    }
    if h[0].size != m[0].size {
        let what = format!("all field offsets agree but the total size is {} (HLSL) vs {} (Metal)", h[0].size, m[0].size);
        let last = (0..sh.len()).rev().find(|&c| c != 0 && sh[c].parent == 0);
        let why = match last {
            Some(l) if h[l].off + h[l].size != m[l].off + m[l].size => why_size(l, h, m, sh),
            _ => "tail-padding",
        };
        return Some((format!("total-size|{}", why), what));
    }
    None
}

// ---------------------------------------------------------------------------------------------
// the subject

#[derive(Clone, PartialEq, Eq, Debug, Hash)]
pub enum Verdict {
    /// validation passed (direct) / compilation succeeded (end to end)
    Accept,
    /// "struct has size=.. align=.. on HLSL but size=.. align=.. on Metal"
    Mismatch { hs: u32, ha: u32, ms: u32, ma: u32 },
    /// "struct has unknown size"
    Unknown,
    /// any other diagnostic
    Other(String),
}

fn parse_layout_message(msg: &str) -> Option<Verdict> {
    // tolerant of the wording: a layout diagnostic either says the size is unknown or reports `size=N align=N` twice,
    // first for HLSL and then for Metal (or the other way round when it says `on Metal` first)
    let line = msg.lines().find(|l| l.contains("size"))?;
    if line.contains("unknown size") || line.contains("unknown layout") {
        return Some(Verdict::Unknown);
    }
    fn numbers_after(line: &str, key: &str) -> Vec<u32> {
        let mut out = Vec::new();
        let mut rest = line;
        while let Some(p) = rest.find(key) {
            let tail = &rest[p + key.len()..];
            let n = tail.chars().take_while(|c| c.is_ascii_digit()).count();
            if let Ok(v) = tail[..n].parse() {
                out.push(v);
            }
            rest = &tail[n..];
        }
        out
    }
    let sizes = numbers_after(line, "size=");
    let aligns = numbers_after(line, "align=");
    if sizes.len() < 2 || aligns.len() < 2 {
        return None;
    }
    let metal_first = match (line.find("on Metal"), line.find("on HLSL")) {
        (Some(m), Some(h)) => m < h,
        _ => false,
    };
    let (h, m) = if metal_first { (1, 0) } else { (0, 1) };
    Some(Verdict::Mismatch { hs: sizes[h], ha: aligns[h], ms: sizes[m], ma: aligns[m] })
}

/// real preprocess + parse + type_check + ir::layout_checker::check_layout, diagnostic rendered like compile() does
fn validate_direct(src: &str) -> Result<Verdict, PanicInfo> {
    guard(|| {
        use rssl::text::CompileErrorExt;
        let mut sm = rssl::text::SourceManager::new();
        let toks = match rssl::preprocess::preprocess_fragment(src, rssl::text::FileName("main.rssl".into()), &mut sm) {
            Ok(t) => t,
            Err(e) => return Verdict::Other(format!("preprocess: {}", e.display(&sm))),
        };
        let toks = rssl::preprocess::prepare_tokens(&toks);
        let ast = match rssl::parser::parse(&toks) {
            Ok(a) => a,
            Err(e) => return Verdict::Other(format!("parse: {}", e.display(&sm))),
        };
        let module = match rssl::typer::type_check(&ast) {
            Ok(m) => m,
            Err(e) => return Verdict::Other(format!("type_check: {}", e.display(&sm))),
        };
        match rssl::ir::layout_checker::check_layout(&module) {
            Ok(()) => Verdict::Accept,
            Err(e) => {
                let msg = format!("{}", e.display(&sm));
                parse_layout_message(&msg).unwrap_or(Verdict::Other(format!("unparsed layout diagnostic: {}", msg)))
            }
        }
    })
}

/// the public entry point: compile(.. validate_layout_consistency(true)), no-pipeline mode
fn validate_e2e(src: &str, cfg: Cfg) -> Result<Verdict, PanicInfo> {
    guard(|| {
        let files = [("main.rssl", src)];
        let job = Job { files: &files, entry: "main.rssl", defines: &[], cfg, mode: Mode::NoPipeline, validate_layout: true };
        match job.run() {
            Ok(_) => Verdict::Accept,
            Err(msg) => parse_layout_message(&msg).unwrap_or(Verdict::Other(msg)),
        }
    })
}

/// per-run facts established before the enumeration
pub struct Env {
    pub forms: Vec<Form>,
    /// by `Form::index`: none of three certainly mismatching structs is rejected in this form
    not_validated: Vec<bool>,
}

impl Env {
    pub fn probe() -> Env {
        // three structs that mismatch for three different reasons (vec3 size, tail padding, vector alignment). A form
        // counts as not validated when the checker accepts all of them there although it rejects one in another form
        let canaries = ["{float3}", "{float2,float}", "{half,float2}"];
        let forms = all_forms();
        let mut rejects = vec![false; SITES.len() * USES.len()];
        for f in &forms {
            rejects[f.index()] =
                canaries.iter().any(|c| matches!(validate_direct(&render(&parse_ty(c).unwrap(), *f, Inh::FLAT)), Ok(Verdict::Mismatch { .. })));
        }
        let any = rejects.iter().any(|r| *r);
        let mut not_validated = vec![false; rejects.len()];
        for f in &forms {
            not_validated[f.index()] = any && !rejects[f.index()];
        }
        Env { forms, not_validated }
    }
    fn is_not_validated(&self, f: Form) -> bool {
        self.not_validated[f.index()]
    }
    /// the name under which a form that is not validated is reported: the use alone when the use is not validated even
    /// when written plainly (one root cause), the use and the site otherwise
    fn not_validated_name(&self, f: Form) -> String {
        if self.not_validated[Form { use_: f.use_, site: Site::Plain }.index()] { f.use_.name().to_string() } else { f.name() }
    }
}

fn replay_body(ty: &Ty, form: Form, inh: Inh, e2e: &[Cfg]) -> String {
    format!(
        "kind: case\nform: {}\ntype: {}\ninherit: {}\ne2e: {}\n",
        form.name(),
        ty.expr(),
        inh.spec(),
        e2e.iter().map(|c| c.name()).collect::<Vec<_>>().join(",")
    )
}

/// violations are ranked by this instead of the enumeration index, so that the recorded representative of a
/// signature is the simplest struct (fewest fields, shortest spelling) over all sub-spaces
fn complexity(ty: &Ty, form: Form, inh: Inh) -> u64 {
    let mut sh = Vec::new();
    shape(ty, String::new(), usize::MAX, 0, false, &mut sh);
    let chain = (inh.top.count_ones() + inh.inner.count_ones()) as u64;
    (sh.len() as u64 * 100_000 + ty.expr().len() as u64 * 100) * 1_000_000 + chain * 100_000 + (inh.top as u64 + inh.inner as u64) * 200 + form.index() as u64
}

/// the declared source of a case, for violation details
fn declared(ty: &Ty, inh: Inh) -> String {
    if !inh.effective(ty, 0) {
        return String::new();
    }
    let mut out = String::new();
    let mut counter = 0;
    declare(ty, &mut out, &mut counter, inh, 0);
    format!(" declared with inheritance as `{}` (memory order: base members first)", out.split_whitespace().collect::<Vec<_>>().join(" "))
}

/// a case whose program is not the plain rendering of `ty`: the same struct(s), but array lengths written as constant
/// expressions / the struct, a member type or a length constant named through a qualified path next to same-named
/// decoys. `ty` is what the program means under the reference rules; the oracle is unchanged.
#[derive(Default)]
pub struct Spelling {
    /// the program (None: `render(ty, form, inh)`)
    src: Option<String>,
    /// signature class used when the plainly written program gets another verdict, e.g. `array-length|enumerator`
    class: Option<String>,
    /// appended to the struct in violation details
    note: String,
    replay: Option<String>,
    /// added to `complexity`: simplest spelling first
    rank: u64,
}

pub fn check_case(ty: &Ty, form: Form, inh: Inh, e2e: &[Cfg], env: &Env, acc: &mut Acc) {
    check_spelled(ty, form, inh, e2e, env, acc, &Spelling::default());
}

pub fn check_spelled(ty: &Ty, form: Form, inh: Inh, e2e: &[Cfg], env: &Env, acc: &mut Acc, sp: &Spelling) {
    let enumeration_index = acc.cur_index;
    check_case_inner(ty, form, inh, e2e, env, acc, sp);
    acc.cur_index = enumeration_index;
}

fn check_case_inner(ty: &Ty, form: Form, inh: Inh, e2e: &[Cfg], env: &Env, acc: &mut Acc, sp: &Spelling) {
    acc.evals += 1;
    // rank of this case among the violations of one signature (restored by check_case)
    acc.cur_index = complexity(ty, form, inh) + sp.rank;
    let src = sp.src.clone().unwrap_or_else(|| render(ty, form, inh));
    let replay_body = |ty: &Ty, form: Form, inh: Inh, e2e: &[Cfg]| sp.replay.clone().unwrap_or_else(|| replay_body(ty, form, inh, e2e));
    let declared = |ty: &Ty, inh: Inh| format!("{}{}", declared(ty, inh), sp.note);
    let derived = inh.effective(ty, 0);
    if derived {
        acc.count("cases_with_a_derived_struct");
    }
    // the verdict for the same member list declared flat; only computed to classify a violation of a derived case
    let flat_verdict = || validate_direct(&render(ty, form, Inh::FLAT)).ok();
    let show = std::env::var("VERIF_C19_SHOW").is_ok();
    if show {
        println!("{}", src);
    }
    let v = match validate_direct(&src) {
        Ok(v) => v,
        Err(p) => {
            acc.violation(Violation {
                signature: p.signature(),
                detail: format!("layout validation of {} as {} panicked: {}", ty.expr(), form.name(), p.message),
                replay: replay_body(ty, form, inh, e2e),
            });
            return;
        }
    };
    if show {
        println!("direct verdict: {:?}", v);
    }
    if let Verdict::Other(msg) = &v {
        acc.violation(Violation {
            signature: "harness|generated-program-rejected".into(),
            detail: format!("generated program for {} as {} does not reach the layout checker: {}", ty.expr(), form.name(), one_line(msg, 300)),
            replay: replay_body(ty, form, inh, e2e),
        });
        return;
    }

    if !ty.known() {
        // bool / matrix members: rssl calls the layout unknown; only the error path and absence of panics
        match &v {
            Verdict::Unknown => acc.count("unknown_layout_type_rejected_as_unknown"),
            Verdict::Accept => acc.count("unknown_layout_type_accepted"),
            _ => acc.count("unknown_layout_type_rejected_as_mismatch"),
        }
        acc.outcome(&("unknown-layout", &v));
    } else {
        let mut h = Vec::new();
        let mut m = Vec::new();
        hlsl_rules::place(ty, 0, &mut h);
        metal_rules::place(ty, 0, &mut m);
        let mut sh = Vec::new();
        shape(ty, String::new(), usize::MAX, 0, false, &mut sh);
        assert!(h.len() == m.len() && h.len() == sh.len());
        let diff = compare_layouts(&h, &m, &sh);
        if show {
            println!("HLSL  {}\nMetal {}\ndiff  {:?}", describe(&h, &sh), describe(&m, &sh), diff);
        }
        let offs = |e: &[Ent]| e.iter().map(|x| x.off).collect::<Vec<_>>();
        match &v {
            Verdict::Accept => {
                acc.count("validation_accepted");
                match diff {
                    None => {
                        acc.count("accepted_and_layouts_agree");
                        acc.outcome(&("accept", derived, offs(&h), h[0].size));
                    }
                    Some((class, what)) => {
                        let signature = if env.is_not_validated(form) {
                            format!("layout|accepted|form-not-validated|{}", env.not_validated_name(form))
                        } else if derived && !matches!(flat_verdict(), Some(Verdict::Accept)) {
                            // the same members declared flat are not accepted: specific to struct inheritance
                            "layout|accepted|derived-struct".to_string()
                        } else if sp.class.is_some() && !matches!(flat_verdict(), Some(Verdict::Accept)) {
                            // the same struct written plainly is not accepted: specific to the spelling
                            format!("layout|accepted|{}", sp.class.as_ref().unwrap())
                        } else {
                            format!("layout|accepted|{}", class)
                        };
                        // the property speaks about compilations that succeed: the first instance of a signature
                        // and every instance that would become its recorded representative is confirmed through
                        // compile(); further instances of an already confirmed signature are only counted
                        let representative = match acc.viol.get(&signature) {
                            None => true,
                            Some(e) => acc.cur_index < e.1,
                        };
                        let mut compiled = None;
                        if representative {
                            for cfg in [Cfg::Dx, Cfg::Msl, Cfg::VkBa] {
                                if let Ok(Verdict::Accept) = validate_e2e(&src, cfg) {
                                    compiled = Some(cfg);
                                    break;
                                }
                            }
                        } else {
                            compiled = Some(Cfg::Dx);
                        }
                        match compiled {
                            None => acc.count("accepted_inconsistent_but_no_target_compiles"),
                            Some(cfg) => {
                                acc.outcome(&("accept-wrong", offs(&h), offs(&m), h[0].size, m[0].size));
                                acc.violation(Violation {
                                    signature,
                                    detail: format!(
                                        "struct {}{} used as {}: validation accepted and compile() for {} succeeded, but the HLSL layout is {} and Metal layout is {}; {}",
                                        ty.expr(),
                                        declared(ty, inh),
                                        form.name(),
                                        cfg.name(),
                                        describe(&h, &sh),
                                        describe(&m, &sh),
                                        what
                                    ),
                                    replay: replay_body(ty, form, inh, e2e),
                                });
                            }
                        }
                    }
                }
            }
            Verdict::Mismatch { hs, ha, ms, ma } => {
                acc.count("validation_rejected_mismatch");
                if diff.is_none() {
                    // completeness is not part of the property
                    acc.count("rejected_although_layouts_agree(not_demanded)");
                } else {
                    acc.count("rejected_and_layouts_differ");
                }
                if *ha != h[0].align {
                    acc.count("reported_hlsl_align_differs_from_reference(not_demanded)");
                }
                if *ma != m[0].align {
                    acc.count("reported_metal_align_differs_from_reference(not_demanded)");
                }
                let mut ok = true;
                for (which, got, want, lay) in [("hlsl", *hs, h[0].size, &h), ("metal", *ms, m[0].size, &m)] {
                    if got != want {
                        ok = false;
                        let specific = (derived || sp.class.is_some()) && flat_verdict().as_ref() != Some(&v);
                        acc.violation(Violation {
                            signature: if specific && derived {
                                format!("layout|rejected|reported-size-wrong|derived-struct|{}", which)
                            } else if specific {
                                format!("layout|rejected|reported-size-wrong|{}|{}", sp.class.as_ref().unwrap(), which)
                            } else {
                                format!("layout|rejected|reported-size-wrong|{}", which)
                            },
                            detail: format!(
                                "struct {}{} used as {}: rejected with \"size={} align={} on HLSL but size={} align={} on Metal\" but the true {} layout is {}",
                                ty.expr(),
                                declared(ty, inh),
                                form.name(),
                                hs,
                                ha,
                                ms,
                                ma,
                                which,
                                describe(lay, &sh)
                            ),
                            replay: replay_body(ty, form, inh, e2e),
                        });
                    }
                }
                if ok {
                    acc.outcome(&("reject", derived, offs(&h), offs(&m), h[0].size, m[0].size));
                }
            }
            Verdict::Unknown => acc.count("known_layout_type_rejected_as_unknown(not_demanded)"),
            Verdict::Other(_) => unreachable!(),
        }
    }

    // end-to-end cross-check: compile() must give the same validation verdict as the direct call
    for cfg in e2e {
        acc.count("e2e_compiles");
        match validate_e2e(&src, *cfg) {
            Err(p) => acc.violation(Violation {
                signature: p.signature(),
                detail: format!("compile() of {} as {} for {} panicked: {}", ty.expr(), form.name(), cfg.name(), p.message),
                replay: replay_body(ty, form, inh, e2e),
            }),
            Ok(ve) => {
                if show {
                    println!("e2e {} verdict: {:?}", cfg.name(), ve);
                }
                let same = match (&v, &ve) {
                    (Verdict::Accept, Verdict::Accept) => {
                        acc.count("e2e_accepted_and_compiled");
                        true
                    }
                    (Verdict::Accept, Verdict::Other(msg)) => {
                        acc.count("e2e_accepted_then_failed_in_a_later_stage");
                        if acc.counters.get("e2e_accepted_then_failed_in_a_later_stage") == Some(&1) {
                            acc.sample(obj(vec![("later_stage_error", one_line(msg, 200).into()), ("cfg", cfg.name().into()), ("type", ty.expr().into())]));
                        }
                        true
                    }
                    (a, b) => {
                        if a == b {
                            acc.count("e2e_rejected_identically");
                        }
                        a == b
                    }
                };
                if !same {
                    acc.violation(Violation {
                        signature: "layout|e2e-verdict-differs".into(),
                        detail: format!("{} as {}: check_layout called directly says {:?}, compile() for {} says {:?}", ty.expr(), form.name(), v, cfg.name(), ve),
                        replay: replay_body(ty, form, inh, e2e),
                    });
                }
            }
        }
    }
}

// ---------------------------------------------------------------------------------------------
// two uses in one program: the validation must look at every used struct, whatever else is used before or after it

fn pair_replay(a: &Ty, fa: Form, b: Option<&Ty>, fb: Form) -> String {
    format!(
        "kind: pair\nformA: {}\ntypeA: {}\nformB: {}\ntypeB: {}\n",
        fa.name(),
        a.expr(),
        fb.name(),
        b.map(|b| b.expr()).unwrap_or_else(|| "same".to_string())
    )
}

struct RefLayout {
    hsize: u32,
    msize: u32,
    text: String,
    diff: Option<(String, String)>,
}

fn ref_layout(ty: &Ty) -> RefLayout {
    let mut h = Vec::new();
    let mut m = Vec::new();
    hlsl_rules::place(ty, 0, &mut h);
    metal_rules::place(ty, 0, &mut m);
    let mut sh = Vec::new();
    shape(ty, String::new(), usize::MAX, 0, false, &mut sh);
    let diff = compare_layouts(&h, &m, &sh);
    RefLayout { hsize: h[0].size, msize: m[0].size, text: format!("HLSL {} / Metal {}", describe(&h, &sh), describe(&m, &sh)), diff }
}

pub fn check_pair(a: &Ty, fa: Form, b: Option<&Ty>, fb: Form, env: &Env, acc: &mut Acc) {
    let enumeration_index = acc.cur_index;
    check_pair_inner(a, fa, b, fb, env, acc);
    acc.cur_index = enumeration_index;
}

fn check_pair_inner(a: &Ty, fa: Form, b: Option<&Ty>, fb: Form, env: &Env, acc: &mut Acc) {
    acc.evals += 1;
    acc.cur_index = complexity(a, fa, Inh::FLAT) + complexity(b.unwrap_or(a), fb, Inh::FLAT);
    assert!(a.known() && b.is_none_or(|b| b.known()));
    let src = render_pair(a, fa, b, fb);
    if std::env::var("VERIF_C19_SHOW").is_ok() {
        println!("{}", src);
    }
    let what = format!(
        "{} used as {} and then {} used as {}",
        a.expr(),
        fa.name(),
        b.map(|b| b.expr()).unwrap_or_else(|| "the same struct".to_string()),
        fb.name()
    );
    let v = match validate_direct(&src) {
        Ok(v) => v,
        Err(p) => {
            acc.violation(Violation {
                signature: p.signature(),
                detail: format!("layout validation of {} panicked: {}", what, p.message),
                replay: pair_replay(a, fa, b, fb),
            });
            return;
        }
    };
    if let Verdict::Other(msg) = &v {
        acc.violation(Violation {
            signature: "harness|generated-program-rejected".into(),
            detail: format!("generated program for {} does not reach the layout checker: {}", what, one_line(msg, 300)),
            replay: pair_replay(a, fa, b, fb),
        });
        return;
    }
    if env.is_not_validated(fa) || env.is_not_validated(fb) {
        // reported by the single-use spaces
        acc.count("two_uses_skipped(a_form_is_not_validated_at_all)");
        return;
    }
    let la = ref_layout(a);
    let lb = b.map(ref_layout);
    match &v {
        Verdict::Accept => {
            let bad = if la.diff.is_some() {
                Some((if b.is_some() { "first-struct" } else { "same-struct" }, &la))
            } else {
                match &lb {
                    Some(l) if l.diff.is_some() => Some(("second-struct", l)),
                    _ => None,
                }
            };
            match bad {
                None => {
                    acc.count("two_uses_accepted_and_both_layouts_agree");
                    acc.outcome(&("pair-accept", la.hsize, lb.as_ref().map(|l| l.hsize)));
                }
                Some((which, l)) => {
                    let compiled = [Cfg::Dx, Cfg::Msl, Cfg::VkBa].into_iter().find(|cfg| matches!(validate_e2e(&src, *cfg), Ok(Verdict::Accept)));
                    match compiled {
                        None => acc.count("accepted_inconsistent_but_no_target_compiles"),
                        Some(cfg) => acc.violation(Violation {
                            signature: format!("layout|accepted|two-uses|{}-not-validated", which),
                            detail: format!(
                                "{}: validation accepted and compile() for {} succeeded, but the {} is laid out as {}; {}",
                                what,
                                cfg.name(),
                                which,
                                l.text,
                                l.diff.as_ref().unwrap().1
                            ),
                            replay: pair_replay(a, fa, b, fb),
                        }),
                    }
                }
            }
        }
        Verdict::Mismatch { hs, ha, ms, ma } => {
            acc.count("two_uses_rejected");
            if la.diff.is_none() && lb.as_ref().is_none_or(|l| l.diff.is_none()) {
                acc.count("rejected_although_layouts_agree(not_demanded)");
            }
            // the message does not say which struct it is about: the sizes must be the true sizes of one of the two
            let hit = std::iter::once(&la).chain(lb.iter()).any(|l| l.hsize == *hs && l.msize == *ms);
            if hit {
                acc.outcome(&("pair-reject", hs, ms, la.hsize, la.msize, lb.as_ref().map(|l| (l.hsize, l.msize))));
            } else {
                acc.violation(Violation {
                    signature: "layout|rejected|reported-size-wrong|two-uses".into(),
                    detail: format!(
                        "{}: rejected with \"size={} align={} on HLSL but size={} align={} on Metal\" but the true layouts are {}{}",
                        what,
                        hs,
                        ha,
                        ms,
                        ma,
                        la.text,
                        lb.as_ref().map(|l| format!(" and {}", l.text)).unwrap_or_default()
                    ),
                    replay: pair_replay(a, fa, b, fb),
                });
            }
        }
        Verdict::Unknown => acc.count("known_layout_type_rejected_as_unknown(not_demanded)"),
        Verdict::Other(_) => unreachable!(),
    }
}

// ---------------------------------------------------------------------------------------------
// K: array lengths written as constant expressions. The struct that the program means has an array of length n (1-4);
// the length is written as a literal in another spelling, an arithmetic expression, a `static const`, or an enumerator
// of an enum that mixes implicit and explicit enumerators. Reference evaluation: C rules on small non-negative
// integers (no intermediate is negative, no division by zero), enumerators: first = 0, implicit = previous + 1.

/// one way of writing the array length `n`
#[derive(Clone, Debug)]
pub struct LenSpelling {
    /// declarations in front of the struct
    prelude: String,
    /// the text between the brackets
    expr: String,
    n: u32,
    class: &'static str,
}

const LEN_OPS: [&str; 10] = ["+", "-", "*", "/", "%", "<<", ">>", "&", "|", "^"];

fn len_prec(op: &str) -> u8 {
    match op {
        "*" | "/" | "%" => 5,
        "+" | "-" => 4,
        "<<" | ">>" => 3,
        "&" => 2,
        "^" => 1,
        _ => 0,
    }
}

/// None: outside the reference (division by zero, negative result, oversized shift)
fn len_eval(a: i64, op: &str, b: i64) -> Option<i64> {
    let v = match op {
        "+" => a + b,
        "-" => a - b,
        "*" => a * b,
        "/" => a.checked_div(b)?,
        "%" => a.checked_rem(b)?,
        // shift counts beyond the width of an int are outside the reference
        "<<" if b < 16 && a < (1 << 15) => a << b,
        ">>" if b < 16 => a >> b,
        "<<" | ">>" => return None,
        "&" => a & b,
        "|" => a | b,
        _ => a ^ b,
    };
    if v < 0 { None } else { Some(v) }
}

#[derive(Clone, Copy, PartialEq, Eq, Debug)]
enum EnumItem {
    Implicit,
    Lit(i64),
    /// `= <previous enumerator> + k`
    Prev(i64),
}

/// level 0 = quick, 1 = thorough (a superset, in the same order per class)
pub fn len_spellings(level: u32) -> Vec<LenSpelling> {
    let mut v = Vec::new();
    let ok = |x: i64| (1..=4).contains(&x);
    // other spellings of a literal
    for n in 1..=4u32 {
        for expr in [format!("({n})"), format!("{n}u"), format!("0x{n}"), format!("(uint){n}"), format!("(int){n}")] {
            v.push(LenSpelling { prelude: String::new(), expr, n, class: "literal" });
        }
        for t in ["uint", "int"] {
            v.push(LenSpelling { prelude: format!("static const {t} K = {n};\n"), expr: "K".into(), n, class: "static-const" });
        }
    }
    // a op b, directly and through static const
    for op in LEN_OPS {
        for a in 0..=8i64 {
            for b in 0..=8i64 {
                let Some(r) = len_eval(a, op, b) else { continue };
                if !ok(r) {
                    continue;
                }
                let n = r as u32;
                v.push(LenSpelling { prelude: String::new(), expr: format!("{a} {op} {b}"), n, class: "arithmetic" });
                v.push(LenSpelling { prelude: format!("static const uint K = {a};\n"), expr: format!("K {op} {b}"), n, class: "static-const" });
                v.push(LenSpelling { prelude: format!("static const uint K = {b};\n"), expr: format!("{a} {op} K"), n, class: "static-const" });
                v.push(LenSpelling { prelude: format!("static const uint L = {a} {op} {b};\n"), expr: "L".into(), n, class: "static-const" });
                v.push(LenSpelling { prelude: format!("static const int K = {a};\nstatic const int L = K {op} {b};\n"), expr: "L".into(), n, class: "static-const" });
            }
        }
    }
    // a op1 b op2 c without parentheses (precedence and associativity), and with them on the right
    let hi = if level == 0 { 3 } else { 4 };
    for op1 in &LEN_OPS[..7] {
        for op2 in &LEN_OPS[..7] {
            for a in 1..=hi {
                for b in 1..=hi {
                    for c in 1..=hi {
                        let plain = if len_prec(op1) >= len_prec(op2) { len_eval(a, op1, b).and_then(|x| len_eval(x, op2, c)) } else { len_eval(b, op2, c).and_then(|x| len_eval(a, op1, x)) };
                        // both groupings must be inside the reference, so that no sub-expression is negative or divides by zero
                        let left = len_eval(a, op1, b).and_then(|x| len_eval(x, op2, c));
                        let right = len_eval(b, op2, c).and_then(|x| len_eval(a, op1, x));
                        if left.is_none() || right.is_none() {
                            continue;
                        }
                        if let Some(r) = plain.filter(|r| ok(*r)) {
                            v.push(LenSpelling { prelude: String::new(), expr: format!("{a} {op1} {b} {op2} {c}"), n: r as u32, class: "arithmetic" });
                        }
                        if let Some(r) = right.filter(|r| ok(*r)) {
                            v.push(LenSpelling { prelude: String::new(), expr: format!("{a} {op1} ({b} {op2} {c})"), n: r as u32, class: "arithmetic" });
                        }
                    }
                }
            }
        }
    }
    // enumerators: every enum with 1..=4 enumerators, each implicit or explicit, every enumerator whose value is 1-4
    let mut items = vec![EnumItem::Implicit, EnumItem::Lit(0), EnumItem::Lit(1), EnumItem::Lit(2), EnumItem::Lit(3), EnumItem::Lit(-1)];
    if level > 0 {
        items.extend([EnumItem::Lit(6), EnumItem::Prev(1), EnumItem::Prev(2)]);
    }
    let max_len = if level == 0 { 4 } else { 5 };
    let base_items = items.clone();
    for len in 1..=max_len {
        // 5 enumerators: over {implicit, 1, 3, -1} only
        let items = if len == 5 { vec![EnumItem::Implicit, EnumItem::Lit(1), EnumItem::Lit(3), EnumItem::Lit(-1)] } else { base_items.clone() };
        let radices = vec![items.len() as u64; len];
        let total = (items.len() as u64).pow(len as u32);
        let mut d = Vec::new();
        for idx in 0..total {
            crate::util::decode(idx, &radices, &mut d);
            let its: Vec<EnumItem> = d.iter().map(|x| items[*x as usize]).collect();
            if matches!(its[0], EnumItem::Prev(_)) {
                continue;
            }
            // all implicit / all explicit literal enums are the plain kinds; they are part of the space too
            let mut vals: Vec<i64> = Vec::new();
            let mut body = Vec::new();
            for (i, it) in its.iter().enumerate() {
                let val = match it {
                    EnumItem::Implicit => vals.last().map(|p| p + 1).unwrap_or(0),
                    EnumItem::Lit(x) => *x,
                    EnumItem::Prev(k) => vals[i - 1] + k,
                };
                vals.push(val);
                body.push(match it {
                    EnumItem::Implicit => format!("Q{i}"),
                    EnumItem::Lit(x) => format!("Q{i} = {x}"),
                    EnumItem::Prev(k) => format!("Q{i} = Q{} + {k}", i - 1),
                });
            }
            let prelude = format!("enum Q {{ {} }};\n", body.join(", "));
            for (i, val) in vals.iter().enumerate() {
                if !ok(*val) {
                    continue;
                }
                for expr in [format!("Q{i}"), format!("Q::Q{i}"), format!("(uint)Q{i}")] {
                    v.push(LenSpelling { prelude: prelude.clone(), expr, n: *val as u32, class: "enumerator" });
                }
            }
        }
    }
    v
}

/// the structs around the array: `@` is the array of `n` elements. Consistent iff n % 4 == 0 / n even / never /
/// n % 4 == 0 (offset of the member after the array) / n even (array inside a nested struct)
const LEN_WRAPPERS: [&str; 5] = ["{float4,float@}", "{float3@}", "{float2,float@}", "{float@,float4}", "{float,{double,float@}}"];

fn len_wrapper(w: usize, n: u32) -> Ty {
    parse_ty(&LEN_WRAPPERS[w].replace('@', &format!("[{n}]"))).unwrap()
}

/// the plain rendering with the one array length replaced by the spelled expression
fn render_len(ty: &Ty, form: Form, ls: &LenSpelling) -> String {
    let mut decls = String::new();
    let mut counter = 0;
    let (name, _) = declare(ty, &mut decls, &mut counter, Inh::FLAT, 0);
    let lit = format!("[{}];", ls.n);
    assert!(decls.matches(&lit).count() == 1);
    let decls = decls.replace(&lit, &format!("[{}];", ls.expr));
    format!("{}{}{}", ls.prelude, decls, form.tail(&name, ""))
}

fn len_space_size(level: u32, n_spellings: usize) -> u64 {
    (n_spellings * if level == 0 { 3 } else { LEN_WRAPPERS.len() }) as u64
}

pub fn check_len_case(level: u32, idx: u64, spellings: &[LenSpelling], forms: &[Form], env: &Env, acc: &mut Acc) {
    let nw = if level == 0 { 3 } else { LEN_WRAPPERS.len() } as u64;
    let ls = &spellings[(idx / nw) as usize];
    let ty = len_wrapper((idx % nw) as usize, ls.n);
    let form = forms[((idx / nw + idx % nw) % forms.len() as u64) as usize];
    let sp = Spelling {
        src: Some(render_len(&ty, form, ls)),
        class: Some(format!("array-length|{}", ls.class)),
        note: format!(" with the array length written as `{}`{}", ls.expr, if ls.prelude.is_empty() { String::new() } else { format!(" after `{}`", ls.prelude.trim().replace('\n', " ")) }),
        replay: Some(format!("kind: length\nlevel: {level}\nindex: {idx}\n")),
        rank: (ls.prelude.len() + ls.expr.len()) as u64 * 1000,
    };
    acc.count(&format!("array_length_spelled_as_{}", ls.class));
    check_spelled(&ty, form, Inh::FLAT, &[], env, acc, &sp);
}

// ---------------------------------------------------------------------------------------------
// L: qualified names. The namespaces a, b, a::a, a::b, b::a, b::b always exist; a non-empty subset of the 7 scopes
// (root included) declares `struct T` and `static const uint K`, every scope with its own layout / value. In one scope
// a buffer is declared on a struct that names T (as the element type itself or as the type of its only member) or K (as
// an array length) through a relative or `::`-rooted path with 0-2 namespace components. Reference resolution (the C++
// rule, restricted to the cases where it resolves): a rooted path walks down from the root; a relative path starts at
// the innermost enclosing scope that has a namespace named like the first component (no component: at the innermost
// enclosing scope that declares the name); the scope reached must declare the name. Everything is declared before the use.

const NS_SCOPES: [&str; 7] = ["", "a", "b", "a::a", "a::b", "b::a", "b::b"];
const NS_PARENT: [usize; 7] = [0, 0, 0, 1, 1, 2, 2];
/// distinct (HLSL size, Metal size): 16/32, 16/16, 12/16, 20/24, 4/4, 6/8, 24/32 (two consistent, five not)
const NS_LAYOUTS: [&str; 7] = ["{float3,float}", "{float4}", "{float3}", "{float2,float,float2}", "{float}", "{half3}", "{float3,float3}"];
/// 0 = the path names the element struct, 1 = the type of a member, 2 = the constant that is an array length
const NS_KINDS: [&str; 3] = ["element-type", "member-type", "length-constant"];

fn ns_child(s: usize, name: &str) -> Option<usize> {
    match (s, name) {
        (0, "a") => Some(1),
        (0, "b") => Some(2),
        (1, "a") => Some(3),
        (1, "b") => Some(4),
        (2, "a") => Some(5),
        (2, "b") => Some(6),
        _ => None,
    }
}

/// the 14 paths: relative / rooted x component lists of length 0-2 over {a, b}
fn ns_path(p: usize) -> (bool, Vec<&'static str>) {
    let comps: [&[&str]; 7] = [&[], &["a"], &["b"], &["a", "a"], &["a", "b"], &["b", "a"], &["b", "b"]];
    (p >= 7, comps[p % 7].to_vec())
}

fn ns_resolve(u: usize, rooted: bool, comps: &[&str], mask: u32) -> Option<usize> {
    let has = |s: usize| mask & (1 << s) != 0;
    let walk = |mut s: usize, comps: &[&str]| -> Option<usize> {
        for c in comps {
            s = ns_child(s, c)?;
        }
        Some(s)
    };
    let reached = if rooted {
        walk(0, comps)?
    } else {
        let mut e = u;
        loop {
            let found = if comps.is_empty() { has(e) } else { ns_child(e, comps[0]).is_some() };
            if found {
                break walk(e, comps)?;
            }
            if e == 0 {
                return None;
            }
            e = NS_PARENT[e];
        }
    };
    if has(reached) { Some(reached) } else { None }
}

pub struct NsCase {
    mask: u32,
    u: usize,
    path: usize,
    rot: usize,
    kind: usize,
}

const NS_RADICES: [u64; 5] = [3, 14, 7, 127, 7];

fn ns_decode(idx: u64) -> NsCase {
    let mut d = Vec::new();
    crate::util::decode(idx, &NS_RADICES, &mut d);
    NsCase { kind: d[0] as usize, path: d[1] as usize, u: d[2] as usize, mask: d[3] as u32 + 1, rot: d[4] as usize }
}

fn ns_space_size(level: u32) -> u64 {
    // the rotation is the slowest digit: quick = the first two rotations (any two scopes get a pair of layouts that are
    // not both consistent under at least one of them), thorough = all seven
    3 * 14 * 7 * 127 * if level == 0 { 2 } else { 7 }
}

fn ns_flat_struct(ty: &Ty, name: &str) -> String {
    match ty {
        Ty::Struct(ms) => format!("struct {name} {{ {} }};\n", ms.iter().enumerate().map(|(i, m)| format!("{} m{i};", m.expr())).collect::<Vec<_>>().join(" ")),
        _ => unreachable!(),
    }
}

fn ns_emit(s: usize, c: &NsCase, use_text: &str, out: &mut String) {
    if c.mask & (1 << s) != 0 {
        let l = (s + c.rot) % 7;
        out.push_str(&ns_flat_struct(&parse_ty(NS_LAYOUTS[l]).unwrap(), "T"));
        out.push_str(&format!("static const uint K = {};\n", l + 1));
    }
    // the namespace that contains the use comes last, so that every declaration precedes the use
    let on_path = |k: usize| k == c.u || NS_PARENT[c.u] == k;
    let mut kids: Vec<(usize, &str)> = ["a", "b"].iter().filter_map(|n| ns_child(s, n).map(|k| (k, *n))).collect();
    kids.sort_by_key(|(k, _)| on_path(*k));
    for (k, n) in kids {
        out.push_str(&format!("namespace {n} {{\n"));
        ns_emit(k, c, use_text, out);
        out.push_str("}\n");
    }
    if s == c.u {
        out.push_str(use_text);
    }
}

/// None: the path does not resolve under the reference rule (not a case)
pub fn check_ns_case(idx: u64, forms: &[Form], env: &Env, acc: &mut Acc) {
    let c = ns_decode(idx);
    let (rooted, comps) = ns_path(c.path);
    let Some(target) = ns_resolve(c.u, rooted, &comps, c.mask) else { return };
    let l = (target + c.rot) % 7;
    let spelled = format!("{}{}", if rooted { " ::" } else { "" }, comps.iter().map(|c| format!("{c}::")).collect::<String>());
    // one form per (declaring scopes, scope of the use): every path and kind of one situation is seen through the same use
    let form = forms[(idx / 42 % forms.len() as u64) as usize];
    let (ty, use_text) = match c.kind {
        0 => (parse_ty(NS_LAYOUTS[l]).unwrap(), form.tail(&format!("{spelled}T"), "")),
        1 => (parse_ty(&format!("{{{}}}", NS_LAYOUTS[l])).unwrap(), format!("struct W {{ {spelled}T m0; }};\n{}", form.tail("W", ""))),
        _ => (parse_ty(&format!("{{float4,float[{}]}}", l + 1)).unwrap(), format!("struct W {{ float4 m0; float m1[{spelled}K]; }};\n{}", form.tail("W", ""))),
    };
    let mut src = String::new();
    ns_emit(0, &c, &use_text, &mut src);
    let decoys = (0..7).filter(|s| *s != target && c.mask & (1 << s) != 0).count();
    let sp = Spelling {
        src: Some(src),
        class: Some(format!("name-resolution|{}-{}-namespaces", if rooted { "rooted" } else { "relative" }, comps.len())),
        note: format!(
            " named as {} `{}{}` in scope `::{}`, declared in scope `::{}` with other declarations of that name in {} of the scopes [::, a, b, a::a, a::b, b::a, b::b]",
            NS_KINDS[c.kind],
            spelled.trim(),
            if c.kind == 2 { "K" } else { "T" },
            NS_SCOPES[c.u],
            NS_SCOPES[target],
            decoys
        ),
        replay: Some(format!("kind: name\nindex: {idx}\n")),
        rank: (decoys as u64 * 100 + comps.len() as u64 * 10 + c.kind as u64) * 1000,
    };
    acc.count(&format!("qualified_name_{}_{}_components", if rooted { "rooted" } else { "relative" }, comps.len()));
    if decoys > 0 {
        acc.count("qualified_name_cases_with_decoy_declarations");
    }
    check_spelled(&ty, form, Inh::FLAT, &[], env, acc, &sp);
}

// ---------------------------------------------------------------------------------------------
// generators (index-addressable, simplest first)

fn leaf_names(list: &[&str]) -> Vec<Ty> {
    list.iter().map(|s| parse_ty(s).unwrap()).collect()
}

/// the 20 leaves + the enum
fn leaves21() -> Vec<Ty> {
    let mut v = Vec::new();
    for n in 1..=4u8 {
        for s in [Sc::Float, Sc::Int, Sc::Uint, Sc::Half, Sc::Double] {
            v.push(Ty::Leaf(s, n));
        }
        if n == 1 {
            v.push(Ty::Enum);
        }
    }
    v
}

/// one representative per (HLSL size, HLSL align, Metal size, Metal align) class: 3 scalar widths x 4 shapes
fn classes12() -> Vec<Ty> {
    leaf_names(&["float", "half", "double", "int2", "half2", "double2", "uint3", "half3", "double3", "float4", "half4", "double4"])
}
fn alpha8() -> Vec<Ty> {
    leaf_names(&["float", "half", "double", "float2", "half2", "float3", "half3", "float4"])
}
fn alpha6() -> Vec<Ty> {
    leaf_names(&["float", "half", "double", "float2", "half2", "float3"])
}

/// all structs with min_n..=max_n members over an alphabet
struct Multi {
    alpha: Vec<Ty>,
    min_n: usize,
    max_n: usize,
}

impl Multi {
    fn total(&self) -> u64 {
        (self.min_n..=self.max_n).map(|n| (self.alpha.len() as u64).pow(n as u32)).sum()
    }
    fn get(&self, mut idx: u64) -> Ty {
        let a = self.alpha.len() as u64;
        for n in self.min_n..=self.max_n {
            let c = a.pow(n as u32);
            if idx < c {
                let mut ms = Vec::with_capacity(n);
                for _ in 0..n {
                    ms.push(self.alpha[(idx % a) as usize].clone());
                    idx /= a;
                }
                return Ty::Struct(ms);
            }
            idx -= c;
        }
        unreachable!()
    }
    fn all(&self) -> Vec<Ty> {
        (0..self.total()).map(|i| self.get(i)).collect()
    }
}

/// one special member in every position of a struct with 1..=max_n members, the others from `fillers`
struct OneSpecial {
    specials: Vec<Ty>,
    fillers: Vec<Ty>,
    max_n: usize,
}

impl OneSpecial {
    fn per_special(&self) -> u64 {
        let f = self.fillers.len() as u64;
        (1..=self.max_n).map(|n| n as u64 * f.pow(n as u32 - 1)).sum()
    }
    fn total(&self) -> u64 {
        self.per_special() * self.specials.len() as u64
    }
    fn get(&self, idx: u64) -> Ty {
        let per = self.per_special();
        // shapes vary fastest so that every special is met early
        let special = &self.specials[(idx % self.specials.len() as u64) as usize];
        let mut r = idx / self.specials.len() as u64;
        debug_assert!(r < per);
        let f = self.fillers.len() as u64;
        for n in 1..=self.max_n {
            let c = n as u64 * f.pow(n as u32 - 1);
            if r < c {
                let pos = (r % n as u64) as usize;
                r /= n as u64;
                let mut ms = Vec::with_capacity(n);
                for i in 0..n {
                    if i == pos {
                        ms.push(special.clone());
                    } else {
                        ms.push(self.fillers[(r % f) as usize].clone());
                        r /= f;
                    }
                }
                return Ty::Struct(ms);
            }
            r -= c;
        }
        unreachable!()
    }
    fn all(&self) -> Vec<Ty> {
        (0..self.total()).map(|i| self.get(i)).collect()
    }
}

fn arrays_of(elems: &[Ty]) -> Vec<Ty> {
    let mut v = Vec::new();
    for len in 1..=4u32 {
        for e in elems {
            v.push(Ty::Array(Box::new(e.clone()), len));
        }
    }
    v
}

fn unknown_space() -> Vec<Ty> {
    let mut specials = Vec::new();
    for n in 1..=4u8 {
        specials.push(Ty::Leaf(Sc::Bool, n));
    }
    for (r, c) in [(2u8, 2u8), (3, 3), (4, 4), (3, 4), (4, 3), (2, 4), (1, 4), (4, 1)] {
        for s in [Sc::Float, Sc::Half, Sc::Int, Sc::Double] {
            specials.push(Ty::Mat(s, r, c));
        }
    }
    let mut wrapped = specials.clone();
    for s in &specials {
        wrapped.push(Ty::Struct(vec![s.clone()]));
        wrapped.push(Ty::Array(Box::new(s.clone()), 2));
        wrapped.push(Ty::Array(Box::new(Ty::Struct(vec![s.clone()])), 2));
    }
    OneSpecial { specials: wrapped, fillers: leaf_names(&["float", "half", "double", "float3"]), max_n: 2 }.all()
}

// ---------------------------------------------------------------------------------------------

/// `inhs` x types (x `forms` when `all_forms`; otherwise one of all forms per case, chosen by index). Cases whose
/// inheritance masks do not fit the type (`Inh::canonical`) are not cases at all.
#[allow(clippy::too_many_arguments)]
fn run_space<G>(ctx: &Ctx, rep: &mut Report, env: &Env, name: &str, total: u64, e2e: &[Cfg], forms: &[Form], all_forms: bool, inhs: &[Inh], get: G)
where
    G: Fn(u64) -> Option<Ty> + Sync,
{
    let nf = forms.len() as u64;
    let ni = inhs.len() as u64;
    let n = if all_forms { total * ni * nf } else { total * ni };
    let stride = (n / 5).max(1) | 1;
    let r = run_par(ctx, n, 256, |idx, acc| {
        let (rest, form) = if all_forms { (idx / nf, forms[(idx % nf) as usize]) } else { (idx, forms[(idx % nf) as usize]) };
        let (ti, inh) = (rest / ni, inhs[(rest % ni) as usize]);
        let ty = match get(ti) {
            Some(t) => t,
            None => return,
        };
        if !inh.canonical(&ty) {
            return;
        }
        check_case(&ty, form, inh, e2e, env, acc);
        if idx % stride == 0 {
            acc.sample(obj(vec![("space", name.into()), ("type", ty.expr().into()), ("inherit", inh.spec().into()), ("form", form.name().into())]));
        }
    });
    rep.absorb(name, r);
}

fn top_masks(max_members: usize) -> Vec<Inh> {
    (1..(1u32 << max_members)).map(|m| Inh { top: m as u8, inner: 0 }).collect()
}

pub fn run(ctx: &Ctx) -> i32 {
    let mut rep = Report::new("exploration");
    rep.rule = "every generated program is type-checked by the real typer and handed to the real ir::layout_checker::check_layout; non-trivial = the checker gave a verdict on a struct whose layout both reference calculators define; distinct = different (verdict, all HLSL field offsets, all Metal field offsets, total sizes)".into();
    let env = Env::probe();
    rep.cov(
        "forms_validated_by_the_checker(a mismatching canary struct is rejected)",
        Json::Arr(env.forms.iter().filter(|f| !env.is_not_validated(**f)).map(|f| f.name().into()).collect()),
    );
    rep.cov(
        "forms_not_validated",
        Json::Arr(env.forms.iter().filter(|f| env.is_not_validated(**f)).map(|f| f.name().into()).collect()),
    );

    // the request for validation holds whatever the order of the builder calls that surround it: every permutation of
    // {validate_layout_consistency(true), support_buffer_address(v), no_pipeline_mode()} x v x target x canary struct
    {
        let canaries = [("{float3,float}", "struct S { float3 a; float b; };\n", false), ("{float2,float}", "struct S { float2 a; float b; };\n", false), ("{float4}", "struct S { float4 a; };\n", true)];
        let orders: [[u8; 3]; 6] = [[0, 1, 2], [0, 2, 1], [1, 0, 2], [1, 2, 0], [2, 0, 1], [2, 1, 0]];
        let r = run_par(ctx, (canaries.len() * orders.len() * 2 * 3) as u64, 1, |idx, acc| {
            let mut d = Vec::new();
            crate::util::decode(idx, &[3, 2, orders.len() as u64, canaries.len() as u64], &mut d);
            let tname = ["HlslForDirectX", "HlslForVulkan", "Msl"][d[0] as usize];
            let target = match d[0] {
                0 => rssl::Target::HlslForDirectX,
                1 => rssl::Target::HlslForVulkan,
                _ => rssl::Target::Msl,
            };
            let ba = d[1] == 1;
            let order = orders[d[2] as usize];
            let (cname, decl, consistent) = canaries[d[3] as usize];
            let src = format!("{}StructuredBuffer<S> g_b;\nfloat f() {{ S s = g_b[0]; return s.a.x; }}\n", decl);
            acc.evals += 1;
            let r = guard(|| {
                let mut inc = crate::util::MapIncludes(&[("main.rssl", src.as_str())]);
                let mut args = rssl::CompileArgs::new("main.rssl", &mut inc, target);
                for step in order {
                    args = match step {
                        0 => args.validate_layout_consistency(true),
                        1 => args.support_buffer_address(ba),
                        _ => args.no_pipeline_mode(),
                    };
                }
                rssl::compile(args).map(|_| ()).map_err(|e| format!("{}", e))
            });
            let names = ["validate_layout_consistency(true)", "support_buffer_address", "no_pipeline_mode"];
            let shown: Vec<&str> = order.iter().map(|s| names[*s as usize]).collect();
            match r {
                Err(p) => acc.violation(Violation { signature: p.signature(), detail: format!("compile with builder order {:?} panicked: {}", shown, p.message), replay: String::new() }),
                Ok(v) => {
                    // a rejection that is not a layout diagnostic (a back end's own error) says nothing about validation
                    if let Err(msg) = &v {
                        if parse_layout_message(msg).is_none() {
                            acc.count(&format!("builder_order_cases_rejected_for_another_reason({})", one_line(msg, 40)));
                            return;
                        }
                    }
                    let accepted = v.is_ok();
                    if accepted != consistent {
                        acc.violation(Violation {
                            signature: format!("layout|{}|builder-call-order", if accepted { "accepted" } else { "rejected" }),
                            detail: format!("{} as StructuredBuffer<S> on {} (support_buffer_address({})): with the builder calls in the order {:?} compile {} although the layouts are {}", cname, tname, ba, shown, if accepted { "accepts" } else { "rejects" }, if consistent { "consistent" } else { "inconsistent" }),
                            replay: format!("kind: builder-order\n{}\n", idx),
                        });
                    } else {
                        acc.outcome(&("builder-order", accepted, cname));
                    }
                }
            }
        });
        rep.absorb("builder_call_orders", r);
    }

    // array members whose extents come from typedefs, with and without a qualifier on the typedef name: the member
    // `T m1[d1]` / `T m1[d1][d2]` between a float and a float2, spelled directly and through every typedef path
    {
        let leaves = ["float", "float2", "float3", "half", "uint"];
        let dims: Vec<Vec<u32>> = vec![vec![1], vec![2], vec![3], vec![2, 2], vec![3, 2], vec![2, 3], vec![1, 3], vec![2, 1]];
        // {E} element type, {D} all extents, {O} outer extent, {I} inner extents
        let paths: [(&str, &str, bool); 8] = [
            ("direct", "struct S0 { float m0; {E} m1{D}; float2 m2; };", false),
            ("typedef-of-array", "typedef {E} G{D};\nstruct S0 { float m0; G m1; float2 m2; };", false),
            ("const-typedef-of-array", "typedef {E} G{D};\ntypedef const G RG;\nstruct S0 { float m0; RG m1; float2 m2; };", false),
            ("typedef-of-const-array", "typedef const {E} G{D};\nstruct S0 { float m0; G m1; float2 m2; };", false),
            ("typedef-of-element", "typedef {E} T;\nstruct S0 { float m0; T m1{D}; float2 m2; };", false),
            ("typedef-row-then-declarator", "typedef {E} R{I};\nstruct S0 { float m0; R m1{O}; float2 m2; };", true),
            ("typedef-row-then-typedef", "typedef {E} R{I};\ntypedef R G{O};\nstruct S0 { float m0; G m1; float2 m2; };", true),
            ("const-typedef-row-then-typedef", "typedef {E} R{I};\ntypedef const R CR;\ntypedef CR G{O};\nstruct S0 { float m0; G m1; float2 m2; };", true),
        ];
        let forms: Vec<Form> = env.forms.iter().copied().filter(|f| f.site == Site::Plain && !env.is_not_validated(*f)).collect();
        let (nl, nd, np, nf) = (leaves.len() as u64, dims.len() as u64, paths.len() as u64, forms.len() as u64);
        let envr = &env;
        let r = run_par(ctx, nl * nd * np, 8, |idx, acc| {
            let mut d = Vec::new();
            crate::util::decode(idx, &[np, nd, nl], &mut d);
            let (pname, tpl, needs_two) = paths[d[0] as usize];
            let dm = &dims[d[1] as usize];
            if needs_two && dm.len() < 2 {
                return;
            }
            let leaf = leaves[d[2] as usize];
            let Some(elem) = parse_ty(leaf) else { return };
            // `T a[3][2]` is an array of 3 arrays of 2
            let mut member = elem;
            for n in dm.iter().rev() {
                member = Ty::Array(Box::new(member), *n);
            }
            let ty = Ty::Struct(vec![parse_ty("float").unwrap(), member, parse_ty("float2").unwrap()]);
            let ext = |v: &[u32]| v.iter().map(|n| format!("[{}]", n)).collect::<String>();
            let decls = tpl.replace("{E}", leaf).replace("{D}", &ext(dm)).replace("{O}", &ext(&dm[..1])).replace("{I}", &ext(&dm[1.min(dm.len())..]));
            let form = forms[(idx % nf) as usize];
            let src = format!("{}\n{}", decls, form.tail("S0", ""));
            let sp = Spelling { src: Some(src), class: Some(format!("typedef-array|{}", pname)), note: format!(" declared as `{}`", decls.replace('\n', " ")), replay: None, rank: d[0] * 100 + d[1] };
            check_spelled(&ty, form, Inh::FLAT, &[], envr, acc, &sp);
        });
        rep.absorb("array_members_through_typedefs", r);
    }

    // informational only: uses of a structured buffer that are outside the enumerated space (the property text
    // covers them, the task restricted the space to the forms the checker looks at). No verdict depends on this.
    let canary = "struct S { float3 a; float b; };\n";
    let outside = [
        ("array of buffers: StructuredBuffer<S> g[2]", "StructuredBuffer<S> g_b[2] : register(t0);\n"),
        ("function parameter: void f(StructuredBuffer<S> b)", "float f(StructuredBuffer<S> b) { return b[0].b; }\n"),
        ("struct member: struct T { StructuredBuffer<S> b; }", "struct T { StructuredBuffer<S> b; };\n"),
    ];
    let mut outside_report = Vec::new();
    for (what, tail) in outside {
        let v = validate_direct(&format!("{}{}", canary, tail));
        let verdict = match v {
            Ok(Verdict::Mismatch { .. }) => "validated (mismatching canary rejected)".to_string(),
            Ok(Verdict::Accept) => "NOT validated (mismatching canary {float3,float} accepted)".to_string(),
            other => format!("{:?}", other),
        };
        outside_report.push(obj(vec![("use", what.into()), ("checker", verdict.into())]));
    }
    rep.cov("uses_outside_the_enumerated_space(informational)", Json::Arr(outside_report));

    let l21 = leaves21();
    let c12 = classes12();
    let a8 = alpha8();
    let a6 = alpha6();
    let a5 = leaf_names(&["float", "half", "double", "half2", "float3"]);
    let a4 = leaf_names(&["float", "half", "double", "float3"]);
    let inner462 = Multi { alpha: l21.clone(), min_n: 1, max_n: 2 }.all();
    let inner156 = Multi { alpha: c12.clone(), min_n: 1, max_n: 2 }.all();
    let inner42 = Multi { alpha: a6.clone(), min_n: 1, max_n: 2 }.all();
    let inner72 = Multi { alpha: a8.clone(), min_n: 1, max_n: 2 }.all();
    let all4 = [Cfg::Dx, Cfg::Vk, Cfg::VkBa, Cfg::Msl];
    let two = [Cfg::Dx, Cfg::Msl];
    let none: [Cfg; 0] = [];
    let af = &env.forms[..];
    let plain = &env.forms[..PLAIN_FORMS];
    assert!(plain.iter().all(|f| f.site == Site::Plain) && env.forms[PLAIN_FORMS..].iter().all(|f| f.site != Site::Plain));
    let flat = &[Inh::FLAT][..];
    rep.cov("forms(use x site)", Json::Num(af.len() as f64));

    // G: every 1-2-member struct over all 21 leaves x every buffer form, end to end on every target configuration
    run_space(ctx, &mut rep, &env, "forms_x_structs_1to2_members_e2e", inner462.len() as u64, &all4, plain, true, flat, |i| Some(inner462[i as usize].clone()));

    // A: all structs with 1-3 members over the 21 leaves
    let a = Multi { alpha: l21.clone(), min_n: 1, max_n: 3 };
    run_space(ctx, &mut rep, &env, "flat_1to3_members_21_leaves", a.total(), ctx.pick(&none[..], &two[..]), af, false, flat, |i| Some(a.get(i)));

    // B: 4 members over the 12 (size, alignment) classes
    let b = Multi { alpha: c12.clone(), min_n: 4, max_n: 4 };
    run_space(ctx, &mut rep, &env, "flat_4_members_12_classes", b.total(), &none, af, false, flat, |i| Some(b.get(i)));

    // C: 5 and 6 members over smaller class alphabets
    let c5 = Multi { alpha: ctx.pick(a6.clone(), c12.clone()), min_n: 5, max_n: 5 };
    run_space(ctx, &mut rep, &env, "flat_5_members", c5.total(), &none, af, false, flat, |i| Some(c5.get(i)));
    let c6 = Multi { alpha: ctx.pick(a5.clone(), a8.clone()), min_n: 6, max_n: 6 };
    run_space(ctx, &mut rep, &env, "flat_6_members", c6.total(), &none, af, false, flat, |i| Some(c6.get(i)));

    // D: array members (length 1-4) of every leaf and of 1-2-member structs, in every position of a struct with <= 3 members
    let d1 = OneSpecial { specials: arrays_of(&l21), fillers: ctx.pick(a8.clone(), c12.clone()), max_n: 3 };
    run_space(ctx, &mut rep, &env, "array_of_leaf_member", d1.total(), &none, af, false, flat, |i| Some(d1.get(i)));
    let d2 = OneSpecial { specials: arrays_of(ctx.pick(&inner42, &inner156)), fillers: ctx.pick(a8.clone(), c12.clone()), max_n: 3 };
    run_space(ctx, &mut rep, &env, "array_of_struct_member", d2.total(), &none, af, false, flat, |i| Some(d2.get(i)));
    let d3 = OneSpecial { specials: arrays_of(&inner462), fillers: l21.clone(), max_n: ctx.pick(1, 2) };
    run_space(ctx, &mut rep, &env, "array_of_struct_member_all_leaves", d3.total(), &none, af, false, flat, |i| Some(d3.get(i)));

    // E: nesting depth 2
    let e1 = OneSpecial { specials: inner462.clone(), fillers: l21.clone(), max_n: 2 };
    run_space(ctx, &mut rep, &env, "nested2_all_leaves", e1.total(), ctx.pick(&none[..], &two[..]), af, false, flat, |i| Some(e1.get(i)));
    // one inner struct (all 156 over the 12 classes) in every position of an outer struct with <= 3 members
    let e2 = OneSpecial { specials: inner156.clone(), fillers: ctx.pick(a8.clone(), c12.clone()), max_n: 3 };
    run_space(ctx, &mut rep, &env, "nested2_one_inner_struct", e2.total(), &none, af, false, flat, |i| Some(e2.get(i)));
    if ctx.quick() {
        let e3 = Multi { alpha: inner42.clone(), min_n: 2, max_n: 2 };
        run_space(ctx, &mut rep, &env, "nested2_two_inner_structs", e3.total(), &none, af, false, flat, |i| Some(e3.get(i)));
    } else {
        // every member of an outer struct with <= 3 members is a leaf class or an inner struct (inner over 8 classes)
        let mut alpha = c12.clone();
        alpha.extend(inner72.iter().cloned());
        let e3 = Multi { alpha, min_n: 1, max_n: 3 };
        run_space(ctx, &mut rep, &env, "nested2_every_position", e3.total(), &none, af, false, flat, |i| {
            let t = e3.get(i);
            if t.has_struct_member() { Some(t) } else { None }
        });
    }

    // F: nesting depth 3: outer { mid { inner } }
    let (fi, ff) = if ctx.quick() { (inner42.clone(), a6.clone()) } else { (inner156.clone(), a8.clone()) };
    let mids = OneSpecial { specials: fi, fillers: ff.clone(), max_n: 2 }.all();
    let f = OneSpecial { specials: mids, fillers: ctx.pick(a4.clone(), ff), max_n: ctx.pick(2, 3) };
    run_space(ctx, &mut rep, &env, "nested3", f.total(), &none, af, false, flat, |i| Some(f.get(i)));
    // arrays inside the nested levels
    let g_in = OneSpecial { specials: arrays_of(&a6), fillers: a6.clone(), max_n: 2 }.all();
    let mut g_sp = g_in.clone();
    g_sp.extend(arrays_of(&g_in[..ctx.pick(26, g_in.len())]));
    let g = OneSpecial { specials: g_sp, fillers: a6.clone(), max_n: 2 };
    run_space(ctx, &mut rep, &env, "nested_struct_with_array_member", g.total(), &none, af, false, flat, |i| Some(g.get(i)));


    // G2: every form (use x site) x 1-2-member structs, end to end
    let g2 = ctx.pick(&inner42, &inner156);
    run_space(ctx, &mut rep, &env, "all_forms_x_structs_1to2_members_e2e", g2.len() as u64, &two, af, true, flat, |i| Some(g2[i as usize].clone()));

    // I: struct inheritance. Every way of cutting the member list of the element struct into a chain of derived structs
    // (a base after any subset of the members, the most derived body may be empty)
    let i_two = Multi { alpha: l21.clone(), min_n: 2, max_n: 2 };
    run_space(ctx, &mut rep, &env, "derived_2_members_21_leaves", i_two.total(), ctx.pick(&none[..], &two[..]), af, false, &top_masks(2), |i| Some(i_two.get(i)));
    let i_three = Multi { alpha: ctx.pick(c12.clone(), l21.clone()), min_n: 3, max_n: 3 };
    run_space(ctx, &mut rep, &env, "derived_3_members", i_three.total(), &none, af, false, &top_masks(3), |i| Some(i_three.get(i)));
    let i_four = Multi { alpha: ctx.pick(a5.clone(), a8.clone()), min_n: 4, max_n: 4 };
    run_space(ctx, &mut rep, &env, "derived_4_members", i_four.total(), &none, af, false, &top_masks(4), |i| Some(i_four.get(i)));
    // 5 members: one base after every member (thorough: every chain)
    let i_five = Multi { alpha: ctx.pick(a4.clone(), a5.clone()), min_n: 5, max_n: 5 };
    let single_cuts: Vec<Inh> = (0..5).map(|b| Inh { top: 1 << b, inner: 0 }).collect();
    let m5 = top_masks(5);
    run_space(ctx, &mut rep, &env, "derived_5_members", i_five.total(), &none, af, false, ctx.pick(&single_cuts[..], &m5[..]), |i| Some(i_five.get(i)));
    // every form x derived 2-member structs
    let i_forms = Multi { alpha: ctx.pick(a6.clone(), c12.clone()), min_n: 2, max_n: 2 };
    let first_cut = [Inh { top: 1, inner: 0 }];
    let m2 = top_masks(2);
    run_space(ctx, &mut rep, &env, "all_forms_x_derived_2_members_e2e", i_forms.total(), &two, af, true, ctx.pick(&first_cut[..], &m2[..]), |i| Some(i_forms.get(i)));
    // derived structs as nested struct members and as array elements, inside flat and derived outer structs
    let i_inner = Multi { alpha: ctx.pick(a6.clone(), c12.clone()), min_n: 2, max_n: 2 }.all();
    let mut nest_inhs = Vec::new();
    for inner in 1..4u8 {
        for top in 0..4u8 {
            nest_inhs.push(Inh { top, inner });
        }
    }
    let i_nest = OneSpecial { specials: i_inner.clone(), fillers: a8.clone(), max_n: 2 };
    run_space(ctx, &mut rep, &env, "derived_inner_struct", i_nest.total(), &none, af, false, &nest_inhs, |i| Some(i_nest.get(i)));
    let arr_inhs = [Inh { top: 0, inner: 1 }, Inh { top: 0, inner: 2 }, Inh { top: 0, inner: 3 }];
    let i_arr = OneSpecial { specials: arrays_of(&i_inner), fillers: a6.clone(), max_n: 2 };
    run_space(ctx, &mut rep, &env, "array_of_derived_struct", i_arr.total(), &none, af, false, ctx.pick(&arr_inhs[..], &nest_inhs[..]), |i| Some(i_arr.get(i)));
    // depth 3 (the quick tier's outer { mid { inner } } space): nested structs derived, outer struct flat or derived
    let f3 = OneSpecial { specials: OneSpecial { specials: inner42.clone(), fillers: a6.clone(), max_n: 2 }.all(), fillers: a4.clone(), max_n: 2 };
    let depth3_inhs = [Inh { top: 0, inner: 1 }, Inh { top: 1, inner: 1 }];
    run_space(ctx, &mut rep, &env, "derived_nested3", f3.total(), &none, af, false, ctx.pick(&depth3_inhs[..], &nest_inhs[..]), |i| Some(f3.get(i)));

    // J: two uses in one program (a consistent struct next to an inconsistent one in either order, and one struct used twice)
    {
        let good = leaf_names(&["float"]).into_iter().map(|t| Ty::Struct(vec![t])).chain([parse_ty("{float2,float,float}").unwrap()]).collect::<Vec<_>>();
        let bad = ["{float3}", "{float2,float}", "{half,float2}"].iter().map(|c| parse_ty(c).unwrap()).collect::<Vec<_>>();
        // (first struct, second struct or the same again)
        let mut combos: Vec<(Ty, Option<Ty>)> = Vec::new();
        for g in &good {
            for b in &bad {
                combos.push((g.clone(), Some(b.clone())));
                combos.push((b.clone(), Some(g.clone())));
            }
        }
        for t in good.iter().chain(bad.iter()) {
            combos.push((t.clone(), None));
        }
        combos.push((bad[0].clone(), Some(bad[1].clone())));
        combos.push((good[0].clone(), Some(good[1].clone())));
        let np = plain.len() as u64;
        let nc = combos.len() as u64;
        let r = run_par(ctx, np * np * nc, 64, |idx, acc| {
            let (fa, fb, c) = (plain[(idx % np) as usize], plain[(idx / np % np) as usize], &combos[(idx / np / np) as usize]);
            check_pair(&c.0, fa, c.1.as_ref(), fb, &env, acc);
        });
        rep.absorb("two_uses_plain_forms", r);
        // every form next to every plainly written use, in both orders, one consistent and one inconsistent struct
        let na = af.len() as u64;
        let r = run_par(ctx, na * np * 4, 64, |idx, acc| {
            let (fx, fp, k) = (af[(idx % na) as usize], plain[(idx / na % np) as usize], idx / na / np);
            if fx.site == Site::Plain {
                return;
            }
            let (g, b) = (&good[1], &bad[1]);
            match k {
                0 => check_pair(g, fx, Some(b), fp, &env, acc),
                1 => check_pair(b, fx, Some(g), fp, &env, acc),
                2 => check_pair(g, fp, Some(b), fx, &env, acc),
                _ => check_pair(b, fp, Some(g), fx, &env, acc),
            }
        });
        rep.absorb("two_uses_every_form_with_a_plain_form", r);
    }

    // K: array lengths written as constant expressions; L: qualified names with same-named decoys
    {
        let level = ctx.pick(0u32, 1u32);
        let spellings = len_spellings(level);
        let mut per_class = std::collections::BTreeMap::new();
        for s in &spellings {
            *per_class.entry(s.class).or_insert(0u64) += 1;
        }
        rep.cov("array_length_spellings", Json::Obj(per_class.iter().map(|(k, v)| (k.to_string(), Json::Num(*v as f64))).collect()));
        let r = run_par(ctx, len_space_size(level, spellings.len()), 64, |idx, acc| check_len_case(level, idx, &spellings, plain, &env, acc));
        rep.absorb("array_length_constant_expressions", r);
        let r = run_par(ctx, ns_space_size(level), 256, |idx, acc| check_ns_case(idx, plain, &env, acc));
        rep.absorb("qualified_names_with_decoys", r);
    }

    // H: bool / matrix members: error path only
    let u = unknown_space();
    run_space(ctx, &mut rep, &env, "unknown_layout_members", u.len() as u64, &two, af, false, flat, |i| Some(u[i as usize].clone()));

    if ctx.quick() {
        rep.caps_hit.push("quick tier, array lengths: 3 of the 5 wrapper structs, a op b op c over 1-3 (thorough: 1-4), enums with <= 4 enumerators over {implicit, 0, 1, 2, 3, -1} (thorough: also 6 and previous + 1 / + 2, and 5 enumerators over {implicit, 1, 3, -1}); qualified names: 2 of the 7 assignments of layouts to scopes (thorough: all)".into());
        rep.caps_hit.push("quick tier, inheritance: 3 members over the 12 classes (thorough: 21 leaves), 4 members over 5 classes (thorough: 8), 5 members over 4 classes with one base after every member (thorough: 5 classes, every chain); derived nested structs over the 6-class alphabet (thorough: 12); every form x 42 structs (thorough: 156); depth-3 nesting with the nested structs cut after their first member (thorough: every cut of 2-member structs)".into());
        rep.caps_hit.push("quick tier: 5 members over 6 classes and 6 members over 5 classes (thorough: 12 and 8); depth-3 outer structs have <= 2 members (thorough: 3); the other members around an array / nested struct come from 8 classes (thorough: 12); arrays of structs and depth-3 nesting over the 6-class inner alphabet (thorough: 12-class inner structs, 8-class fillers); depth-2 nesting with one inner struct in every position + pairs (thorough adds: every member of an outer struct with <= 3 members is a leaf class or one of 72 inner structs)".into());
    }
    rep.assumptions = vec![
        "HLSL structured-buffer packing and Metal layout are the rules written in DESIGN.md C19 (scalar size = alignment 2/4/8; HLSL vectors aligned to the scalar; Metal T2 = 2s/2s, T3 = T4 = 4s/4s; C-like struct and array rules; enum = 4/4); the two calculators in this file are the reference".into(),
        "array elements count as fields: element k of an array member must be at the same byte offset in both layouts".into(),
        "field sizes are not compared (a trailing half3 followed by equal offsets is consistent), only offsets and the total size, as the property states".into(),
        "a signature of the accepted branch is only raised when rssl::compile with validation enabled really succeeds for at least one target on the same source (checked for the first instance and for every instance that becomes the recorded representative; further instances of that signature are counted from the direct check_layout verdict, which the forms space shows to be identical to compile()'s)".into(),
        "in the rejected branch only the two sizes of the message are compared (the property says sizes); the reported alignments are compared into counters".into(),
        "beyond 3 members / inside nesting, leaves are taken from one representative per (size, alignment) class (12 classes); all 21 leaves are covered exhaustively for 1-3 members, for arrays, and for one nested struct".into(),
        "outside the exhaustive forms spaces each struct is used in exactly one buffer form (use x site), chosen by index modulo the number of forms".into(),
        "a derived struct `S : B` is the flat struct 'members of B, then the own members of S' with no extra padding after the base: that is what rssl's typer builds (base members are copied into the derived struct), what both exporters emit (a flat member list, never a base clause), and HLSL's rule; structs with several bases are outside the space (HLSL has no multiple inheritance)".into(),
        "with two uses in one program the rejection message does not name the struct: its two sizes must be the true sizes of one of the two structs".into(),
        "array lengths written as expressions mean what C integer arithmetic on small non-negative operands gives (cases with a negative or undefined sub-expression are not in the space); enumerators count from 0, an implicit one is the previous one plus 1; the arrays have 1-4 elements".into(),
        "qualified names mean what C++ lookup gives: a `::`-rooted path walks down from the root; a relative path starts at the innermost enclosing scope that has a namespace named like its first component (or, without components, that declares the name); paths that do not resolve to a declaration under that rule are not cases; every declaration precedes the use; the namespace tree is always the complete one over {a, b} to depth 2, so relative paths with two components only resolve from the root scope".into(),
        "bool and matrix members have no reference layout here; only absence of panics and the verdict counters are recorded".into(),
        "uses of a structured buffer the checker does not look at by construction (arrays of structured buffers, structured buffers as function parameters or struct members) are outside the enumerated space; they are listed under uses_outside_the_enumerated_space".into(),
    ];
    finish(ctx, rep)
}

pub fn replay(ctx: &Ctx, body: &str) -> i32 {
    let mut acc = Acc::default();
    if let Some(src) = body.strip_prefix("kind: source\n") {
        // diagnostic aid: show what the validator says about a hand-written program (no oracle)
        println!("direct: {:?}", validate_direct(src));
        for cfg in ALL_CFGS {
            println!("compile {}: {:?}", cfg.name(), validate_e2e(src, cfg));
        }
        return 0;
    }
    if body.starts_with("kind: length") || body.starts_with("kind: name") {
        let num = |k: &str| body.lines().find_map(|l| l.strip_prefix(k)).and_then(|r| r.trim().parse::<u64>().ok());
        let env = Env::probe();
        let plain = &env.forms[..PLAIN_FORMS];
        match (body.starts_with("kind: length"), num("level: "), num("index: ")) {
            (true, Some(level), Some(idx)) if level <= 1 => {
                let spellings = len_spellings(level as u32);
                if idx >= len_space_size(level as u32, spellings.len()) {
                    eprintln!("machinery error: index out of range");
                    return 2;
                }
                check_len_case(level as u32, idx, &spellings, plain, &env, &mut acc);
            }
            (false, _, Some(idx)) if idx < ns_space_size(1) => check_ns_case(idx, plain, &env, &mut acc),
            _ => {
                eprintln!("machinery error: cannot parse replay body");
                return 2;
            }
        }
        return finish_replay(ctx, &acc);
    }
    if body.starts_with("kind: pair") {
        let field = |k: &str| body.lines().find_map(|l| l.strip_prefix(k)).map(|r| r.trim().to_string());
        let fa = field("formA: ").and_then(|r| Form::from_name(&r));
        let fb = field("formB: ").and_then(|r| Form::from_name(&r));
        let ta = field("typeA: ").and_then(|r| parse_ty(&r));
        let tb_text = field("typeB: ");
        let tb = tb_text.as_deref().and_then(parse_ty);
        return match (fa, fb, ta, tb_text.as_deref(), tb) {
            (Some(fa), Some(fb), Some(ta), Some(text), tb) if text == "same" || tb.is_some() => {
                let env = Env::probe();
                check_pair(&ta, fa, tb.as_ref(), fb, &env, &mut acc);
                finish_replay(ctx, &acc)
            }
            _ => {
                eprintln!("machinery error: cannot parse replay body");
                2
            }
        };
    }
    let mut form = None;
    let mut ty = None;
    let mut inh = Some(Inh::FLAT);
    let mut e2e = Vec::new();
    let mut kind_ok = false;
    for line in body.lines() {
        if line.trim() == "kind: case" {
            kind_ok = true;
        } else if let Some(r) = line.strip_prefix("form: ") {
            form = Form::from_name(r.trim());
        } else if let Some(r) = line.strip_prefix("type: ") {
            ty = parse_ty(r.trim());
        } else if let Some(r) = line.strip_prefix("inherit: ") {
            inh = Inh::parse(r);
        } else if let Some(r) = line.strip_prefix("e2e: ") {
            e2e = r.split(',').filter_map(|c| Cfg::from_name(c.trim())).collect();
        }
    }
    let (form, ty, inh) = match (kind_ok, form, ty, inh) {
        (true, Some(f), Some(t), Some(i)) => (f, t, i),
        _ => {
            eprintln!("machinery error: cannot parse replay body");
            return 2;
        }
    };
    let env = Env::probe();
    check_case(&ty, form, inh, &e2e, &env, &mut acc);
    finish_replay(ctx, &acc)
}

//! C14 — layout trivia never changes results and diagnostics track source positions.
//! (E3-style deviation-bounded exploration: the default execution is the unmodified program, a deviation is one
//! trivia insertion at one token boundary; all executions with ≤ 1 (quick) / ≤ 2 (thorough) deviations are run.)
//!
//! Part 1 (trivia): for every program of the core, every file, every token boundary (computed from the real lexer's
//! spans) and every trivia kind {space, tab, newline, block comment, line comment, backslash splice}: insert, recompile
//! with the same target and mode, and compare: accepted ↔ accepted with byte-identical payload (sources, stages,
//! metadata, pipeline state); rejected ↔ rejected with the same messages and files (positions are part 2).
//! Excluded, as the property says, and only those: a boundary directly after a `<` or `>` token, and the boundary
//! between the name and the `(` of a function-like `#define`. Boundaries inside a directive line take no trivia that
//! contains a newline (that would end the directive, it is not an insertion inside the line).
//!
//! The comment kinds come with two contents: plain ASCII (`/*c*/`, `//c`) and multi-byte UTF-8 text (one 2-byte, one
//! 3-byte and one 4-byte character); a non-ASCII comment that fails where its plain twin fails too is reported under
//! the plain kind's signature (same root cause), otherwise under `trivia|non-ascii-comment|<kind>|<effect>`.
//!
//! Part 2 (line shift): for every rejected program, every file, every logical line start j and k = 0..=50: insert k
//! lines at j, for every kind of line in FILLERS (blank; `// c`; comment lines, line and block shape, whose text is
//! multi-byte UTF-8: byte offsets and character counts differ in front of the diagnosed construct; thorough adds each
//! character width on its own, an indented shape and CRLF variants). A failure that happens only with non-ASCII
//! comment text (the plain comment of the same shape conforms for the same j and k) has the signature
//! `lineshift|non-ascii-comment-line|<stage>|<line|column|message|echo|file|verdict>`. Every located message at (file, line ≥ j) must move to line + k; everything
//! else (other files, earlier lines, column, message, echoed source text, caret line, number of messages) must be
//! unchanged. For errors inside included files (and inside macro bodies / macro arguments written in another file)
//! the primary message must name the file that contains the offending text and the line of that text within it.
//!
//! Signatures: `trivia|<kind>|<token class before>|<token class after>|<ok-changed|verdict-changed|message-changed>`
//! (token class = nearest non-trivia token on that side), `trivia|message-embeds-position|<error class>` when the two
//! diagnostics differ only in numbers,
//! `lineshift|<error class>|<line|column|message|echo|file|verdict>`, `position|<error class>|<file|line|echo|verdict>`
//! (error class = stage and variant of the error enum, e.g. `typer:UnknownIdentifier`, `preprocess:InvalidDefine`).
//! A failing pair of insertions is attributed to the member that fails on its own (same signature as the single
//! insertion); `trivia-pair|...` is used only when both members are harmless alone.

use crate::engine::*;
use crate::json::{Json, obj};
use crate::util::*;
use rssl::text::tokens::Token;
use rssl::text::{FileName, Locate, LocateEnd, SourceManager};
use std::collections::{BTreeMap, BTreeSet};

// ---------------------------------------------------------------------------------------------
// programs

#[derive(Clone, Debug)]
pub struct Program {
    pub name: String,
    /// (file name, contents); the first one is the entry file
    pub files: Vec<(String, String)>,
    pub cfg: Cfg,
    pub mode: Mode,
    pub validate_layout: bool,
    /// where the primary diagnostic must point: (file, needle) = first occurrence of `needle` in that file
    pub expect_at: Option<(String, String)>,
}

impl Program {
    fn single(name: &str, src: &str) -> Program {
        Program { name: name.to_string(), files: vec![("main.rssl".to_string(), src.to_string())], cfg: Cfg::Dx, mode: Mode::NoPipeline, validate_layout: false, expect_at: None }
    }
    fn multi(name: &str, files: &[(&str, &str)]) -> Program {
        Program { name: name.to_string(), files: files.iter().map(|(a, b)| (a.to_string(), b.to_string())).collect(), cfg: Cfg::Dx, mode: Mode::NoPipeline, validate_layout: false, expect_at: None }
    }
    fn cfg(mut self, c: Cfg) -> Program {
        self.cfg = c;
        self
    }
    fn mode(mut self, m: Mode) -> Program {
        self.mode = m;
        self
    }
    fn layout(mut self) -> Program {
        self.validate_layout = true;
        self
    }
    fn at(mut self, file: &str, needle: &str) -> Program {
        self.expect_at = Some((file.to_string(), needle.to_string()));
        self
    }
    fn size(&self) -> usize {
        self.files.iter().map(|f| f.1.len()).sum()
    }
}

#[derive(Clone, Debug, PartialEq, Eq)]
pub enum Out {
    Ok(String),
    Err(String),
    Panic(String),
}

impl Out {
    fn tag(&self) -> &'static str {
        match self {
            Out::Ok(_) => "accepted",
            Out::Err(_) => "rejected",
            Out::Panic(_) => "panic",
        }
    }
    fn text(&self) -> &str {
        match self {
            Out::Ok(s) | Out::Err(s) | Out::Panic(s) => s,
        }
    }
}

/// compile `p` with its files replaced by `files`
pub fn run_files(p: &Program, files: &[(String, String)]) -> Out {
    let fs: Vec<(&str, &str)> = files.iter().map(|(a, b)| (a.as_str(), b.as_str())).collect();
    let job = Job { files: &fs, entry: fs[0].0, defines: &[], cfg: p.cfg, mode: p.mode.clone(), validate_layout: p.validate_layout };
    match guard(|| job.run()) {
        Ok(Ok(ps)) => Out::Ok(render_result(&Ok(ps))),
        Ok(Err(e)) => Out::Err(e),
        Err(pi) => Out::Panic(pi.signature()),
    }
}

fn variant_name(dbg: &str) -> String {
    dbg.chars().take_while(|c| c.is_ascii_alphanumeric() || *c == '_').collect()
}

/// error class of a rejected program: the stage and the variant of the error enum, found by running the stages one by
/// one through the public entry points (same order as rssl::compile)
pub fn classify(p: &Program) -> String {
    let r = guard(|| {
        let fs: Vec<(&str, &str)> = p.files.iter().map(|(a, b)| (a.as_str(), b.as_str())).collect();
        let mut inc = MapIncludes(&fs);
        let mut sm = SourceManager::new();
        let hl = if p.cfg.is_hlsl() { ("1", "0") } else { ("0", "1") };
        let defines = [("__HLSL_VERSION", "2021"), ("RSSL_TARGET_HLSL", hl.0), ("RSSL_TARGET_MSL", hl.1)];
        let toks = match rssl::preprocess::preprocess(fs[0].0, &mut sm, &mut inc, &defines) {
            Ok(t) => t,
            Err(rssl::preprocess::PreprocessError::LexerError(le)) => return format!("lexer:{:?}", le.reason),
            Err(e) => return format!("preprocess:{}", variant_name(&format!("{:?}", e))),
        };
        let toks = rssl::preprocess::prepare_tokens(&toks);
        let ast = match rssl::parser::parse(&toks) {
            Ok(a) => a,
            Err(e) => return format!("parser:{}", variant_name(&format!("{:?}", e.0))),
        };
        let ir = match rssl::typer::type_check(&ast) {
            Ok(ir) => ir,
            Err(e) => return format!("typer:{}", variant_name(&format!("{:?}", e.0))),
        };
        if p.validate_layout {
            match rssl::ir::layout_checker::check_layout(&ir) {
                Ok(()) => {}
                Err(rssl::ir::layout_checker::LayoutError::UnknownLayout(..)) => return "layout:UnknownLayout".to_string(),
                Err(rssl::ir::layout_checker::LayoutError::MismatchedLayout(..)) => return "layout:MismatchedLayout".to_string(),
            }
        }
        "backend".to_string()
    });
    match r {
        Ok(s) if s != "backend" => s,
        Ok(_) => match run_files(p, &p.files) {
            Out::Err(e) => {
                // exporter / pipeline selection errors: class = message with identifiers and numbers blanked
                let first = e.lines().next().unwrap_or("");
                let first = first.strip_prefix("error: ").unwrap_or(first);
                let mut s = String::new();
                for c in first.chars().take(48) {
                    if c.is_ascii_digit() {
                        if !s.ends_with('#') {
                            s.push('#');
                        }
                    } else {
                        s.push(c);
                    }
                }
                format!("backend:{}", s.trim())
            }
            o => o.tag().to_string(),
        },
        Err(pi) => pi.signature(),
    }
}

// ---------------------------------------------------------------------------------------------
// token spans from the real lexer

#[derive(Clone, Debug)]
pub struct Tk {
    pub start: usize,
    pub end: usize,
    pub tok: Token,
}

impl Tk {
    fn trivia(&self) -> bool {
        self.tok.is_whitespace()
    }
    fn class(&self) -> String {
        match &self.tok {
            Token::LeftAngleBracket(_) => "LeftAngleBracket".to_string(),
            Token::RightAngleBracket(_) => "RightAngleBracket".to_string(),
            t => variant_name(&format!("{:?}", t)),
        }
    }
}

pub struct Lexed {
    pub toks: Vec<Tk>,
    /// bytes from here on could not be lexed (lexer error in the original); no boundaries are taken there
    pub lexed_len: usize,
}

/// Lex one file with the real lexer. The lexer itself is private; `preprocess_fragment` returns its tokens (with
/// spans) for everything that is not a directive, so every `#` is replaced by `@` (a one-byte token in the same
/// lexer branch) before lexing and restored afterwards: directive lines are then lexed by the same code as text.
/// `##` is re-merged and the `<...>` of an `#include` line is merged into one header-name token, as the lexer does.
pub fn lex_file(text: &str) -> Result<Lexed, String> {
    let neutral: String = text.replace('#', "@");
    let lex = |s: &str| -> Result<Result<Vec<Tk>, Option<u32>>, PanicInfo> {
        guard(|| {
            let mut sm = SourceManager::new();
            match rssl::preprocess::preprocess_fragment(s, FileName("t.rssl".to_string()), &mut sm) {
                Ok(toks) => Ok(toks
                    .iter()
                    .filter(|t| t.get_location().get_raw() != u32::MAX)
                    .map(|t| Tk { start: t.get_location().get_raw() as usize, end: t.get_end_location().get_raw() as usize, tok: t.0.clone() })
                    .filter(|t| t.start < t.end && t.end <= s.len())
                    .collect()),
                Err(rssl::preprocess::PreprocessError::LexerError(le)) => Err(Some(le.location.get_raw())),
                Err(_) => Err(None),
            }
        })
    };
    let mut lexed_len = text.len();
    let mut toks = match lex(&neutral) {
        Err(p) => return Err(format!("lexer panicked: {}", p.signature())),
        Ok(Ok(t)) => t,
        Ok(Err(None)) => return Err("preprocess_fragment failed without a lexer error on directive-free text".into()),
        Ok(Err(Some(pos))) => {
            // the longest prefix of whole lines that lexes (an unterminated block comment is reported at the end of the text)
            let pos = (pos as usize).min(text.len());
            lexed_len = text[..pos].rfind('\n').map(|i| i + 1).unwrap_or(0);
            loop {
                match lex(&neutral[..lexed_len]) {
                    Ok(Ok(t)) => break t,
                    Ok(Err(Some(_))) if lexed_len > 0 => lexed_len = text[..lexed_len - 1].rfind('\n').map(|i| i + 1).unwrap_or(0),
                    _ => return Err("no prefix before the first lexer error lexes".into()),
                }
            }
        }
    };
    toks.sort_by_key(|t| t.start);
    // the spans must tile the lexed part
    let mut at = 0;
    for t in &toks {
        if t.start != at {
            return Err(format!("token spans do not tile at byte {} (next token starts at {})", at, t.start));
        }
        at = t.end;
    }
    if at != lexed_len {
        return Err(format!("token spans end at {} but the lexed text has {} bytes", at, lexed_len));
    }
    // restore `#` / `##`
    let bytes = text.as_bytes();
    let mut out: Vec<Tk> = Vec::with_capacity(toks.len());
    let mut i = 0;
    while i < toks.len() {
        let t = &toks[i];
        if t.tok == Token::At && bytes[t.start] == b'#' {
            if i + 1 < toks.len() && toks[i + 1].tok == Token::At && bytes[toks[i + 1].start] == b'#' {
                out.push(Tk { start: t.start, end: toks[i + 1].end, tok: Token::HashHash });
                i += 2;
            } else {
                out.push(Tk { start: t.start, end: t.end, tok: Token::Hash });
                i += 1;
            }
        } else {
            out.push(t.clone());
            i += 1;
        }
    }
    // header names
    let info = directive_info(&out);
    let mut merged: Vec<Tk> = Vec::with_capacity(out.len());
    let mut i = 0;
    while i < out.len() {
        if let Some(d) = info.dir[i] {
            if info.dirs[d].command == "include" && i > info.dirs[d].command_tok && matches!(out[i].tok, Token::LeftAngleBracket(_)) {
                if let Some(j) = (i + 1..out.len()).take_while(|j| info.dir[*j] == Some(d)).find(|j| matches!(out[*j].tok, Token::RightAngleBracket(_))) {
                    merged.push(Tk { start: out[i].start, end: out[j].end, tok: Token::HeaderName(text[out[i].start + 1..out[j].start].to_string()) });
                    i = j + 1;
                    continue;
                }
            }
        }
        merged.push(out[i].clone());
        i += 1;
    }
    Ok(Lexed { toks: merged, lexed_len })
}

pub struct Directive {
    pub hash_tok: usize,
    pub command_tok: usize,
    pub command: String,
    /// for `define`: index of the macro name token
    pub name_tok: Option<usize>,
}

pub struct DirInfo {
    /// per token: index of the directive it belongs to (`#` through the last token before the endline)
    pub dir: Vec<Option<usize>>,
    pub dirs: Vec<Directive>,
}

/// The line structure of preprocess_included_file replayed over the real tokens: a `#` that is the first
/// non-whitespace token of a logical line starts a directive which extends to the next Endline token.
pub fn directive_info(toks: &[Tk]) -> DirInfo {
    let mut dir = vec![None; toks.len()];
    let mut dirs: Vec<Directive> = Vec::new();
    let mut start_of_line = true;
    let mut cur: Option<usize> = None;
    for (i, t) in toks.iter().enumerate() {
        if t.tok == Token::Endline {
            start_of_line = true;
            cur = None;
            continue;
        }
        if let Some(d) = cur {
            dir[i] = Some(d);
            if !t.trivia() {
                if dirs[d].command_tok == usize::MAX {
                    dirs[d].command_tok = i;
                    dirs[d].command = match &t.tok {
                        Token::Id(id) => id.0.clone(),
                        Token::If => "if".into(),
                        Token::Else => "else".into(),
                        _ => "?".into(),
                    };
                } else if dirs[d].command == "define" && dirs[d].name_tok.is_none() && dirs[d].command_tok != i {
                    dirs[d].name_tok = Some(i);
                }
            }
            continue;
        }
        if start_of_line && t.tok == Token::Hash {
            dirs.push(Directive { hash_tok: i, command_tok: usize::MAX, command: String::new(), name_tok: None });
            cur = Some(dirs.len() - 1);
            dir[i] = cur;
            start_of_line = false;
        } else if !t.trivia() {
            start_of_line = false;
        }
    }
    DirInfo { dir, dirs }
}

/// Trivia kinds. The first `ASCII_KINDS` are the original plain kinds (also the ones used for pairs); the others add
/// the *content* dimension of comments: comment text made of multi-byte UTF-8 characters (one 2-byte, one 3-byte and
/// one 4-byte character; comments and strings are the only places where the lexer takes non-ASCII bytes).
pub const KINDS: [(&str, &str); 9] = [
    ("space", " "),
    ("tab", "\t"),
    ("newline", "\n"),
    ("block-comment", "/*c*/"),
    ("line-comment", "//c\n"),
    ("splice", "\\\n"),
    ("block-comment-utf8", "/*\u{e9}\u{2014}\u{1d6d1}*/"),
    // a block comment whose text starts with `/` (the `*` of the opener must not close it) and contains `//`
    ("block-comment-slash", "/*/ c // */"),
    ("line-comment-utf8", "//\u{e9}\u{2014}\u{1d6d1}\n"),
];
pub const ASCII_KINDS: usize = 6;
/// kinds of the single-insertion space: quick = the plain kinds + the non-ASCII block comment, thorough = all
pub fn single_kinds(quick: bool) -> usize {
    if quick { 8 } else { 9 }
}
/// the plain kind with the same shape as a non-ASCII kind (used to attribute a failure: content or shape?)
pub fn ascii_twin_kind(k: usize) -> Option<usize> {
    match KINDS[k].0 {
        "block-comment-utf8" => Some(3),
        "line-comment-utf8" => Some(4),
        _ => None,
    }
}

#[derive(Clone, Debug)]
pub struct Boundary {
    pub off: usize,
    /// class of the adjacent token before / after (may be trivia)
    pub before: String,
    pub after: String,
    /// class of the nearest non-trivia token before / after (used in signatures)
    pub sig_before: String,
    pub sig_after: String,
    pub in_directive: bool,
    /// one of the two designed exceptions of the property
    pub excepted: Option<&'static str>,
}

pub fn boundaries(lx: &Lexed) -> Vec<Boundary> {
    let toks = &lx.toks;
    let info = directive_info(toks);
    let mut v = Vec::new();
    for i in 0..=toks.len() {
        let prev = if i > 0 { Some(&toks[i - 1]) } else { None };
        let next = toks.get(i);
        let off = next.map(|t| t.start).unwrap_or(lx.lexed_len);
        if let (Some(a), Some(b)) = (prev, next) {
            // between two blanks: nothing adjacent that could care
            if a.tok == Token::Whitespace && b.tok == Token::Whitespace {
                continue;
            }
        }
        let in_directive = i > 0 && info.dir[i - 1].is_some();
        let mut excepted = None;
        if let Some(a) = prev {
            if matches!(a.tok, Token::LeftAngleBracket(_) | Token::RightAngleBracket(_)) {
                excepted = Some("after-angle-bracket");
            }
            if let (Some(d), Some(b)) = (info.dir[i - 1], next) {
                if info.dirs[d].name_tok == Some(i - 1) && b.tok == Token::LeftParen {
                    excepted = Some("define-name-paren");
                }
            }
        }
        let sig_before = toks[..i].iter().rev().find(|t| !t.trivia()).map(|t| t.class()).unwrap_or_else(|| "BOF".to_string());
        let sig_after = toks[i..].iter().find(|t| !t.trivia()).map(|t| t.class()).unwrap_or_else(|| "EOF".to_string());
        v.push(Boundary {
            off,
            before: prev.map(|t| t.class()).unwrap_or_else(|| "BOF".to_string()),
            after: next.map(|t| t.class()).unwrap_or_else(|| "EOF".to_string()),
            sig_before,
            sig_after,
            in_directive,
            excepted,
        });
    }
    v
}

/// one insertion: (file index, byte offset in the original file, kind index)
pub type Ins = (usize, usize, usize);

pub fn apply(files: &[(String, String)], ins: &[Ins]) -> Vec<(String, String)> {
    let mut out = files.to_vec();
    let mut sorted = ins.to_vec();
    // apply from the back so that offsets stay valid; equal offsets keep their list order in the text
    sorted.sort_by(|a, b| (b.0, b.1).cmp(&(a.0, a.1)));
    for (f, off, k) in sorted {
        out[f].1.insert_str(off, KINDS[k].1);
    }
    out
}

/// The insertion really is trivia in the result: every token of the new text that overlaps the inserted bytes is a
/// whitespace-class token and covers, besides inserted bytes, only bytes that were whitespace-class in the original.
/// (Fails for `/` + `/*c*/`: the text then contains `//`, the inserted bytes are not a comment of their own.)
/// Returns the indices of the ranges that were absorbed (empty = all insertions are trivia of their own).
pub fn admissible(orig: &str, orig_lx: &Lexed, new_text: &str, ranges: &[(usize, usize)]) -> Result<Vec<usize>, String> {
    let nl = lex_file(new_text)?;
    let mut triv = vec![false; orig.len() + 1];
    for t in &orig_lx.toks {
        if t.trivia() {
            for b in t.start..t.end {
                triv[b] = true;
            }
        }
    }
    let inserted = |b: usize| ranges.iter().any(|(s, l)| b >= *s && b < s + l);
    let to_orig = |b: usize| b - ranges.iter().filter(|(s, l)| s + l <= b).map(|(_, l)| *l).sum::<usize>();
    let mut bad: Vec<usize> = Vec::new();
    for t in &nl.toks {
        let touched: Vec<usize> = (0..ranges.len()).filter(|r| t.start < ranges[*r].0 + ranges[*r].1 && ranges[*r].0 < t.end).collect();
        if touched.is_empty() {
            continue;
        }
        let ok = t.trivia() && (t.start..t.end).all(|b| inserted(b) || triv[to_orig(b)]);
        if !ok {
            for r in touched {
                if !bad.contains(&r) {
                    bad.push(r);
                }
            }
        }
    }
    // (inserted bytes behind a lexer error of the new text are not judged here: the compile itself will tell)
    Ok(bad)
}

// ---------------------------------------------------------------------------------------------
// diagnostics

#[derive(Clone, Debug, PartialEq, Eq)]
pub struct Msg {
    pub file: Option<String>,
    pub line: u32,
    pub col: u32,
    pub sev: String,
    pub text: String,
    pub echo: String,
    pub caret: String,
}

/// `file:line:col: error|note: text` + echoed source line + caret line, or `error|note: text`, or free text
pub fn parse_diag(s: &str) -> Vec<Msg> {
    let lines: Vec<&str> = s.lines().collect();
    let mut v = Vec::new();
    let mut i = 0;
    while i < lines.len() {
        let l = lines[i];
        let mut located = None;
        for sev in ["error", "note"] {
            let pat = format!(": {}: ", sev);
            if let Some(p) = l.find(&pat) {
                let head = &l[..p];
                let mut it = head.rsplitn(3, ':');
                let col = it.next().and_then(|c| c.parse::<u32>().ok());
                let line = it.next().and_then(|c| c.parse::<u32>().ok());
                let file = it.next();
                if let (Some(col), Some(line), Some(file)) = (col, line, file) {
                    located = Some((file.to_string(), line, col, sev.to_string(), l[p + pat.len()..].to_string()));
                    break;
                }
            }
        }
        if let Some((file, line, col, sev, text)) = located {
            let echo = lines.get(i + 1).copied().unwrap_or("").to_string();
            let caret = lines.get(i + 2).copied().unwrap_or("").to_string();
            v.push(Msg { file: Some(file), line, col, sev, text, echo, caret });
            i += 3;
            continue;
        }
        let (sev, text) = if let Some(t) = l.strip_prefix("error: ") {
            ("error", t)
        } else if let Some(t) = l.strip_prefix("note: ") {
            ("note", t)
        } else {
            ("text", l)
        };
        v.push(Msg { file: None, line: 0, col: 0, sev: sev.to_string(), text: text.to_string(), echo: String::new(), caret: String::new() });
        i += 1;
    }
    v
}

fn msgs_no_pos(s: &str) -> Vec<(Option<String>, String, String)> {
    parse_diag(s).into_iter().map(|m| (m.file, m.sev, m.text)).collect()
}

// ---------------------------------------------------------------------------------------------
// oracles

fn mode_name(m: &Mode) -> String {
    match m {
        Mode::All => "all".to_string(),
        Mode::NoPipeline => "nopipe".to_string(),
        Mode::Named(n) => format!("named {}", n),
    }
}

fn esc_trivia(s: &str) -> String {
    s.replace('\\', "\\\\").replace('\n', "\\n").replace('\t', "\\t")
}

fn replay_head(p: &Program) -> String {
    let mut s = format!("cfg: {}\nmode: {}\nlayout: {}\nname: {}\n", p.cfg.name(), mode_name(&p.mode), p.validate_layout as u8, p.name);
    if let Some((f, n)) = &p.expect_at {
        s.push_str(&format!("expect_at: {}\t{}\n", f, esc_trivia(n)));
    }
    s
}

fn replay_files(p: &Program) -> String {
    let mut s = String::new();
    for (n, c) in &p.files {
        s.push_str(&format!("=====file {}\n{}\n", n, c));
    }
    s
}

fn first_diff(a: &str, b: &str) -> String {
    let mut la = a.lines();
    let mut lb = b.lines();
    loop {
        match (la.next(), lb.next()) {
            (Some(x), Some(y)) if x == y => continue,
            (Some(x), Some(y)) => return format!("`{}` vs `{}`", one_line(x.trim(), 140), one_line(y.trim(), 140)),
            (Some(x), None) => return format!("`{}` vs <end>", one_line(x.trim(), 140)),
            (None, Some(y)) => return format!("<end> vs `{}`", one_line(y.trim(), 140)),
            (None, None) => return format!("lengths {} vs {}", a.len(), b.len()),
        }
    }
}

/// compare the default execution with a deviated one; None = equal in the property's sense
pub fn trivia_verdict(base: &Out, var: &Out) -> Option<(&'static str, String)> {
    match (base, var) {
        (Out::Ok(a), Out::Ok(b)) => {
            if a == b {
                None
            } else {
                Some(("ok-changed", format!("both accepted but the payload differs: {}", first_diff(a, b))))
            }
        }
        (Out::Err(a), Out::Err(b)) => {
            let (ma, mb) = (msgs_no_pos(a), msgs_no_pos(b));
            if ma == mb {
                None
            } else {
                let d = ma.iter().zip(mb.iter()).find(|(x, y)| x != y).map(|(x, y)| format!("{:?} vs {:?}", x, y)).unwrap_or_else(|| format!("{} vs {} messages", ma.len(), mb.len()));
                // same messages up to numbers: the message text itself contains a position
                let blank = |m: &Vec<(Option<String>, String, String)>| -> Vec<(Option<String>, String, String)> {
                    m.iter().map(|(f, s, t)| (f.clone(), s.clone(), t.chars().map(|c| if c.is_ascii_digit() { '#' } else { c }).collect::<String>().replace("##", "#").replace("##", "#").replace("##", "#"))).collect()
                };
                if blank(&ma) == blank(&mb) {
                    Some(("message-embeds-position", format!("both rejected with the same message up to numbers that move with the layout: {}", d)))
                } else {
                    Some(("message-changed", format!("both rejected but the diagnostic differs (positions ignored): {}", d)))
                }
            }
        }
        (a, b) => Some(("verdict-changed", format!("{} without the insertion, {} with it: {}", a.tag(), b.tag(), one_line(if matches!(b, Out::Ok(_)) { a.text() } else { b.text() }, 200)))),
    }
}

pub struct Prepared {
    pub p: Program,
    pub base: Out,
    pub class: String,
    pub lexed: Vec<Result<Lexed, String>>,
    pub bounds: Vec<Vec<Boundary>>,
}

fn trivia_replay(p: &Program, ins: &[Ins]) -> String {
    let mut s = String::from("kind: trivia\n");
    s.push_str(&replay_head(p));
    for (f, off, k) in ins {
        s.push_str(&format!("insert: {}\t{}\t{}\n", p.files[*f].0, off, KINDS[*k].0));
    }
    s.push_str(&replay_files(p));
    s
}

/// run one deviated execution (1 or 2 insertions) through the oracle
pub fn check_trivia(pp: &Prepared, ins: &[Ins], acc: &mut Acc) {
    let p = &pp.p;
    let files = apply(&p.files, ins);
    // admissibility per file
    for f in 0..p.files.len() {
        let mine: Vec<&Ins> = ins.iter().filter(|i| i.0 == f).collect();
        if mine.is_empty() {
            continue;
        }
        let mut sorted: Vec<(usize, usize, &Ins)> = mine.iter().map(|i| (i.1, KINDS[i.2].1.len(), *i)).collect();
        sorted.sort_by_key(|x| (x.0, x.1));
        let mut shift = 0;
        let mut ranges = Vec::new();
        for (o, l, _) in &sorted {
            ranges.push((o + shift, *l));
            shift += l;
        }
        let lx = match &pp.lexed[f] {
            Ok(l) => l,
            Err(_) => return,
        };
        match admissible(&p.files[f].1, lx, &files[f].1, &ranges) {
            Ok(bad) if bad.is_empty() => {}
            Ok(bad) => {
                for r in bad {
                    let i = sorted[r].2;
                    let b = pp.bounds[f].iter().find(|b| b.off == i.1);
                    if let Some(b) = b {
                        acc.count(&format!("absorbed {} after {} before {}", KINDS[i.2].0, b.before, b.after));
                    }
                }
                acc.count("insertions_absorbed_by_a_neighbouring_token(not trivia, skipped)");
                return;
            }
            Err(e) => {
                acc.count(&format!("deviated text not lexable for admissibility: {}", one_line(&e, 60)));
            }
        }
    }
    acc.evals += 1;
    let var = run_files(p, &files);
    acc.outcome(&("trivia", p.name.as_str(), p.cfg, &files));
    acc.count(&format!("executions_{}", var.tag()));
    // the harness deviates before `<` / `>` (only "directly after" is excepted) and at macro call sites
    for (f, off, _) in ins {
        if let Some(b) = pp.bounds[*f].iter().find(|b| b.off == *off) {
            if b.after == "LeftAngleBracket" || b.after == "RightAngleBracket" {
                acc.count("deviations_directly_before_an_angle_bracket");
            }
            if b.in_directive {
                acc.count("deviations_inside_directive_lines");
            }
        }
    }
    if let Some((what, detail)) = trivia_verdict(&pp.base, &var) {
        // a failing pair is attributed to the insertion that fails on its own (same signature as the single
        // insertion); only a pair whose members are both harmless alone gets a pair signature
        let mut culprit: Option<(Ins, &'static str, String)> = None;
        if ins.len() > 1 {
            for one in ins {
                let v1 = run_files(p, &apply(&p.files, &[*one]));
                acc.evals += 1;
                if let Some((w1, d1)) = trivia_verdict(&pp.base, &v1) {
                    culprit = Some((*one, w1, d1));
                    break;
                }
            }
            acc.count(if culprit.is_some() { "failing_pairs_explained_by_one_member" } else { "failing_pairs_not_explained_by_one_member" });
        }
        let describe = |i: &Ins| -> (Boundary, String) {
            let (f, off, k) = *i;
            let b = pp.bounds[f].iter().find(|b| b.off == off).cloned().unwrap_or(Boundary { off, before: "?".into(), after: "?".into(), sig_before: "?".into(), sig_after: "?".into(), in_directive: false, excepted: None });
            let t = &p.files[f].1;
            let lo = t[..off].char_indices().rev().nth(14).map(|x| x.0).unwrap_or(0);
            let hi = t[off..].char_indices().nth(15).map(|x| off + x.0).unwrap_or(t.len());
            let around = format!("{} byte {} `{}⟨{}⟩{}`{}", p.files[f].0, off, one_line(&t[lo..off], 40), esc_trivia(KINDS[k].1), one_line(&t[off..hi], 40), if b.in_directive { " (inside a directive)" } else { "" });
            (b, around)
        };
        // content or shape? A non-ASCII comment that fails where the plain comment of the same shape fails too is the
        // same root cause as the plain one and gets its signature; one that fails where the plain comment conforms is
        // a failure of the comment text, whatever the neighbouring tokens: keyed by kind and effect only
        let sig_of = |i: &Ins, what: &str| -> String {
            let (b, _) = describe(i);
            let mut kind = KINDS[i.2].0;
            if let Some(t) = ascii_twin_kind(i.2) {
                let twin = run_files(p, &apply(&p.files, &[(i.0, i.1, t)]));
                if trivia_verdict(&pp.base, &twin).is_some() {
                    kind = KINDS[t].0;
                } else {
                    return format!("trivia|non-ascii-comment|{}|{}", kind, what);
                }
            }
            format!("trivia|{}|{}|{}|{}", kind, b.sig_before, b.sig_after, what)
        };
        let places: Vec<String> = ins.iter().map(|i| describe(i).1).collect();
        let (signature, detail, replay) = match (&culprit, ins.len()) {
            // a message that embeds a position is one root cause whatever the boundary: keyed by the error class
            _ if what == "message-embeds-position" => (format!("trivia|message-embeds-position|{}", pp.class), detail, trivia_replay(p, ins)),
            (Some((one, w1, d1)), _) if *w1 == "message-embeds-position" => (format!("trivia|message-embeds-position|{}", pp.class), d1.clone(), trivia_replay(p, &[*one])),
            (Some((one, w1, d1)), _) => (sig_of(one, w1), format!("(found in a pair, fails alone) {}", d1), trivia_replay(p, &[*one])),
            (None, 1) => (sig_of(&ins[0], what), detail, trivia_replay(p, ins)),
            (None, _) => (format!("trivia-pair|{}|{}", sig_of(&ins[0], "").trim_start_matches("trivia|").trim_end_matches('|'), sig_of(&ins[1], what).trim_start_matches("trivia|")), format!("(each insertion alone is harmless) {}", detail), trivia_replay(p, ins)),
        };
        let shown: Vec<String> = match &culprit {
            Some((one, _, _)) => vec![describe(one).1],
            None => places,
        };
        acc.violation(Violation { signature, detail: format!("{} [{} {}] insertion at {}: {}", p.name, p.cfg.name(), mode_name(&p.mode), shown.join(" and "), detail), replay });
    }
}

/// logical line starts of a text: (byte offset, 1-based line number); a line that continues a backslash-spliced line
/// is not a start
pub fn line_starts(text: &str) -> Vec<(usize, u32)> {
    let b = text.as_bytes();
    let mut v = vec![(0usize, 1u32)];
    let mut line = 1u32;
    for i in 0..b.len() {
        if b[i] == b'\n' {
            line += 1;
            let spliced = (i >= 1 && b[i - 1] == b'\\') || (i >= 2 && b[i - 1] == b'\r' && b[i - 2] == b'\\');
            if !spliced && i + 1 <= b.len() {
                v.push((i + 1, line));
            }
        }
    }
    v
}

/// One kind of inserted line. `text` is exactly one line (ends with its line ending).
pub struct Filler {
    pub name: &'static str,
    pub text: &'static str,
    /// part of the quick tier (the thorough tier runs all)
    pub quick: bool,
    /// the plain-ASCII filler of the same shape, for fillers whose comment text is not ASCII
    pub ascii_twin: Option<&'static str>,
}

/// Inserted lines = shape {blank, line comment, block comment on its own line, indented line comment} x comment text
/// {ASCII, one 2-byte / 3-byte / 4-byte UTF-8 character, all three} x line ending {LF, CRLF (CRLF programs only)}.
/// Quick runs the blank line, the plain comment and, for both comment shapes, the text with all three multi-byte
/// characters; thorough adds every character width on its own, the indented shape and the CRLF variants.
pub const FILLERS: [Filler; 11] = [
    Filler { name: "blank", text: "\n", quick: true, ascii_twin: None },
    Filler { name: "comment", text: "// c\n", quick: true, ascii_twin: None },
    Filler { name: "blank-crlf", text: "\r\n", quick: true, ascii_twin: None },
    Filler { name: "comment-utf8", text: "// \u{e9}\u{2014}\u{1d6d1}\n", quick: true, ascii_twin: Some("comment") },
    Filler { name: "block-comment-utf8", text: "/* \u{e9}\u{2014}\u{1d6d1} */\n", quick: true, ascii_twin: Some("block-comment") },
    Filler { name: "block-comment", text: "/* c */\n", quick: false, ascii_twin: None },
    Filler { name: "comment-2-byte-char", text: "// \u{e9}\n", quick: false, ascii_twin: Some("comment") },
    Filler { name: "comment-3-byte-char", text: "// \u{2014}\n", quick: false, ascii_twin: Some("comment") },
    Filler { name: "comment-4-byte-char", text: "// \u{1d6d1}\n", quick: false, ascii_twin: Some("comment") },
    Filler { name: "indented-comment-utf8", text: "  // \u{b5} \u{a9}\n", quick: false, ascii_twin: Some("comment") },
    Filler { name: "comment-utf8-crlf", text: "// \u{e9}\u{2014}\u{1d6d1}\r\n", quick: false, ascii_twin: Some("comment") },
];

fn filler_index(name: &str) -> Option<usize> {
    FILLERS.iter().position(|f| f.name == name)
}

fn lineshift_replay(p: &Program, f: usize, line: u32, k: usize, filler: usize) -> String {
    format!("kind: lineshift\n{}lines: {}\t{}\t{}\t{}\n{}", replay_head(p), p.files[f].0, line, k, FILLERS[filler].name, replay_files(p))
}

/// `off` (a line start of file f) is a token boundary of the lexed part of the file
fn block_comment_line_fits(pp: &Prepared, f: usize, off: usize) -> bool {
    match &pp.lexed[f] {
        Ok(lx) => off <= lx.lexed_len && (off == lx.lexed_len || lx.toks.binary_search_by_key(&off, |t| t.start).is_ok()),
        Err(_) => false,
    }
}

/// stage of an error class (`typer:UnknownIdentifier` -> `typer`)
fn stage_of(class: &str) -> &str {
    let st = class.split(':').next().unwrap_or(class);
    match st {
        "lexer" | "preprocess" | "parser" | "typer" | "layout" | "backend" => st,
        _ => "other",
    }
}

/// The line-shift oracle proper: `base` is the diagnostic of the original files, `var` the outcome after k lines were
/// inserted at logical line start `line` of file `fname`. None = conforms; Some((what, detail, a message had to move)).
fn lineshift_verdict(base: &str, var: &Out, fname: &str, line: u32, k: usize) -> Result<bool, (&'static str, String)> {
    let var = match var {
        Out::Err(e) => e,
        o => return Err(("verdict", format!("rejected before, {} after: {}", o.tag(), one_line(o.text(), 160)))),
    };
    let mb = parse_diag(base);
    let mv = parse_diag(var);
    if mb.len() != mv.len() {
        return Err(("message", format!("{} messages before, {} after; before `{}` after `{}`", mb.len(), mv.len(), one_line(base, 200), one_line(var, 200))));
    }
    let mut moved = false;
    for (b, v) in mb.iter().zip(mv.iter()) {
        let shift = b.file.as_deref() == Some(fname) && b.line >= line;
        let want_line = if shift { b.line + k as u32 } else { b.line };
        moved |= shift && k > 0;
        let what = if b.file != v.file {
            "file"
        } else if v.line != want_line {
            "line"
        } else if b.col != v.col {
            "column"
        } else if b.sev != v.sev || b.text != v.text {
            "message"
        } else if b.echo != v.echo || b.caret != v.caret {
            "echo"
        } else {
            continue;
        };
        return Err((
            what,
            format!(
                "expected {}:{}:{}: {}: {} / `{}`, got {}:{}:{}: {}: {} / `{}`",
                b.file.clone().unwrap_or_default(),
                want_line,
                b.col,
                b.sev,
                b.text,
                one_line(&b.echo, 80),
                v.file.clone().unwrap_or_default(),
                v.line,
                v.col,
                v.sev,
                v.text,
                one_line(&v.echo, 80)
            ),
        ));
    }
    Ok(moved)
}

/// insert k filler lines at logical line start `line` of file f and compare the diagnostics
pub fn check_lineshift(pp: &Prepared, f: usize, off: usize, line: u32, k: usize, filler: usize, acc: &mut Acc) {
    let p = &pp.p;
    let base = match &pp.base {
        Out::Err(e) => e,
        _ => return,
    };
    let with = |filler: usize| -> Vec<(String, String)> {
        let mut files = p.files.clone();
        files[f].1.insert_str(off, &FILLERS[filler].text.repeat(k));
        files
    };
    let files = with(filler);
    acc.evals += 1;
    let var = run_files(p, &files);
    if matches!(var, Out::Err(_)) {
        acc.outcome(&("lineshift", p.name.as_str(), p.cfg, &files));
    }
    match lineshift_verdict(base, &var, &p.files[f].0, line, k) {
        Ok(true) => acc.count("lineshift_cases_where_a_message_had_to_move"),
        Ok(false) => acc.count("lineshift_cases_where_nothing_had_to_move"),
        Err((what, detail)) => {
            // content or shape? A non-ASCII comment line that fails where the same number of plain comment lines of the
            // same shape conforms is a failure of its own class (one root cause whatever the error class of the program:
            // keyed by the stage only); otherwise it is the class the plain filler reports
            let mut signature = format!("lineshift|{}|{}", pp.class, what);
            if let Some(t) = FILLERS[filler].ascii_twin.and_then(filler_index) {
                let twin = run_files(p, &with(t));
                if lineshift_verdict(base, &twin, &p.files[f].0, line, k).is_ok() {
                    signature = format!("lineshift|non-ascii-comment-line|{}|{}", stage_of(&pp.class), what);
                    acc.count("lineshift_failures_only_with_non_ascii_comment_text");
                }
            }
            acc.violation(Violation {
                signature,
                detail: format!("{} [{}]: {} {} line(s) `{}` inserted before line {} of {}: {}", p.name, p.cfg.name(), k, FILLERS[filler].name, esc_trivia(FILLERS[filler].text).replace("\r", "\\r"), line, p.files[f].0, detail),
                replay: lineshift_replay(p, f, line, k, filler),
            });
        }
    }
}

/// the primary message must point at the first occurrence of the needle in the named file
pub fn check_position(pp: &Prepared, acc: &mut Acc) {
    let p = &pp.p;
    let Some((file, needle)) = &p.expect_at else { return };
    acc.evals += 1;
    let replay = format!("kind: position\n{}{}", replay_head(p), replay_files(p));
    let fail = |what: &str, detail: String, acc: &mut Acc| {
        acc.violation(Violation { signature: format!("position|{}|{}", pp.class, what), detail: format!("{}: {}", p.name, detail), replay: replay.clone() });
    };
    let base = match &pp.base {
        Out::Err(e) => e,
        o => {
            fail("verdict", format!("expected a diagnostic at `{}` in {} but the program is {}", needle, file, o.tag()), acc);
            return;
        }
    };
    let msgs = parse_diag(base);
    let Some(m) = msgs.first() else {
        fail("file", "empty diagnostic".into(), acc);
        return;
    };
    let Some(text) = p.files.iter().find(|x| &x.0 == file).map(|x| &x.1) else {
        fail("file", format!("machinery: no file {}", file), acc);
        return;
    };
    let Some(off) = text.find(needle.as_str()) else {
        fail("file", format!("machinery: needle `{}` not in {}", needle, file), acc);
        return;
    };
    let line = 1 + text[..off].matches('\n').count() as u32;
    let src_line = text.lines().nth(line as usize - 1).unwrap_or("");
    let what = if m.file.as_deref() != Some(file.as_str()) {
        "file"
    } else if m.line != line {
        "line"
    } else if m.echo != src_line {
        "echo"
    } else {
        acc.outcome(&("position", p.name.as_str()));
        return;
    };
    fail(what, format!("the diagnostic for `{}` should be at {}:{} echoing `{}`, got {}:{}:{} `{}` ({})", needle, file, line, src_line, m.file.clone().unwrap_or_else(|| "<no location>".into()), m.line, m.col, m.echo, m.text), acc);
}

pub fn prepare(p: Program) -> Prepared {
    let base = run_files(&p, &p.files);
    let class = match &base {
        Out::Err(_) => classify(&p),
        o => o.tag().to_string(),
    };
    let lexed: Vec<Result<Lexed, String>> = p.files.iter().map(|f| lex_file(&f.1)).collect();
    let bounds = lexed.iter().map(|l| l.as_ref().map(boundaries).unwrap_or_default()).collect();
    Prepared { p, base, class, lexed, bounds }
}

/// all single insertions of a program that the property covers
pub fn single_insertions(pp: &Prepared, nkinds: usize) -> (Vec<Ins>, BTreeMap<String, u64>) {
    let mut v = Vec::new();
    let mut skipped = BTreeMap::new();
    for (f, bs) in pp.bounds.iter().enumerate() {
        for b in bs {
            if let Some(e) = b.excepted {
                *skipped.entry(format!("excepted_by_the_property:{}", e)).or_insert(0) += 1;
                continue;
            }
            for (k, (_, text)) in KINDS.iter().enumerate().take(nkinds) {
                if b.in_directive && text.ends_with('\n') && *text != "\\\n" {
                    *skipped.entry("newline_kinds_inside_directive_lines".to_string()).or_insert(0) += 1;
                    continue;
                }
                v.push((f, b.off, k));
            }
        }
    }
    (v, skipped)
}

// ---------------------------------------------------------------------------------------------
// the core of programs

const BASE_FOR_MUTANTS: &str = r#"struct S
{
    float a;
    int b[2];
};

static const int N = 4;
groupshared float sh[N];
Texture2D<float4> g_t;
RWByteAddressBuffer g_o;
#define SCALE(v) ((v) * 2.0)

float helper(float x, int i)
{
    S s;
    s.a = x;
    s.b[0] = i;
    float acc = 0.0;
    for (int k = 0; k < N; ++k)
    {
        acc += SCALE(s.a) * (float)k;
    }
    if (acc > 1.0 && i >= 0)
        acc = acc > 2.0 ? acc : -acc;
    return acc + sh[0] + g_t.Load(int3(0, 0, 0)).x;
}

[numthreads(4, 1, 1)]
void CS(uint3 id : SV_DispatchThreadID)
{
    sh[id.x] = 1.0;
    g_o.Store<float>(0, helper(2.0, 1));
}

Pipeline P
{
    ComputeShader = CS;
}
"#;

fn valid_programs() -> Vec<Program> {
    let mut v = Vec::new();
    v.push(Program::single("base-for-mutants", BASE_FOR_MUTANTS).mode(Mode::All));
    v.push(Program::single("base-for-mutants-msl", BASE_FOR_MUTANTS).mode(Mode::All).cfg(Cfg::Msl));
    v.push(Program::single(
        "macros-object-and-function-like",
        r#"#define ONE 1.0
#define ADD(a, b) ((a) + (b))
#define OBJ (x)
#define EMPTY
#define TWICE(x) ADD(x, x)
#define CAT(a, b) a ## b
# define SPACED 3.0
#define NOARGS() 4.0
#define F(x) (x + 1.0)
#define G (x) + 1.0
#define HALF(v) ((v) / 2.0)
float f(float x) { EMPTY return ADD(x, ONE) + OBJ + TWICE(2.0) + CAT(1, 2) + SPACED + NOARGS(); }
float g() { return ADD ( 1.0 ,
    2.0 ) + ADD(ADD(1.0, 2.0), TWICE(ONE)); }
float h(float x) { float xy = 2.0; return F(x) + G + CAT(x, y) + F (x) + HALF(x) / HALF(2.0); }
"#,
    ));
    v.push(Program::single(
        "conditional-directives",
        r#"#define A 1
#define B 0
#if A && !B
static const int v0 = 1;
#elif defined(C)
static const int v0 = 2;
#else
static const int v0 = 3;
#endif
#ifdef A
static const int v1 = 1;
#endif
#ifndef Z
static const int v2 = 1;
#else
these tokens are skipped
#endif
#if defined A && defined(B) && (A > B || A >= 1) && B < A && B <= A && A == 1 && A != B
static const int v3 = 1;
#endif
#undef A
#ifdef A
skipped
#endif
#if RSSL_TARGET_HLSL
static const int v4 = 1;
#else
static const int v4 = 2;
#endif
#pragma warning(disable : 1)
int f() { return v0 + v1 + v2 + v3 + v4; }
"#,
    ));
    v.push(Program::single(
        "directives-with-continuation",
        "#define LONG(a, b) \\\n    ((a) * \\\n     (b))\n#define V \\\n  2.0\n#if 1 && \\\n    1\nfloat f() { return LONG(V, 3.0); }\n#endif\n// a line comment at the end of the file, without a newline",
    ));
    // small versions of the programs above: small enough for all pairs of insertions in the thorough tier
    v.push(Program::single(
        "small-macros",
        "#define ADD(a, b) ((a) + (b))\n#define OBJ (x)\n#define Z() 1.0\n#define CAT(a, b) a ## b\nfloat f(float x) { float xy = ADD(x, 1.0) + OBJ + Z(); return CAT(x, y) + ADD (xy ,\n  2.0); }\n",
    ));
    v.push(Program::single(
        "small-conditionals",
        "#define A 1\n#if defined(A) && A >= 1 && !defined B\nstatic const int v = 1;\n#elif A < 1\nstatic const int v = 2;\n#else\nstatic const int v = 3;\n#endif\n#ifndef B\nint f() { return v; }\n#endif\n",
    ));
    v.push(Program::single(
        "small-templates",
        "template<typename T> T id(T v) { return v; }\nStructuredBuffer<vector<float, 4> > g_a;\nTexture2D<vector<float, 4>> g_t;\nfloat f(int a, int b) { bool m = a < b && b > a; uint s = (uint)a >> 2u; s <<= 1u; return id<float>(1.0) + (m ? 1.0 : 0.0) + (float)s + g_a[0].x + 1.xx.y; }\n",
    ));
    v.push(Program::single("block-comment-at-end", "float f() { return 1.0; } /* a block comment at the end */"));
    v.push(Program::multi(
        "includes-entry-a-b",
        &[
            ("main.rssl", "#include \"a.rssl\"\n#include <c.rssl>\nfloat entry(float x) { return fa(x) + fb(x) + FC + FROM_A(x); }\n"),
            ("a.rssl", "#pragma once\n#include \"b.rssl\"\n#define FROM_A(x) ((x) + kb)\nfloat fa(float x) { return FROM_A(x) + fb(x); }\n"),
            ("b.rssl", "#pragma once\nstatic const float kb = 2.0;\nfloat fb(float x) { return x * kb; }"),
            ("c.rssl", "#include \"a.rssl\"\n#define FC 4.0\n"),
        ],
    ));
    v.push(Program::multi(
        "includes-with-pipeline",
        &[
            ("main.rssl", "#include \"res.rssl\"\n[numthreads(8, 1, 1)]\nvoid CS(uint3 id : SV_DispatchThreadID) { g_o[id.x] = LOAD(id.x) * k; }\nPipeline P { ComputeShader = CS; }\n"),
            ("res.rssl", "#include \"const.rssl\"\nconst StructuredBuffer<float> g_i;\nconst RWStructuredBuffer<float> g_o;\n#define LOAD(i) g_i[i]\n"),
            ("const.rssl", "static const float k = 2.0;\n"),
        ],
    ).mode(Mode::All).cfg(Cfg::Msl));
    v.push(Program::single(
        "templates-and-angle-brackets",
        r#"template<typename T> T id(T v) { return v; }
struct S { float4 a; };
StructuredBuffer<S> g_sb;
Texture2D<vector<float, 4>> g_t;
Buffer<vector<float, 4> > g_b;
ByteAddressBuffer g_bab;
RWTexture2D<vector<float, 2>> g_box;
float f(int a, int b, uint c) {
    bool lt = a < b; bool gt = a > b; bool le = a <= b; bool ge = a >= b;
    uint s = c >> 2u; s >>= 1u; s = s << 3u; s <<= 1u; s = c>>1u; s = c<<1u;
    bool m = a < b && b > a; bool n = (a < b) == (b > a); bool o = a<b; bool q = a>b;
    float4 v = g_bab.Load<float4>(0) + g_bab.Load< float4 >(16);
    vector<float, 2> w = vector<float, 2>(1.0, 2.0);
    matrix<float, 2, 2> mm = matrix<float, 2, 2>(1.0, 2.0, 3.0, 4.0);
    return id<float>(1.0) + id< float >(2.0) + (float)id<int>(a) + v.x + w.x + g_sb[0].a.x + (lt ? 1.0 : 0.0) + mm[0][0] + g_box[uint2(0, 0)].x + g_t.Load(int3(0, 0, 0)).x + g_b[0].x;
}
"#,
    ));
    v.push(Program::single(
        "casts-literals-swizzles",
        r#"float f(int i) {
    float a = (float)i + (float)(i + 1) * -(float)i + (float) i;
    float2 b = 1.xx; float3 c = 2.0.xxx; float2 d = float2(1, 2).yx; int2 e = 3.xx;
    uint h = 0x1Fu + 017u + 5u; int neg = -5; uint u2 = 7U;
    float g = 1e2 + 1.5e-1f + 2.0f + 0.5 + 1.0e+3 + 3.f; half hh = 2.0h; double dd = 3.0L;
    bool t = true; bool fl = false; int ix = i++ + ++i - i-- - --i; int m = i - -i + +i; int nn = i+-i;
    return a + b.x + c.y + d.x + (float)e.x + (float)h + g + (float)hh + (float)dd + (t || fl ? 1.0 : 0.0) + (float)(ix + m + nn + neg) + (float)u2;
}
"#,
    ));
    v.push(Program::single(
        "every-statement-form",
        r#"struct T { float a; int b[2]; void m() { a = 1.0; } float get() { return a; } };
enum E { A, B = 2, C };
typedef float4 vec4;
namespace n { static const float k = 1.0; float g() { return k; } namespace inner { float h() { return 2.0; } } }
float stmts(int a, out float o, inout float io, in float i2) {
    float x = 1.0; x += 2.0; x -= 1.0; x *= 2.0; x /= 2.0; int r = a % 3; r %= 2; float dv = x / 2.0 / (float)a * x;
    int i; for (i = 0; i < 4; ++i) { if (i == 2) continue; else break; }
    for (int j = 0, k = 1; j < 2; ++j, --k) { }
    uint k2 = 0u; while (k2 < 3u) { k2++; } do { k2--; } while (k2 > 0u);
    switch (a) { case 0: a = 2; break; case 1: case 2: a = 3; default: a = 4; }
    float4 v = float4(1, 2, 3, 4); float2 s = v.xy + v.zw; v.x = s.y;
    float arr[3] = { 1.0, 2.0, 3.0 }; arr[1] = arr[0] + arr[2];
    bool b = true && !false || 1 < 2; int t = b ? 1 : 2;
    uint u = 1u << 3u; u >>= 1u; u |= 4u; u &= ~1u; u ^= 2u; u = u & 3u | 4u ^ 5u;
    int n2 = sizeof(float4) + sizeof(int);
    [unroll] for (int q = 0; q < 2; ++q) { }
    [loop] for (int q2 = 0; q2 < 2; ++q2) { }
    [branch] if (b) { x = 0.0; }
    { float scoped = 1.0; x += scoped; }
    ;
    T tt; tt.m(); tt.b[1] = (int)E::B + (int)A;
    vec4 v4 = vec4(1, 2, 3, 4);
    o = x; io += i2;
    if (a > 100) return 0.0;
    return x + dv + (float)(t + r + n2 + i) + (float)u + tt.get() + n::g() + n::inner::h() + ::n::k + v4.w + min(1.0, 2.0) + dot(float3(1, 2, 3), float3(4, 5, 6));
}
void early() { return; }
"#,
    ));
    v.push(Program::single(
        "resources-pipeline-strings",
        r#"const Texture2D g_input;
const SamplerState g_sampler = StaticSampler { Filter = MIN_MAG_MIP_LINEAR; AddressU = Clamp; AddressV = Clamp; };
[[rssl::bind_group(1)]] const Texture2D g_second;
cbuffer Constants : register(b0) { float4x4 g_mvp; float4 g_tint; }
struct P2 { float x; };
ConstantBuffer<P2> g_cb : register(b2, space3);
const RWTexture2D<float4> g_rw : register(u1, space1);
void VSMAIN(uint vid : SV_VertexID, float3 pos : POSITION, out float4 o_pos : SV_Position, out float2 o_uv : TEXCOORD) {
    o_pos = mul(g_mvp, float4(pos, 1.0)); o_uv = pos.xy * g_cb.x;
}
float4 PSMAIN(float4 pos : SV_Position, float2 uv : TEXCOORD) : SV_Target0 {
    return g_input.Sample(g_sampler, uv) * g_tint + g_second.Load(int3(0, 0, 0)) + g_rw[uint2(0, 0)];
}
Pipeline G {
    VertexShader = VSMAIN;
    PixelShader = PSMAIN;
    RenderTargetFormat0 = "R8G8B8A8_UNORM";
    DepthTargetFormat = "D32_FLOAT";
    CullMode = "None";
    WindingOrder = "Clockwise";
    BlendState0 =
    {
        BlendEnabled = true;
        SrcBlend = "Zero";
        WriteMask = 0xFFu;
    }
}
"#,
    ).mode(Mode::All));
    v
}

/// rejected programs written by hand: each is one small change of a valid program; (name, source)
const REJECTED_SINGLE: &[(&str, &str)] = &[
    // lexer
    ("lex-string-never-ends", "float f() { return 1.0; }\nvoid g() {\n    \"abc;\n}"),
    ("lex-string-wraps-line", "float f() { return 1.0; }\nvoid g() {\n    \"abc\n\";\n}\n"),
    ("lex-unexpected-bytes", "float f() { return 1.0; }\n\nfloat g() { return 2.0 $ 3.0; }\n"),
    ("lex-backtick", "float f() {\n    return `1.0;\n}\n"),
    ("lex-float-suffix", "float f() {\n    float x = 1.0;\n    return x + 2.0q;\n}\n"),
    ("lex-int-too-large", "static const int A = 1;\nstatic const int B = 99999999999999999999;\n"),
    ("lex-block-comment-never-ends", "float f() { return 1.0; }\n/* never closed\nfloat g() { return 2.0; }\n"),
    ("lex-header-name-never-ends", "float f() { return 1.0; }\n#include <abc\n"),
    ("lex-header-name-wraps", "float f() { return 1.0; }\n#include <abc\n>\n"),
    ("lex-error-in-skipped-region", "#if 0\nvoid f() { $ }\n#endif\nfloat g() { return 1.0; }\n"),
    // preprocessor
    ("pp-unknown-command", "float f() { return 1.0; }\n#foo bar\nfloat g() { return 2.0; }\n"),
    ("pp-unknown-command-number", "float f() { return 1.0; }\n  # 12\n"),
    ("pp-invalid-include", "float f() { return 1.0; }\n#include foo\n"),
    ("pp-invalid-define", "float f() { return 1.0; }\n#define 1 2\n"),
    ("pp-invalid-define-param", "float f() { return 1.0; }\n#define F(1) x\n"),
    ("pp-invalid-define-open", "float f() { return 1.0; }\n#define F(a, b\n"),
    ("pp-invalid-undef", "#define A 1\n\n#undef 1\n"),
    ("pp-defined-requires-arguments", "#define A 1\n#if defined\nfloat f() { return 1.0; }\n#endif\n"),
    ("pp-macro-arguments-never-end", "#define F(a) a\nfloat f() { return F(1.0; }\n"),
    ("pp-macro-wrong-argument-count", "#define F(a) a\nfloat f() {\n    return F(1.0, 2.0);\n}\n"),
    ("pp-macro-noargs-given-args", "#define F() 1.0\nfloat f() {\n    return F(2.0);\n}\n"),
    ("pp-concat-missing-left", "#define C ## a\nfloat f() {\n    return C;\n}\n"),
    ("pp-concat-missing-right", "#define C a ##\nfloat f() {\n    return C;\n}\n"),
    ("pp-concat-failed", "#define C(a, b) a ## b\nfloat f() {\n    return C(+, ;);\n}\n"),
    ("pp-file-not-found", "float f() { return 1.0; }\n\n#include \"nope.rssl\"\n"),
    ("pp-file-not-found-header", "float f() { return 1.0; }\n#include <nope.rssl>\n"),
    ("pp-if-condition", "float f() { return 1.0; }\n#if 1 +\n#endif\n"),
    ("pp-if-condition-empty", "float f() { return 1.0; }\n#if\n#endif\n"),
    ("pp-elif-condition", "#if 0\n#elif (1\n#endif\nfloat f() { return 1.0; }\n"),
    ("pp-invalid-ifdef", "float f() { return 1.0; }\n#ifdef 1\n#endif\n"),
    ("pp-invalid-ifndef", "float f() { return 1.0; }\n#ifndef\n#endif\n"),
    ("pp-invalid-else", "#if 1\nfloat f() { return 1.0; }\n#else junk\n#endif\n"),
    ("pp-invalid-endif", "#if 1\nfloat f() { return 1.0; }\n#endif junk\n"),
    ("pp-condition-not-finished", "float f() { return 1.0; }\n#if 1\nfloat g() { return 1.0; }\n"),
    ("pp-else-not-matched", "float f() { return 1.0; }\n#else\n"),
    ("pp-elif-not-matched", "float f() { return 1.0; }\n#elif 1\n"),
    ("pp-endif-not-matched", "float f() { return 1.0; }\n#endif\n"),
    ("pp-unknown-pragma", "float f() { return 1.0; }\n#pragma foo\n"),
    ("pp-pragma-not-a-name", "float f() { return 1.0; }\n#pragma 1\n"),
    ("pp-pragma-empty", "float f() { return 1.0; }\n#pragma\n"),
    // parser
    ("parse-missing-semicolon", "float f()\n{\n    float x = 1.0\n    return x;\n}\n"),
    ("parse-missing-paren", "float f(float x)\n{\n    return (x + 1.0;\n}\n"),
    ("parse-end-of-stream", "float f(float x)\n{\n    return x;\n"),
    ("parse-stray-token", "float f(float x) { return x; }\n]\n"),
    ("parse-bad-toplevel", "float f(float x) { return x; }\n+ 1;\n"),
    ("parse-struct-no-semicolon", "struct S\n{\n    float a;\n}\nfloat f() { return 1.0; }\n"),
    ("parse-invalid-slot-type", "Texture2D g_a;\nTexture2D g_t : register(x0);\n"),
    ("parse-invalid-slot-index", "Texture2D g_a;\nTexture2D g_t : register(tx);\n"),
    ("parse-invalid-space", "Texture2D g_a;\nTexture2D g_t : register(t0, foo);\n"),
    ("parse-bad-attribute", "[[rssl::bind_group(1)]]\nfloat f() { return 1.0; }\n"),
    ("parse-not-a-type", "void f()\n{\n    sizeof(float +);\n}\n"),
    ("parse-template-args", "template<typename T> T id(T v) { return v; }\nfloat f() {\n    return id<float(1.0);\n}\n"),
    ("parse-in-macro-body", "#define BAD(x) (x +)\nfloat f(float a)\n{\n    return BAD(a);\n}\n"),
    ("parse-in-macro-argument", "#define ID(x) x\nfloat f(float a)\n{\n    return ID(a +);\n}\n"),
    ("parse-after-splice", "float f(float a)\n{\n    return a \\\n  + ;\n}\n"),
    ("parse-pipeline-property", "void v() {}\nPipeline P\n{\n    VertexShader v;\n}\n"),
    ("parse-packoffset", "cbuffer C\n{\n    float a : packoffset(c0);\n}\n"),
    // typer, multi-line
    ("type-unknown-identifier", "static float a = 1.0;\nfloat f()\n{\n    return a + undefined_name;\n}\n"),
    ("type-unknown-in-macro-body", "#define USE(x) ((x) + undefined_name)\nfloat f(float a)\n{\n    return USE(a);\n}\n"),
    ("type-unknown-in-macro-argument", "#define USE(x) ((x) + 1.0)\nfloat f(float a)\n{\n    return USE(undefined_name);\n}\n"),
    ("type-unknown-after-concat", "#define CAT(a, b) a ## b\nfloat f(float a)\n{\n    return CAT(undefined_, name);\n}\n"),
    ("type-redefinition-with-note", "struct S { float a; };\n\nfloat f() { return 1.0; }\nstruct S { float b; };\n"),
    ("type-cbuffer-redefinition", "cbuffer C { float a; }\nfloat f() { return a; }\ncbuffer C { float b; }\n"),
    ("type-template-param-note", "template<typename T>\nstruct Box { T v; };\n\nBox<1> g_b;\n"),
    ("type-overload-candidates", "void o(int4 x) {}\nvoid o(int3 x) {}\nvoid f()\n{\n    o(int2(0, 0));\n}\n"),
    ("type-ambiguous-overload", "float o(float a, int b) { return a; }\nfloat o(int a, float b) { return b; }\nfloat f()\n{\n    return o(1, 1);\n}\n"),
    ("type-intrinsic-candidates", "struct S {};\nstruct A {};\nvoid cross(S s) {}\nvoid f()\n{\n    A a;\n    cross(a);\n}\n"),
    ("type-wrong-return", "struct S { float a; };\nfloat f()\n{\n    S s;\n    return s;\n}\n"),
    ("type-const-write", "void f()\n{\n    const int x = 1;\n    x = 2;\n}\n"),
    ("type-after-tab-indent", "float f()\n{\n\treturn\tundefined_name;\n}\n"),
    ("type-after-block-comment", "float f()\n{\n    /* comment\n       over lines */ return undefined_name;\n}\n"),
    ("type-in-spliced-line", "float f()\n{\n    return 1.0 + \\\n        undefined_name;\n}\n"),
    ("type-in-method", "struct S\n{\n    float a;\n    float m()\n    {\n        return a + b;\n    }\n};\n"),
    ("type-in-template-instance", "template<typename T>\nT twice(T v)\n{\n    return v.nothing;\n}\nfloat f() { return twice<float>(1.0); }\n"),
    ("type-in-multi-line-macro-argument", "#define USE(x) ((x) + 1.0)\nfloat f(float a)\n{\n    return USE(\n        a +\n        undefined_name);\n}\n"),
    ("type-after-non-ascii-comment", "float f()\n{\n    /* é ü — */ return undefined_name; // ☃\n}\n"),
    ("type-in-namespace", "namespace n\n{\n    float g()\n    {\n        return missing;\n    }\n}\n"),
    ("type-unknown-numthreads", "int n;\n[numthreads(n, 1, 1)]\nvoid g() {}\nPipeline P { ComputeShader = g; }\n"),
    ("type-string-in-pipeline", "void v() {}\nvoid p() {}\nPipeline P\n{\n    VertexShader = v;\n    PixelShader = p;\n    DefaultBindGroup = \"a\";\n}\n"),
];

/// the line on which the diagnostic of a REJECTED_SINGLE program has to be reported: the line of this text
const EXPECTED_AT: &[(&str, &str)] = &[
    ("lex-string-never-ends", "\"abc"),
    ("lex-string-wraps-line", "\"abc"),
    ("lex-unexpected-bytes", "$"),
    ("lex-backtick", "`"),
    ("lex-float-suffix", "2.0q"),
    ("lex-int-too-large", "9999"),
    ("lex-header-name-never-ends", "<abc"),
    ("lex-header-name-wraps", "<abc"),
    ("lex-error-in-skipped-region", "$"),
    ("pp-unknown-command", "#foo"),
    ("pp-unknown-command-number", "# 12"),
    ("pp-invalid-include", "#include foo"),
    ("pp-invalid-define", "#define 1"),
    ("pp-invalid-define-param", "#define F(1)"),
    ("pp-invalid-define-open", "#define F(a"),
    ("pp-invalid-undef", "#undef 1"),
    ("pp-concat-missing-left", "## a"),
    ("pp-concat-missing-right", "a ##"),
    ("pp-file-not-found", "#include \"nope"),
    ("pp-file-not-found-header", "#include <nope"),
    ("pp-if-condition", "#if 1 +"),
    ("pp-elif-condition", "#elif (1"),
    ("pp-invalid-ifdef", "#ifdef 1"),
    ("pp-invalid-else", "#else junk"),
    ("pp-invalid-endif", "#endif junk"),
    ("pp-unknown-pragma", "#pragma foo"),
    ("parse-missing-semicolon", "return x"),
    ("parse-missing-paren", "return (x"),
    ("parse-stray-token", "]"),
    ("parse-bad-toplevel", "+ 1"),
    ("parse-invalid-slot-type", "x0"),
    ("parse-invalid-slot-index", "tx"),
    ("parse-invalid-space", "foo"),
    ("parse-not-a-type", "sizeof"),
    ("parse-in-macro-body", "(x +)"),
    ("parse-in-macro-argument", "ID(a +)"),
    ("parse-pipeline-property", "VertexShader v"),
    ("parse-packoffset", "packoffset"),
    ("type-redefinition-with-note", "struct S { float b"),
    ("type-cbuffer-redefinition", "cbuffer C { float b"),
    ("type-template-param-note", "Box<1>"),
    ("type-overload-candidates", "o(int2"),
    ("type-ambiguous-overload", "o(1, 1)"),
    ("type-intrinsic-candidates", "cross(a)"),
    ("type-wrong-return", "return s"),
    ("type-const-write", "x = 2"),
    ("type-in-method", "a + b"),
    ("type-in-template-instance", "v.nothing"),
    ("type-in-namespace", "missing"),
];

/// second batch: one program per remaining typer error class (single-line bodies, found by probing)
const REJECTED_TYPER: &[&str] = &[
    "void f() { float x; x[0]; }",
    "void f() { float x; x(1); }",
    "void f() { float x; x y; }",
    "void g() {}\nvoid f() { g; }",
    "void g() {}\nvoid h(float x) {}\nvoid f() { h(g); }",
    "struct S { float a; };\nstruct T { float b; };\nvoid f() { S s; s.T::b; }",
    "struct S { float a; };\nvoid f() { S s; s.f; }",
    "struct S : float { float a; };",
    "void f() { float* p; }",
    "float* g;",
    "void f() { \"abc\"; }",
    "void f() { float4 v; v.q; }",
    "void f() { float x; x.y.z.foo; }",
    "struct S { float a; };\nvoid f() { S s; s ? 1 : 2; }",
    "void f() { Foo x; }",
    "void f() { float4 v = float4(1, 2); }",
    "struct S { float a; };\nvoid f() { S s; float4 v = float4(s, 1, 2, 3); }",
    "template<int N, int N> void f() {}",
    "template<typename T> T id(T v) { return v; }\nvoid f() { id<float, float>(1.0); }",
    "void f() { SamplerState s = StaticSampler { Filter = MIN_MAG_MIP_LINEAR; }; }",
    "static SamplerState s = StaticSampler { Filter = MIN_MAG_MIP_LINEAR; };",
    "SamplerState s : register(s0) = StaticSampler { Filter = MIN_MAG_MIP_LINEAR; };",
    "SamplerState s = StaticSampler { Foo = 1; };",
    "struct S { float a : register(b0); };",
    "void f(float a : register(b0)) {}",
    "void f() { float a : TEXCOORD; }",
    "struct S { float a = 1.0; };",
    "[foo] void f() {}",
    "[numthreads(1, 1)] void f() {}",
    "void f() { [foo] for (int i = 0; i < 1; ++i) {} }",
    "void f() { [unroll(1, 2)] for (int i = 0; i < 1; ++i) {} }",
    "void f() { int n = 2; [unroll(n)] for (int i = 0; i < 1; ++i) {} }",
    "[[foo]] Texture2D t;",
    "[[rssl::bind_group]] Texture2D t;",
    "void f() { assert_type<float>(1); }",
    "void f() { assert_type<float>(); }",
    "void f() { assert_eval<int>(1); }",
    "void f() { assert_eval(1 + 1, 3); }",
    "void g() {}\nPipeline P { }",
    "void g() {}\nPipeline P { ComputeShader = g; PixelShader = g; }",
    "Pipeline P { ComputeShader = nothing; }",
    "void g() {}\nPipeline P { ComputeShader = g; Foo = 1; }",
    "void g() {}\nPipeline P { ComputeShader = g; ComputeShader = g; }",
    "[numthreads(1,1,1)] void g() {}\nPipeline P { ComputeShader = g; CullMode = Back; }",
    "void v() {}\nvoid p() {}\nPipeline P { VertexShader = v; PixelShader = p; CullMode = 1; }",
    "void v() {}\nvoid p() {}\nPipeline P { VertexShader = v; PixelShader = p; DefaultBindGroup = 1.5; }",
    "void v() {}\nvoid p() {}\nPipeline P { VertexShader = v; PixelShader = p; BlendState = 1; }",
    "void v() {}\nvoid p() {}\nPipeline P { VertexShader = v; PixelShader = p; CullMode = \"x\"; }",
    "[numthreads(1,1,1)] [outputtopology(\"square\")] void m() {}",
    "float f() { return; }",
    "void f() { float x = (float[2])1; }",
    "void f() { Texture2D t; t.Foo(); }",
    "struct S { float a; };\nvoid f() { float a[2]; S s; a[s]; }",
    "Texture2D t;\nvoid f() { Texture2D u = { 1 }; }",
    "void g() {}\nvoid f() { (float)g; }",
    "struct S { float a; };\nstruct T { float b; float c; };\nvoid f() { S s; T t; bool c; c ? s : t; }",
    "template<typename T> struct S { T a; };\nS<float, float> g_s;",
    "template<int N> struct S { float a[N]; };\nS<float> g_s;",
    "void f() { 1 = 2; }",
    "enum E { A = 1.5 };",
    "struct S { float a; };\nS<int> g_s;",
    "typedef float F;\nnamespace N { typedef float G; }\nvoid f(N::G<int> g) {}",
    "struct S { float a; };\ntypedef float T;\nvoid f() { S s; s.T::q; }",
    "SamplerState s = StaticSampler { Filter = \"x\"; };",
];

/// failing inputs of the typer test-suite (typer/tests/*.rs check_fail*), up to three per error class
const HARVESTED: &[&str] = &[
    r#"void f() { float g_myArray[][] = { { 1.0, 2.0 }, { 3.0, 3.0 } }; }"#,
    r#"void f() { float g_myArray[][] = { { 1.0, 2.0 }, { 3.0, 3.0 }, { 4.0, 4.0 } }; }"#,
    r#"float x[1 % 0];"#,
    r#"float x[1u % 0u];"#,
    r#"float x[1 % 1];"#,
    r#"float x[0u << 1u];"#,
    r#"static const uint c_size = 0; static float4 g_myArray[c_size];"#,
    r#"template<typename T> struct S {}; void main() { S<int> s1; S<float> s2; s1 = s2; }"#,
    r#"template<typename T> struct S { void f() { T t; t = uint2(3, 4); } }; S<float4x4> s;"#,
    r#"cbuffer MyConstants { float c1; } cbuffer MyConstants { float c1; }"#,
    r#"int x = int(7, 6);"#,
    r#"float f(float x = 1.5f, float y) { return x; }"#,
    r#"template<uint X = 4, uint Y> struct S {};"#,
    r#"enum E { A = 0, B = 18446744073709551615 };"#,
    r#"enum E { A = 0.0 };"#,
    r#"enum E { A = 0.0h };"#,
    r#"int a; int b; typedef int c; void f() { (a) + (b) + (c); }"#,
    r#"template<uint T, uint G> struct S {}; void main() { S<4, 5, 6> s1; }"#,
    r#"template<typename T, typename G> struct S {}; void main() { S<float, float, float> s1; }"#,
    r#"static uint c_value = 1; enum S { A = c_value };"#,
    r#"void f(int3 x) {} void f(int2 x) { f(1); }"#,
    r#"void f(int4 x) {} void f(int3 x) {} void main() { f(int2(0, 0)); }"#,
    r#"
    float f(float x) { return x; }
    double f(double x) { return x; }
    void main() {
        f(0.0);
    }
"#,
    r#"[WaveSize] void Main() {}"#,
    r#"[numthreads(64)] void Main() {}"#,
    r#"void line() {}"#,
    r#"struct S { void line() {} };"#,
    r#"struct S { void nointerpolation() {} };"#,
    r#"struct line {};"#,
    r#"struct precise {};"#,
    r#"struct nointerpolation {};"#,
    r#"typedef uint line;"#,
    r#"typedef uint centroid;"#,
    r#"typedef uint nointerpolation;"#,
    r#"uint line;"#,
    r#"void f() { uint triangle; }"#,
    r#"cbuffer MyConstants { uint nointerpolation; };"#,
    r#"static float2 g_vec = { 1.0 };"#,
    r#"struct S {}; static S g_test = { false };"#,
    r#"struct S { uint x; float y; uint z; }; static S g_test = { 6u };"#,
    r#"enum S {}; S value = 0;"#,
    r#"enum S {}; void main() { S value = 0; }"#,
    r#"struct S { uint x; float3 y; uint z; }; static S g_test = { 6u, float2(1, 2), 4u };"#,
    r#"void f() { half x; half y; x << y; }"#,
    r#"void f() { uint x; float y; x >> y; }"#,
    r#"void f() { double x; double y; x >> y; }"#,
    r#"void f(payload float x) {}"#,
    r#"void f(vertices float x[1]) {}"#,
    r#"uint x : register(b4);"#,
    r#"uint x : register(t4);"#,
    r#"Texture2D<float4> tex : register(b9);"#,
    r#"RWTexture2D<float4> tex : register(s10);"#,
    r#"cbuffer MyConstants : register(t4) { float c1; uint c2; }"#,
    r#"void main() { float3x3 t; t._11_m01; }"#,
    r#"void main() { float3x3 t; t._m00_m01_m02_m03; }"#,
    r#"void f() { int x = 1; x * x += x; }"#,
    r#"row_major float4 x;"#,
    r#"cbuffer S { row_major float4 x; }"#,
    r#"column_major float f() { return (float4x4)0; }"#,
    r#"void f(out indices uint x[1]) {}"#,
    r#"static extern float x;"#,
    r#"void f(nointerpolation linear float x) {}"#,
    r#"row_major column_major float4x4 f() { return (float4x4)0; }"#,
    r#"in float x;"#,
    r#"void f() { sample float x; }"#,
    r#"void f() { groupshared const float x; }"#,
    r#"typedef snorm uint X;"#,
    r#"cbuffer S { unorm uint x; }"#,
    r#"unorm uint f() { return 0; }"#,
    r#"Buffer<float> buf; void main() { buf[0] = 3; }"#,
    r#"Texture2DArray tex; void main() { tex[uint3(0, 0, 0)] = float4(1, 2, 3, 4); }"#,
    r#"RWTexture2DArray<const float4> tex; void main() { tex[uint3(0, 0, 0)] = float4(1, 2, 3, 4); }"#,
    r#"struct S {}; template<typename T> void f() { T t; t + 1; } void main() { f<S>(); }"#,
    r#"void f() { uint x; uint1 y; uint2 z = x && y; }"#,
    r#"void f() { uint x; uint2 y; uint2 z = x || y; }"#,
    r#"void f() { uint2 x; uint2 y, z; uint2 a = x ? y : z; }"#,
    r#"void f() { sizeof(0); }"#,
    r#"template<typename T> struct S {}; S s;"#,
    r#"template<typename T, typename T> T f(T v) { return v; }"#,
    r#"enum S {}; enum S {};"#,
    r#"struct S {}; struct S {};"#,
    r#"template<typename T> struct S {}; template<typename G> struct S {};"#,
    r#"void sub(float4 v) {} void main() { float t; sub(t.yyyy); }"#,
    r#"void f() { float x = 0; ~x; }"#,
    r#"void f() { const uint x = 0; --x; }"#,
    r#"void f() { const float x = 0u; ++x; }"#,
    r#"RWBuffer buf;"#,
    r#"matrix<float, 5, 5> x;"#,
    r#"namespace N { struct S {}; } StructuredBuffer<S> g_buffer;"#,
    r#"enum S { S };"#,
    r#"struct S { void f() {} void f(); };"#,
    r#"template<typename T> void f() {} template<typename T> void f() {}"#,
    r#"void x;"#,
    r#"void f(const void x) {}"#,
    r#"cbuffer VoidTest { const void x; }"#,
    r#"float f() { return; }"#,
];

fn include_programs() -> Vec<Program> {
    let a_ok = "#pragma once\n#include \"b.rssl\"\n#define FROM_A(x) ((x) + kb + undefined_in_a)\n#define GOOD_A(x) ((x) + kb)\nfloat fa(float x) { return GOOD_A(x) + fb(x); }\n";
    let main_ok = "// entry file\n#include \"a.rssl\"\n\nfloat entry(float x)\n{\n    return fa(x) + fb(x);\n}\n";
    let mut v = Vec::new();
    // errors of every stage inside the innermost file
    v.push(Program::multi("inc-b-typer", &[("main.rssl", main_ok), ("a.rssl", a_ok), ("b.rssl", "static const float kb = 2.0;\n\nfloat fb(float x)\n{\n    return x * kb_missing;\n}\n")]).at("b.rssl", "kb_missing"));
    v.push(Program::multi("inc-b-parser", &[("main.rssl", main_ok), ("a.rssl", a_ok), ("b.rssl", "static const float kb = 2.0;\n\nfloat fb(float x)\n{\n    return x * ;\n}\n")]).at("b.rssl", ";\n}"));
    v.push(Program::multi("inc-b-lexer", &[("main.rssl", main_ok), ("a.rssl", a_ok), ("b.rssl", "static const float kb = 2.0;\n\nfloat fb(float x)\n{\n    return x $ kb;\n}\n")]).at("b.rssl", "$"));
    v.push(Program::multi("inc-b-preprocessor", &[("main.rssl", main_ok), ("a.rssl", a_ok), ("b.rssl", "static const float kb = 2.0;\n\n  #bogus directive\nfloat fb(float x) { return x; }\n")]).at("b.rssl", "bogus"));
    v.push(Program::multi("inc-b-missing-include", &[("main.rssl", main_ok), ("a.rssl", a_ok), ("b.rssl", "static const float kb = 2.0;\n#include \"c.rssl\"\nfloat fb(float x) { return x; }\n")]).at("b.rssl", "include \"c.rssl\""));
    let b_ok = "static const float kb = 2.0;\n\nfloat fb(float x)\n{\n    return x * kb;\n}\n";
    // a macro defined in a.rssl is expanded in b.rssl / main.rssl: the offending text is in the macro body (a.rssl)
    v.push(
        Program::multi(
            "inc-macro-body-from-a-used-in-main",
            &[("main.rssl", "// entry file\n#include \"a.rssl\"\n\nfloat entry(float x)\n{\n    return FROM_A(x);\n}\n"), ("a.rssl", a_ok), ("b.rssl", b_ok)],
        )
        .at("a.rssl", "undefined_in_a"),
    );
    // the offending text is the macro argument written in main.rssl
    v.push(
        Program::multi(
            "inc-macro-argument-in-main",
            &[("main.rssl", "// entry file\n#include \"a.rssl\"\n\nfloat entry(float x)\n{\n    return GOOD_A(undefined_in_main);\n}\n"), ("a.rssl", a_ok), ("b.rssl", b_ok)],
        )
        .at("main.rssl", "undefined_in_main"),
    );
    // macro from main used in an included file that comes later
    v.push(
        Program::multi(
            "inc-macro-from-main-used-in-late-include",
            &[
                ("main.rssl", "#define FROM_MAIN(x) ((x) + undefined_in_main_macro)\n#include \"late.rssl\"\n"),
                ("late.rssl", "\n\nfloat late(float x)\n{\n    return FROM_MAIN(x);\n}\n"),
            ],
        )
        .at("main.rssl", "undefined_in_main_macro"),
    );
    v.push(
        Program::multi(
            "inc-macro-argument-in-late-include",
            &[("main.rssl", "#define ID_MAIN(x) (x)\n#include \"late.rssl\"\n"), ("late.rssl", "\n\nfloat late(float x)\n{\n    return ID_MAIN(undefined_in_late);\n}\n")],
        )
        .at("late.rssl", "undefined_in_late"),
    );
    // error in the middle file after it included b; error in the entry after all includes
    v.push(Program::multi("inc-a-after-include", &[("main.rssl", main_ok), ("a.rssl", "#pragma once\n#include \"b.rssl\"\nfloat fa(float x)\n{\n    return fb(x) + missing_in_a;\n}\n"), ("b.rssl", b_ok)]).at("a.rssl", "missing_in_a"));
    v.push(Program::multi("inc-main-after-includes", &[("main.rssl", "// entry file\n#include \"a.rssl\"\n\nfloat entry(float x)\n{\n    return fa(x) + missing_in_main;\n}\n"), ("a.rssl", a_ok), ("b.rssl", b_ok)]).at("main.rssl", "missing_in_main"));
    // redefinition across files: error in main, note in b
    v.push(
        Program::multi(
            "inc-redefinition-note-in-other-file",
            &[("main.rssl", "// entry file\n#include \"a.rssl\"\n\nstruct Dup { float again; };\n"), ("a.rssl", "#pragma once\n#include \"b.rssl\"\n"), ("b.rssl", "\nstruct Dup { float first; };\n")],
        )
        .at("main.rssl", "Dup"),
    );
    // the same file included twice (no pragma once): the second inclusion redefines
    v.push(Program::multi("inc-twice-redefines", &[("main.rssl", "#include \"b.rssl\"\n#include \"b.rssl\"\n"), ("b.rssl", "\nstruct Twice { float first; };\n")]).at("b.rssl", "Twice"));
    // error on the last line of an included file that does not end with a newline
    v.push(Program::multi("inc-b-no-trailing-newline", &[("main.rssl", "#include \"b.rssl\"\nfloat after() { return 1.0; }\n"), ("b.rssl", "float fb()\n{\n    return 1.0;\n}\nfloat bad() { return nope; }")]).at("b.rssl", "nope"));
    // layout validation error for a struct declared in an included file
    v.push(
        Program::multi(
            "inc-layout-mismatch",
            &[("main.rssl", "#include \"types.rssl\"\nconst StructuredBuffer<Packed> g_sb;\nfloat f() { return g_sb[0].b; }\n"), ("types.rssl", "// types\nstruct Packed\n{\n    float3 a;\n    float b;\n};\n")],
        )
        .layout(),
    );
    v
}

fn backend_and_layout_programs() -> Vec<Program> {
    let mut v = Vec::new();
    v.push(Program::single("layout-mismatch", "struct Packed\n{\n    float3 a;\n    float b;\n};\n\nconst StructuredBuffer<Packed> g_sb;\nfloat f() { return g_sb[0].b; }\n").layout().at("main.rssl", "g_sb;"));
    v.push(Program::single("layout-unknown-bool", "struct Flags\n{\n    bool a;\n};\n\nconst RWStructuredBuffer<Flags> g_flags;\nvoid f() { g_flags[0].a = true; }\n").layout().at("main.rssl", "g_flags;"));
    v.push(Program::single("layout-unknown-matrix", "struct M\n{\n    float4x4 m;\n};\nByteAddressBuffer g_b;\nfloat f()\n{\n    return g_b.Load<M>(0).m[0][0];\n}\n").layout());
    v.push(Program::single("layout-mismatch-load", "struct Packed\n{\n    float3 a;\n    float b;\n};\nByteAddressBuffer g_b;\nfloat f()\n{\n    return g_b.Load<Packed>(0).b;\n}\n").layout().at("main.rssl", "Packed"));
    v.push(Program::single("no-pipeline-in-file", "float f()\n{\n    return 1.0;\n}\n").mode(Mode::All));
    v.push(Program::single("named-pipeline-missing", "[numthreads(1, 1, 1)]\nvoid CS() {}\nPipeline P { ComputeShader = CS; }\n").mode(Mode::Named("Q".into())));
    v.push(Program::single("msl-matrix-index", "float f(float4x4 m)\n{\n    return m[1][2];\n}\n").cfg(Cfg::Msl));
    v.push(Program::single("msl-matrix-swizzle", "float f(float4x4 m)\n{\n    return m._m00;\n}\n").cfg(Cfg::Msl));
    v.push(Program::single("msl-missing-interpolator", "void VS(out float4 pos : SV_Position) { pos = float4(0, 0, 0, 1); }\nfloat4 PS(float2 uv : TEXCOORD) : SV_Target0\n{\n    return float4(uv, 0, 1);\n}\nPipeline G { VertexShader = VS; PixelShader = PS; }\n").cfg(Cfg::Msl).mode(Mode::All));
    v.push(Program::single("msl-unbounded-array", "Texture2D g_t[];\nfloat4 f()\n{\n    return g_t[3].Load(int3(0, 0, 0));\n}\n").cfg(Cfg::Msl));
    v
}

/// every program obtained from BASE_FOR_MUTANTS by deleting one non-trivia token (quick: every 4th token)
fn deletion_mutants(quick: bool) -> Vec<Program> {
    let mut v = Vec::new();
    let Ok(lx) = lex_file(BASE_FOR_MUTANTS) else { return v };
    let sig: Vec<&Tk> = lx.toks.iter().filter(|t| !t.trivia()).collect();
    for (n, t) in sig.iter().enumerate() {
        if quick && n % 4 != 1 {
            continue;
        }
        let mut s = BASE_FOR_MUTANTS.to_string();
        s.replace_range(t.start..t.end, "");
        v.push(Program::single(&format!("mutant-delete-token-{}-{}", n, t.class()), &s).mode(Mode::All));
    }
    v
}

pub fn core(quick: bool) -> Vec<Program> {
    let mut v = valid_programs();
    // the shared corpus of the other checks: large valid programs, five rejected ones, tests/basic/*.rssl
    for (name, src) in super::c08::core_programs() {
        if quick && src.len() > 1700 {
            continue;
        }
        let has_pipeline = src.contains("Pipeline ");
        let p = Program::single(&format!("shared/{}", name), &src).mode(if has_pipeline { Mode::All } else { Mode::NoPipeline });
        if has_pipeline && !quick {
            v.push(p.clone().cfg(Cfg::Msl));
            v.push(p.clone().cfg(Cfg::VkBa));
        }
        v.push(p);
    }
    for (name, src) in REJECTED_SINGLE {
        let mut p = Program::single(name, src);
        // where the diagnostic has to be (file and line are checked)
        if let Some((_, needle)) = EXPECTED_AT.iter().find(|(n, _)| n == name) {
            p = p.at("main.rssl", needle);
        } else if src.matches("undefined_name").count() == 1 && *name != "type-unknown-after-concat" {
            p = p.at("main.rssl", "undefined_name");
        }
        v.push(p);
    }
    for (i, src) in REJECTED_TYPER.iter().enumerate() {
        v.push(Program::single(&format!("typer-class-{}", i), &format!("// one error class per program\n\n{}\n", src)));
    }
    for (i, src) in HARVESTED.iter().enumerate() {
        v.push(Program::single(&format!("typer-suite-{}", i), &format!("// from the typer test-suite\n\n{}\n", src)));
    }
    v.extend(include_programs());
    v.extend(backend_and_layout_programs());
    // CRLF line endings: the same programs with every line ending replaced
    let crlf_of = ["macros-object-and-function-like", "directives-with-continuation", "includes-entry-a-b", "type-unknown-identifier", "parse-missing-semicolon", "pp-unknown-command", "lex-unexpected-bytes", "type-redefinition-with-note", "type-in-spliced-line", "inc-b-typer", "inc-macro-body-from-a-used-in-main", "layout-mismatch"];
    let crlf: Vec<Program> = v
        .iter()
        .filter(|p| crlf_of.contains(&p.name.as_str()))
        .map(|p| {
            let mut q = p.clone();
            q.name = format!("crlf/{}", p.name);
            for f in q.files.iter_mut() {
                f.1 = f.1.replace('\n', "\r\n");
            }
            q
        })
        .collect();
    v.extend(crlf);
    v.extend(deletion_mutants(quick));
    // accepted mutants are kept (they are valid programs); names are unique
    let mut seen = BTreeSet::new();
    v.retain(|p| seen.insert((p.name.clone(), p.cfg)));
    v
}

// ---------------------------------------------------------------------------------------------

pub fn run(ctx: &Ctx) -> i32 {
    if let Ok(path) = std::env::var("C14_PROBE") {
        return probe(&path);
    }
    if std::env::var("C14_LIST").is_ok() {
        for p in core(ctx.quick()) {
            let pp = prepare(p);
            let nb: usize = single_insertions(&pp, single_kinds(ctx.quick())).0.len();
            let t0 = std::time::Instant::now();
            for _ in 0..10 {
                let _ = run_files(&pp.p, &pp.p.files);
            }
            let us = t0.elapsed().as_micros() / 10;
            println!("{}\t{}\t{}\t{}\t{}\t{}us\t{}", pp.p.name, pp.p.cfg.name(), pp.base.tag(), pp.class, nb, us, one_line(if matches!(pp.base, Out::Ok(_)) { "" } else { pp.base.text() }, 220));
            for (f, l) in pp.lexed.iter().enumerate() {
                if let Err(e) = l {
                    println!("   LEX PROBLEM in {}: {}", pp.p.files[f].0, e);
                }
            }
        }
        return 0;
    }
    let mut rep = Report::new("model_checking");
    let bound = ctx.pick(1usize, 2usize);
    rep.rule = format!(
        "E3: default execution = the unmodified program; deviation = one trivia insertion ({} kinds for single insertions: space, tab, newline, block comment, line comment, splice and comments whose text is multi-byte UTF-8; the 6 plain kinds for pairs) at one token boundary of one file; every execution with at most {} deviations is compiled and compared with the default; plus k = 0..=50 inserted lines ({} kinds of line: blank, line/block comment with ASCII and with 2/3/4-byte UTF-8 text, CRLF variants for CRLF programs) at every logical line start of every file of every rejected program. Non-trivial = the deviated/shifted program was really compiled (insertions that a neighbouring token absorbs are not counted); distinct = distinct (program, target, deviated file contents)",
        single_kinds(ctx.quick()),
        bound,
        FILLERS.iter().filter(|f| !ctx.quick() || f.quick).count()
    );
    let programs = core(ctx.quick());
    let n_programs = programs.len();

    // default executions, each twice (determinism of the harness side)
    let prepared = std::sync::Mutex::new(BTreeMap::<usize, Prepared>::new());
    let r = run_par(ctx, programs.len() as u64, 1, |idx, acc| {
        let p = programs[idx as usize].clone();
        acc.evals += 2;
        let pp = prepare(p);
        let again = run_files(&pp.p, &pp.p.files);
        if again != pp.base {
            acc.violation(Violation { signature: "nondeterministic|same-input-twice".into(), detail: format!("{}: two compiles of the same files differ", pp.p.name), replay: trivia_replay(&pp.p, &[]) });
        }
        for (f, l) in pp.lexed.iter().enumerate() {
            if let Err(e) = l {
                acc.violation(Violation { signature: "machinery|token-spans".into(), detail: format!("{} file {}: {}", pp.p.name, pp.p.files[f].0, e), replay: trivia_replay(&pp.p, &[]) });
            }
        }
        acc.count(&format!("programs_{}", pp.base.tag()));
        if let Out::Err(_) = &pp.base {
            acc.count(&format!("class {}", pp.class));
        }
        prepared.lock().unwrap().insert(idx as usize, pp);
    });
    rep.absorb("default_executions", r);
    let timing = std::env::var("C14_TIMING").is_ok();
    let phase = |what: &str| {
        if timing {
            eprintln!("[C14 timing] {} done at {:.1}s", what, ctx.start.elapsed().as_secs_f64());
        }
    };
    phase("default executions");
    let prepared: Vec<Prepared> = prepared.into_inner().unwrap().into_values().collect();
    if prepared.len() != n_programs {
        eprintln!("machinery error: default executions incomplete");
        return 2;
    }

    // simplest first
    let mut order: Vec<usize> = (0..prepared.len()).collect();
    order.sort_by_key(|i| (prepared[*i].p.size(), *i));

    // part 2: line shift
    let mut ltasks: Vec<(usize, usize, usize, u32)> = Vec::new();
    for &i in &order {
        let pp = &prepared[i];
        if !matches!(pp.base, Out::Err(_)) {
            continue;
        }
        for (f, (_, text)) in pp.p.files.iter().enumerate() {
            for (off, line) in line_starts(text) {
                ltasks.push((i, f, off, line));
            }
        }
    }
    let r = run_par(ctx, ltasks.len() as u64, 2, |idx, acc| {
        let (i, f, off, line) = ltasks[idx as usize];
        for filler in 0..FILLERS.len() {
            if ctx.quick() && !FILLERS[filler].quick {
                continue;
            }
            // CRLF filler lines only for programs that use CRLF line endings
            if FILLERS[filler].text.contains('\r') && !prepared[i].p.files.iter().any(|f| f.1.contains('\r')) {
                continue;
            }
            // a block comment line is trivia only where a token can start: not at a line start inside a block comment
            // that spans lines (its `*/` would close that comment), nor in the part behind a lexer error
            if FILLERS[filler].text.starts_with("/*") && !block_comment_line_fits(&prepared[i], f, off) {
                acc.count("lineshift_block_comment_lines_not_inserted_inside_a_token_or_unlexed_text");
                continue;
            }
            // quick: the non-ASCII fillers use the k values {0, 1, 2, 3, 7, 50} (a byte/character mix-up shows with one
            // line); the plain fillers and the thorough tier use every k in 0..=50
            let thin = ctx.quick() && FILLERS[filler].ascii_twin.is_some();
            for k in 0..=50usize {
                if thin && !matches!(k, 0 | 1 | 2 | 3 | 7 | 50) {
                    continue;
                }
                check_lineshift(&prepared[i], f, off, line, k, filler, acc);
            }
        }
    });
    let shifts = r.acc.evals;
    rep.absorb("lineshift_insertion_points", r);
    phase("lineshift");

    // part 2b: positions inside included files / macro expansions
    let with_expect: Vec<usize> = (0..prepared.len()).filter(|i| prepared[*i].p.expect_at.is_some()).collect();
    let r = run_par(ctx, with_expect.len() as u64, 1, |idx, acc| check_position(&prepared[with_expect[idx as usize]], acc));
    rep.absorb("expected_positions", r);

    // part 1, one deviation
    let mut tasks: Vec<(usize, Ins)> = Vec::new();
    let mut skipped_total: BTreeMap<String, u64> = BTreeMap::new();
    let mut boundaries_total = 0u64;
    for &i in &order {
        let pp = &prepared[i];
        if matches!(pp.base, Out::Panic(_)) {
            continue;
        }
        boundaries_total += pp.bounds.iter().map(|b| b.len() as u64).sum::<u64>();
        let (ins, skipped) = single_insertions(pp, single_kinds(ctx.quick()));
        for (k, n) in skipped {
            *skipped_total.entry(k).or_insert(0) += n;
        }
        for x in ins {
            tasks.push((i, x));
        }
    }
    let r = run_par(ctx, tasks.len() as u64, 32, |idx, acc| {
        let (i, ins) = tasks[idx as usize];
        check_trivia(&prepared[i], &[ins], acc);
        if idx % 9973 == 0 {
            let pp = &prepared[i];
            acc.sample(obj(vec![("program", pp.p.name.as_str().into()), ("file", pp.p.files[ins.0].0.as_str().into()), ("byte", ins.1.into()), ("trivia", KINDS[ins.2].0.into()), ("default_verdict", pp.base.tag().into())]));
        }
    });
    let singles = r.acc.evals;
    rep.absorb("trivia_single_insertions", r);
    phase("single insertions");

    // part 1, two deviations (thorough): all pairs for the smaller programs, capped by a fixed case count
    let mut pair_cases = 0u64;
    let mut pair_programs = 0u64;
    if bound >= 2 {
        let cap: u64 = std::env::var("C14_PAIR_CAP").ok().and_then(|s| s.parse().ok()).unwrap_or(PAIR_CAP);
        // (program, first insertion index, number of second insertions)
        let mut ptasks: Vec<(usize, usize)> = Vec::new();
        let mut per_program: BTreeMap<usize, Vec<Ins>> = BTreeMap::new();
        // the hand-written programs first (smallest first), then the bulk (token-deletion mutants, shared corpus)
        let mut pair_order = order.clone();
        pair_order.sort_by_key(|i| {
            let n = &prepared[*i].p.name;
            (n.starts_with("mutant-") || n.starts_with("shared/") || n.starts_with("typer-suite-"), prepared[*i].p.size(), *i)
        });
        for &i in &pair_order {
            let pp = &prepared[i];
            if matches!(pp.base, Out::Panic(_)) {
                continue;
            }
            // pairs: the plain kinds only (the pair space is the one of the earlier rounds)
            let (ins, _) = single_insertions(pp, ASCII_KINDS);
            let n = ins.len() as u64;
            let pairs = n * n.saturating_sub(1) / 2;
            if pair_cases + pairs > cap {
                continue;
            }
            pair_cases += pairs;
            pair_programs += 1;
            for a in 0..ins.len() {
                ptasks.push((i, a));
            }
            per_program.insert(i, ins);
        }
        let r = run_par(ctx, ptasks.len() as u64, 4, |idx, acc| {
            let (i, a) = ptasks[idx as usize];
            let ins = &per_program[&i];
            for b in a + 1..ins.len() {
                // two insertions at the same place are ordered by list position; distinct places only
                if ins[a].0 == ins[b].0 && ins[a].1 == ins[b].1 {
                    continue;
                }
                check_trivia(&prepared[i], &[ins[a], ins[b]], acc);
            }
        });
        rep.absorb("trivia_pairs_first_insertion", r);
        rep.cov("pair_programs", Json::Int(pair_programs as i64));
        rep.cov("pair_cases_planned", Json::Int(pair_cases as i64));
        rep.cov("pair_cap", Json::Int(cap as i64));
        if pair_programs < prepared.len() as u64 {
            rep.caps_hit.push(format!("pairs of insertions: the {} smallest-fitting programs of {} ({} pairs) under the fixed cap of {} pairs; single insertions are complete for all programs", pair_programs, prepared.len(), pair_cases, cap));
        }
    }

    // coverage
    let classes: BTreeSet<String> = prepared.iter().filter(|p| matches!(p.base, Out::Err(_))).map(|p| p.class.clone()).collect();
    let rejected = prepared.iter().filter(|p| matches!(p.base, Out::Err(_))).count();
    let accepted = prepared.iter().filter(|p| matches!(p.base, Out::Ok(_))).count();
    let located = prepared.iter().filter(|p| matches!(&p.base, Out::Err(e) if parse_diag(e).iter().any(|m| m.file.is_some()))).count();
    rep.cov("programs", Json::Int(n_programs as i64));
    rep.cov("programs_accepted", Json::Int(accepted as i64));
    rep.cov("programs_rejected", Json::Int(rejected as i64));
    rep.cov("programs_rejected_with_a_located_diagnostic", Json::Int(located as i64));
    rep.cov("programs_with_crlf_line_endings", Json::Int(prepared.iter().filter(|p| p.p.files.iter().any(|f| f.1.contains('\r'))).count() as i64));
    rep.cov("programs_with_includes", Json::Int(prepared.iter().filter(|p| p.p.files.len() > 1).count() as i64));
    rep.cov("error_classes_hit", Json::Arr(classes.iter().map(|c| c.as_str().into()).collect()));
    rep.cov("error_classes_hit_count", Json::Int(classes.len() as i64));
    rep.cov("token_boundaries", Json::Int(boundaries_total as i64));
    rep.cov("trivia_kinds", Json::Arr(KINDS.iter().take(single_kinds(ctx.quick())).map(|k| k.0.into()).collect()));
    rep.cov("lineshift_fillers", Json::Arr(FILLERS.iter().filter(|f| !ctx.quick() || f.quick).map(|f| f.name.into()).collect()));
    rep.cov("boundaries_not_deviated", Json::Obj(skipped_total.iter().map(|(k, v)| (k.clone(), Json::Int(*v as i64))).collect()));
    rep.cov("deviation_bound_completed", Json::Int(if rep.exhaustive { bound as i64 } else { 1.min(bound) as i64 }));
    rep.cov("states", Json::Int((singles + pair_cases + n_programs as u64) as i64));
    rep.cov("transitions", Json::Int((singles + 2 * pair_cases) as i64));
    rep.cov("traces_validated_against_impl", Json::Int((rep.acc.evals) as i64));
    rep.cov("lineshift_compiles", Json::Int(shifts as i64));
    // absorbed insertions must all be of the expected kind: a comment opener glued to a preceding `/`
    let unexpected: Vec<String> = rep
        .acc
        .counters
        .keys()
        .filter(|k| k.starts_with("absorbed "))
        .filter(|k| !(((k.starts_with("absorbed block-comment") || k.starts_with("absorbed line-comment")) && k.contains(" after ForwardSlash ")) || k.contains(" after Comment ")))
        .cloned()
        .collect();
    for u in unexpected {
        rep.acc.violation(Violation { signature: format!("trivia|inserted-trivia-is-not-lexed-as-trivia|{}", u.split(" after ").next().unwrap_or("").trim_start_matches("absorbed ")), detail: format!("an inserted piece of trivia does not come out of the lexer as trivia of its own ({}), outside the two places where a neighbouring token absorbs it by design (a comment opener directly after `/`, text appended to a line comment)", u), replay: String::new() });
    }
    rep.assumptions = vec![
        "token boundaries are the spans of the real lexer, obtained through the public preprocess_fragment after replacing every `#` by `@` (same lexer branch, one byte) so that directive lines are lexed as text; `##` and the header name of #include lines are re-merged as the lexer does; the spans are checked to tile each file".into(),
        "a boundary between two blank characters is not deviated (nothing adjacent); a boundary inside a directive line takes no trivia that ends the line (newline, line comment); the two exceptions of the property text (directly after `<`/`>`; between the name and `(` of a #define) are not deviated and nothing else is excluded".into(),
        "an insertion that the real lexer does not see as trivia of its own because a neighbouring token absorbs it (`/` followed by an inserted `/*c*/` or `//c` becomes a line comment; text appended to a line comment) is not an insertion of trivia and is skipped; the classes skipped this way are listed in the counters and any other class is a machinery violation".into(),
        "diagnostics have the shape printed by MessagePrinter::write_message (located header + echoed line + caret line, or unlocated header); for rejected programs under trivia insertion only message texts, severities and file names are compared, positions are the subject of the line-shift part".into(),
        "comment text: plain ASCII and multi-byte UTF-8 (U+00E9, U+2014, U+1D6D1 = 2, 3 and 4 bytes; U+00B5, U+00A9 in the indented line) are enumerated; the column of a diagnostic is only ever compared with the column of the same diagnostic before the lines were inserted (whether columns count bytes or characters is not judged)".into(),
        "a block-comment line is inserted only at line starts that are token boundaries of the lexed text (inside a block comment that spans lines its `*/` would end that comment: not trivia there); blank lines and line comments are inserted at every logical line start".into(),
        "three or more simultaneous insertions, pairs that involve a non-ASCII comment, and insertions inside tokens, are outside the explored space".into(),
    ];
    finish(ctx, rep)
}

const PAIR_CAP: u64 = 9_000_000;

// ---------------------------------------------------------------------------------------------
// replay

pub fn replay(ctx: &Ctx, body: &str) -> i32 {
    let mut parts = body.split("=====file ");
    let head = parts.next().unwrap_or("");
    let mut files: Vec<(String, String)> = Vec::new();
    for part in parts {
        let (name, content) = part.split_once('\n').unwrap_or((part, ""));
        let content = content.strip_suffix('\n').unwrap_or(content);
        files.push((name.trim().to_string(), content.to_string()));
    }
    if files.is_empty() {
        eprintln!("machinery error: bad replay file (no files)");
        return 2;
    }
    let mut p = Program { name: "replay".into(), files, cfg: Cfg::Dx, mode: Mode::NoPipeline, validate_layout: false, expect_at: None };
    let mut kind = String::new();
    let mut ins: Vec<Ins> = Vec::new();
    let mut lines: Option<(usize, u32, usize, usize)> = None;
    for l in head.lines() {
        if let Some(v) = l.strip_prefix("kind: ") {
            kind = v.trim().to_string();
        } else if let Some(v) = l.strip_prefix("cfg: ") {
            p.cfg = Cfg::from_name(v.trim()).unwrap_or(Cfg::Dx);
        } else if let Some(v) = l.strip_prefix("mode: ") {
            p.mode = match v.trim() {
                "all" => Mode::All,
                "nopipe" => Mode::NoPipeline,
                o => Mode::Named(o.trim_start_matches("named ").to_string()),
            };
        } else if let Some(v) = l.strip_prefix("layout: ") {
            p.validate_layout = v.trim() == "1";
        } else if let Some(v) = l.strip_prefix("name: ") {
            p.name = v.trim().to_string();
        } else if let Some(v) = l.strip_prefix("expect_at: ") {
            if let Some((f, n)) = v.split_once('\t') {
                p.expect_at = Some((f.to_string(), n.replace("\\n", "\n").replace("\\t", "\t").replace("\\\\", "\\")));
            }
        } else if let Some(v) = l.strip_prefix("insert: ") {
            let f: Vec<&str> = v.split('\t').collect();
            if f.len() == 3 {
                let fi = p.files.iter().position(|x| x.0 == f[0]);
                let k = KINDS.iter().position(|x| x.0 == f[2]);
                if let (Some(fi), Ok(off), Some(k)) = (fi, f[1].parse::<usize>(), k) {
                    ins.push((fi, off, k));
                }
            }
        } else if let Some(v) = l.strip_prefix("lines: ") {
            let f: Vec<&str> = v.split('\t').collect();
            if f.len() == 4 {
                let fi = p.files.iter().position(|x| x.0 == f[0]);
                let fl = filler_index(f[3]);
                if let (Some(fi), Ok(line), Ok(k), Some(fl)) = (fi, f[1].parse::<u32>(), f[2].parse::<usize>(), fl) {
                    lines = Some((fi, line, k, fl));
                }
            }
        }
    }
    let mut acc = Acc::default();
    let pp = prepare(p);
    println!("default execution: {} ({})\n{}", pp.base.tag(), pp.class, one_line(pp.base.text(), 600));
    match kind.as_str() {
        "trivia" => {
            if ins.is_empty() {
                eprintln!("machinery error: no insertion in the replay file");
                return 2;
            }
            check_trivia(&pp, &ins, &mut acc);
            let again = {
                let mut a2 = Acc::default();
                check_trivia(&pp, &ins, &mut a2);
                a2.viol.keys().cloned().collect::<Vec<_>>()
            };
            if again != acc.viol.keys().cloned().collect::<Vec<_>>() {
                eprintln!("machinery error: replaying twice gives different verdicts");
                return 2;
            }
        }
        "lineshift" => {
            let Some((f, line, k, fl)) = lines else {
                eprintln!("machinery error: no `lines:` in the replay file");
                return 2;
            };
            let Some((off, _)) = line_starts(&pp.p.files[f].1).into_iter().find(|x| x.1 == line) else {
                eprintln!("machinery error: line {} is not a logical line start", line);
                return 2;
            };
            check_lineshift(&pp, f, off, line, k, fl, &mut acc);
        }
        "position" => check_position(&pp, &mut acc),
        _ => {
            eprintln!("machinery error: unknown replay kind `{}`", kind);
            return 2;
        }
    }
    finish_replay(ctx, &acc)
}

// ---------------------------------------------------------------------------------------------
// probe (development aid): C14_PROBE=<json array of sources> prints verdict and error class of each

fn probe(path: &str) -> i32 {
    let text = std::fs::read_to_string(path).unwrap_or_default();
    let Ok(j) = crate::json::parse(&text) else {
        eprintln!("cannot parse {}", path);
        return 2;
    };
    for (i, s) in j.as_arr().map(|a| a.to_vec()).unwrap_or_default().iter().enumerate() {
        let src = s.as_str().unwrap_or("");
        let p = Program::single(&format!("cand-{}", i), src);
        let pp = prepare(p);
        println!("#{}\t{}\t{}\t{}\t{}", i, pp.base.tag(), pp.class, one_line(src, 300), one_line(pp.base.text(), 200));
    }
    0
}
